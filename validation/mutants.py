"""Own property-breaking edits ("breaks to catch" of DESIGN.md), applied by tools/mutate.py to a
scratch worktree.  Each edit is (path, old, new) and must match exactly once."""

M = "gunicorn/http/message.py"
B = "gunicorn/http/body.py"
W = "gunicorn/http/wsgi.py"
P = "gunicorn/http/parser.py"
U = "gunicorn/http/unreader.py"
GT = "gunicorn/workers/gthread.py"
SY = "gunicorn/workers/sync.py"
AS = "gunicorn/workers/base_async.py"
BA = "gunicorn/workers/base.py"
AR = "gunicorn/arbiter.py"
UT = "gunicorn/util.py"
GL = "gunicorn/glogging.py"
PF = "gunicorn/pidfile.py"
CF = "gunicorn/config.py"
AB = "gunicorn/app/base.py"

MUTANTS = [
    # ---- C01 -------------------------------------------------------------------------------
    {"name": "c01-te-strip-any-whitespace", "prop": "C01", "checks": ["C01"],
     "edits": [(M, 'vals = [v.strip(" \\t") for v in value.split(\',\')]', "vals = [v.strip() for v in value.split(',')]")]},
    {"name": "c01-dup-content-length-allowed", "prop": "C01", "checks": ["C01"],
     "edits": [(M, '''                if content_length is not None:
                    raise InvalidHeader("CONTENT-LENGTH", req=self)
                content_length = value''', '''                content_length = value''')]},
    {"name": "c01-chunked-on-http10", "prop": "C01", "checks": ["C01"],
     "edits": [(M, "            if self.version < (1, 1):\n                # framing wonky", "            if False:\n                # framing wonky")]},
    {"name": "c01-chunk-size-int16-lenient", "prop": "C01", "checks": ["C01"],
     "edits": [(B, '''        if any(n not in b"0123456789abcdefABCDEF" for n in chunk_size):
            raise InvalidChunkSize(chunk_size)
        if len(chunk_size) == 0:
            raise InvalidChunkSize(chunk_size)
        chunk_size = int(chunk_size, 16)''', '''        try:
            chunk_size = int(chunk_size, 16)
        except ValueError:
            raise InvalidChunkSize(chunk_size)''')]},
    {"name": "c01-skip-chunk-crlf-check", "prop": "C01", "checks": ["C01"],
     "edits": [(B, "            if rest[:2] != b'\\r\\n':\n                raise ChunkMissingTerminator(rest[:2])", "            pass")]},
    {"name": "c01-lengthreader-pushback-short", "prop": "C01", "checks": ["C01", "C07"],
     "edits": [(B, "        ret, rest = buf[:size], buf[size:]\n        self.unreader.unread(rest)", "        ret, rest = buf[:size], buf[size + 1:]\n        self.unreader.unread(rest)")]},
    {"name": "c01-cl-plus-te-accepted", "prop": "C01", "checks": ["C01"],
     "edits": [(M, '''            if content_length is not None:
                # we cannot be certain the message framing we understood matches proxy intent
                #  -> whatever happens next, remaining input must not be trusted
                raise InvalidHeader("CONTENT-LENGTH", req=self)''', '''            if content_length is not None:
                self.force_close()''')]},
    {"name": "c01-header-value-nul-allowed", "prop": "C01", "checks": ["C01"],
     "edits": [(M, 'RFC9110_5_5_INVALID_AND_DANGEROUS = re.compile(r"[\\0\\r\\n]")', 'RFC9110_5_5_INVALID_AND_DANGEROUS = re.compile(r"[\\r\\n]")')]},
    {"name": "c01-chunked-not-last-accepted", "prop": "C01", "checks": ["C01"],
     "edits": [(M, '''                    elif val.lower() in ('compress', 'deflate', 'gzip'):
                        # chunked should be the last one
                        if chunked:
                            raise InvalidHeader("TRANSFER-ENCODING", req=self)''', '''                    elif val.lower() in ('compress', 'deflate', 'gzip'):''')]},
    # ---- C06 -------------------------------------------------------------------------------
    {"name": "c06-chunk-terminator-no-readahead", "prop": "C06", "checks": ["C06"],
     "edits": [(B, '''            while len(rest) < 2:
                new_data = unreader.read()
                if not new_data:
                    break
                rest += new_data''', '''            if len(rest) < 2:
                rest += unreader.read()''')]},
    {"name": "c06-max-buffer-counts-everything", "prop": "C06", "checks": ["C06", "C12"],
     "edits": [(M, "                if head_len > self.max_buffer_headers:", "                if len(data) > self.max_buffer_headers:")]},
    {"name": "c06-readline-crlf-split", "prop": "C06", "checks": ["C06"],
     "edits": [(M, '''        while True:
            idx = data.find(b"\\r\\n")
            if idx >= 0:
                # check if the request line is too large''', '''        while True:
            idx = data[-8192:].find(b"\\r\\n")
            if idx >= 0:
                idx += max(0, len(data) - 8192)
                # check if the request line is too large''')]},
    # ---- C07 -------------------------------------------------------------------------------
    {"name": "c07-readline-off-by-one", "prop": "C07", "checks": ["C07"],
     "edits": [(B, "            idx = idx + 1 if idx >= 0 else size if len(data) >= size else 0", "            idx = idx if idx > 0 else size if len(data) >= size else 0")]},
    {"name": "c07-readline-size-not-decremented", "prop": "C07", "checks": ["C07"],
     "edits": [(B, "            ret.append(data)\n            size -= len(data)", "            ret.append(data)")]},
    {"name": "c07-parser-does-not-drain-body", "prop": "C07", "checks": ["C07"],
     "edits": [(P, '''            data = self.mesg.body.read(8192)
            while data:
                data = self.mesg.body.read(8192)''', '''            data = self.mesg.body.read(8192)''')]},
    {"name": "c07-parser-never-drains-body", "prop": "C07", "checks": ["C07"],
     "edits": [(P, '''            data = self.mesg.body.read(8192)
            while data:
                data = self.mesg.body.read(8192)''', '''            pass''')]},
    {"name": "c07-lengthreader-no-decrement", "prop": "C07", "checks": ["C07"],
     "edits": [(B, "        self.unreader.unread(rest)\n        self.length -= size", "        self.unreader.unread(rest)\n        self.length -= size - (size == 1024)")]},
    # ---- C12 -------------------------------------------------------------------------------
    {"name": "c12-line-limit-off-by-3", "prop": "C12", "checks": ["C12"],
     "edits": [(M, "                if idx > limit > 0:", "                if idx > limit + 3 > 3:")]},
    {"name": "c12-no-incomplete-line-check", "prop": "C12", "checks": ["C12"],
     "edits": [(M, "            if len(data) - 2 > limit > 0:\n                raise LimitRequestLine(len(data), limit)\n", "")]},
    {"name": "c12-fields-ge-to-gt", "prop": "C12", "checks": ["C12"],
     "edits": [(M, "            if nfields >= self.limit_request_fields:", "            if nfields > self.limit_request_fields:")]},
    {"name": "c12-drop-max-buffer-headers", "prop": "C12", "checks": ["C12"],
     "edits": [(M, "                if head_len > self.max_buffer_headers:\n                    raise LimitRequestHeaders(\"max buffer headers\")\n", "")]},
    {"name": "c12-field-size-limit-ignored-on-last", "prop": "C12", "checks": ["C12"],
     "edits": [(M, "            if header_length > self.limit_request_field_size > 0:\n                raise LimitRequestHeaders(\"limit request headers fields size\")", "            if lines and header_length > self.limit_request_field_size > 0:\n                raise LimitRequestHeaders(\"limit request headers fields size\")")]},
    {"name": "c12-trailer-cap-removed", "prop": "C12", "checks": ["C12"],
     "edits": [(B, "            if buf.tell() > limit:\n                raise LimitRequestHeaders(\"max buffer trailers\")\n", "")]},
    # ---- C02 -------------------------------------------------------------------------------
    {"name": "c02-chunked-for-head", "prop": "C02", "checks": ["C02"],
     "edits": [(W, "        elif self.req.method == 'HEAD':\n            # Responses to a HEAD request MUST NOT contain a response body.\n            return False", "        elif False:\n            return False")]},
    {"name": "c02-empty-chunk-midstream", "prop": "C02", "checks": ["C02"],
     "edits": [(W, "        if self.chunked and tosend == 0:\n            return\n", "")]},
    {"name": "c02-write-not-cut-at-cl", "prop": "C02", "checks": ["C02"],
     "edits": [(W, "            if tosend < arglen:\n                arg = arg[:tosend]", "            pass")]},
    {"name": "c02-close-always-terminates", "prop": "C02", "checks": ["C02"],
     "edits": [(W, "        if self.chunked:\n            util.write_chunk(self.sock, b\"\")", "        if self.chunked or self.req.version > (1, 0):\n            util.write_chunk(self.sock, b\"\")")]},
    {"name": "c02-should-close-false-for-close-delimited", "prop": "C02", "checks": ["C02"],
     "edits": [(W, "        if self.status_code < 200 or self.status_code in (204, 304):\n            return False\n        return True", "        if self.status_code < 200 or self.status_code in (204, 304):\n            return False\n        return False")]},
    {"name": "c02-gthread-keepalive-despite-should-close", "prop": "C02", "checks": ["C02"],
     "edits": [(GT, "            if resp.should_close():\n                self.log.debug(\"Closing connection.\")\n                return False", "            if resp.should_close() and not self.cfg.keepalive:\n                return False")]},
    {"name": "c02-sendfile-empty-double-terminator", "prop": "C02", "checks": ["C02"],
     "edits": [(W, "        if self.is_chunked() and nbytes > 0:\n            chunk_size", "        if self.is_chunked():\n            chunk_size"),
               (W, "        if self.is_chunked() and nbytes > 0:\n            self.sock.sendall(b\"\\r\\n\")", "        if self.is_chunked():\n            self.sock.sendall(b\"\\r\\n\")")]},
    {"name": "c02-connection-first-value-only", "prop": "C02", "checks": ["C02"],
     "edits": [(M, '                tokens.extend(t.strip(" \\t").lower() for t in v.split(","))', '                tokens.append(v.strip(" \\t").lower())')]},
    {"name": "c02-error-after-headers-sends-terminator", "prop": "C02", "checks": ["C02"],
     "edits": [(AS, "                self.log.exception(\"Error handling request\")\n                try:", "                self.log.exception(\"Error handling request\")\n                try:\n                    resp.close()")]},
]

MUTANTS += [
    # ---- C05 -------------------------------------------------------------------------------
    {"name": "c05-handle-error-reraises-limit", "prop": "C05", "checks": ["C05"],
     "edits": [(BA, "            elif isinstance(exc, LimitRequestLine):\n                mesg = \"%s\" % str(exc)", "            elif isinstance(exc, LimitRequestLine):\n                raise exc")]},
    {"name": "c05-sync-no-finally-close", "prop": "C05", "checks": ["C05"],
     "edits": [(SY, "            self.handle_error(req, client, addr, e)\n        finally:\n            util.close(client)", "            self.handle_error(req, client, addr, e)\n            util.close(client)")]},
    # (letting an OSError escape gthread's handle() is contained by finish_request(): equivalent for C05)
    {"name": "c05-error-page-keepalive", "prop": "C05", "checks": ["C05"],
     "edits": [(UT, "    HTTP/1.1 %s %s\\r\n    Connection: close\\r", "    HTTP/1.1 %s %s\\r\n    Connection: keep-alive\\r")]},
    {"name": "c05-nomoredata-after-app-call", "prop": "C05", "checks": ["C05"],
     "edits": [(M, "        if not data:\n            if stop:\n                raise StopIteration()\n            raise NoMoreData(buf.getvalue())", "        if not data:\n            if stop:\n                raise StopIteration()\n            return")]},
    {"name": "c05-async-systemexit-on-bad-version", "prop": "C05", "checks": ["C05"],
     "edits": [(M, "        if match is None:\n            raise InvalidHTTPVersion(bits[2])", "        if match is None:\n            raise SystemExit(3)")]},
    # ---- C08 -------------------------------------------------------------------------------
    {"name": "c08-no-allow-list-for-scheme", "prop": "C08", "checks": ["C08"],
     "edits": [(M, "        elif ('*' in cfg.forwarded_allow_ips or\n              not isinstance(self.peer_addr, tuple)\n              or self.peer_addr[0] in cfg.forwarded_allow_ips):", "        elif True:")]},
    {"name": "c08-proxy-no-access-check", "prop": "C08", "checks": ["C08"],
     "edits": [(M, "        self.proxy_protocol_access_check()\n        self.parse_proxy_protocol(line)", "        self.parse_proxy_protocol(line)")]},
    {"name": "c08-gthread-drops-proxy-info", "prop": "C08", "checks": ["C08"],
     "edits": [(GT, "            else:\n                req.proxy_protocol_info = conn.proxy_protocol_info", "            else:\n                pass")]},
    {"name": "c08-underscore-mapped-default", "prop": "C08", "checks": ["C08"],
     "edits": [(M, "                elif self.cfg.header_map == \"drop\":\n                    # almost as if it never had been there\n                    # but still counts against resource limits\n                    continue", "                elif self.cfg.header_map == \"drop\":\n                    pass")]},
    {"name": "c08-proxy-allow-substring-match", "prop": "C08", "checks": ["C08"],
     "edits": [(M, "                self.peer_addr[0] not in self.cfg.proxy_allow_ips):", "                not any(self.peer_addr[0].startswith(a[:2]) for a in self.cfg.proxy_allow_ips)):")]},
    {"name": "c08-async-proxy-only-second", "prop": "C08", "checks": ["C08"],
     "edits": [(AS, "                        if req.proxy_protocol_info:\n                            proxy_protocol_info = req.proxy_protocol_info\n                        else:\n                            req.proxy_protocol_info = proxy_protocol_info", "                        if req.proxy_protocol_info:\n                            proxy_protocol_info = req.proxy_protocol_info\n                        elif parser.req_count == 2:\n                            req.proxy_protocol_info = proxy_protocol_info")]},
    # ---- C09 -------------------------------------------------------------------------------
    {"name": "c09-header-value-re-allows-lf", "prop": "C09", "checks": ["C09"],
     "edits": [(W, "HEADER_VALUE_RE = re.compile(r'[ \\t\\x21-\\x7e\\x80-\\xff]*')", "HEADER_VALUE_RE = re.compile(r'[ \\t\\n\\x21-\\x7e\\x80-\\xff]*')")]},
    {"name": "c09-value-match-not-fullmatch", "prop": "C09", "checks": ["C09"],
     "edits": [(W, "            if not HEADER_VALUE_RE.fullmatch(value):", "            if not HEADER_VALUE_RE.match(value):")]},
    {"name": "c09-hoppish-forwarded", "prop": "C09", "checks": ["C09"],
     "edits": [(W, "                # ignore hopbyhop headers\n                continue", "                # ignore hopbyhop headers\n                pass")]},
    {"name": "c09-status-unvalidated", "prop": "C09", "checks": ["C09"],
     "edits": [(W, "        if isinstance(status, str) and not HEADER_VALUE_RE.fullmatch(status):", "        if False:")]},
    {"name": "c09-name-token-match-prefix", "prop": "C09", "checks": ["C09"],
     "edits": [(W, "            if not TOKEN_RE.fullmatch(name):\n                raise InvalidHeaderName('%r' % name)", "            if not TOKEN_RE.match(name):\n                raise InvalidHeaderName('%r' % name)")]},
    # ---- C15 -------------------------------------------------------------------------------
    {"name": "c15-unquote-utf8", "prop": "C15", "checks": ["C15"],
     "edits": [(UT, "    if isinstance(string, str):\n        string = string.encode('latin-1')\n    return urllib.parse.unquote_to_bytes(string).decode('latin-1')", "    return urllib.parse.unquote(string, errors='replace')")]},
    {"name": "c15-query-decoded", "prop": "C15", "checks": ["C15"],
     "edits": [(W, "        \"QUERY_STRING\": req.query,", "        \"QUERY_STRING\": util.unquote_to_wsgi_str(req.query),")]},
    {"name": "c15-join-semicolon", "prop": "C15", "checks": ["C15"],
     "edits": [(W, "            hdr_value = \"%s,%s\" % (environ[key], hdr_value)", "            hdr_value = \"%s;%s\" % (environ[key], hdr_value)")]},
    {"name": "c15-duplicate-overwrites", "prop": "C15", "checks": ["C15"],
     "edits": [(W, "        if key in environ:\n            hdr_value = \"%s,%s\" % (environ[key], hdr_value)\n", "")]},
    {"name": "c15-script-name-after-decoding", "prop": "C15", "checks": ["C15"],
     "edits": [(W, "        path_info = path_info[len(script_name):]\n    environ['PATH_INFO'] = util.unquote_to_wsgi_str(path_info)", "        path_info = path_info[len(script_name) + 1:]\n    environ['PATH_INFO'] = util.unquote_to_wsgi_str(path_info)")]},
    {"name": "c15-method-uppercased", "prop": "C15", "checks": ["C15"],
     "edits": [(W, "        \"REQUEST_METHOD\": req.method,", "        \"REQUEST_METHOD\": req.method.replace('-', '_'),")]},
    # ---- C19 -------------------------------------------------------------------------------
    {"name": "c19-second-access-call-on-error-path", "prop": "C19", "checks": ["C19"],
     "edits": [(SY, "            if resp.should_close():\n" if False else "                resp.close()\n            finally:\n                request_time = datetime.now() - request_start\n                self.log.access(resp, req, environ, request_time)", "                resp.close()\n                self.log.access(resp, req, environ, datetime.now() - request_start)\n            finally:\n                request_time = datetime.now() - request_start\n                self.log.access(resp, req, environ, request_time)")]},
    {"name": "c19-sent-counts-arglen", "prop": "C19", "checks": ["C19"],
     "edits": [(W, "        self.sent += tosend\n        util.write(self.sock, arg, self.chunked)", "        self.sent += arglen\n        util.write(self.sock, arg, self.chunked)")]},
    {"name": "c19-no-crlf-escape", "prop": "C19", "checks": ["C19"],
     "edits": [(GL, ".replace(\n                    '\\r', '\\\\r').replace('\\n', '\\\\n')", "")]},
    {"name": "c19-sendfile-not-counted", "prop": "C19", "checks": ["C19"],
     "edits": [(W, "            self.sent += sent or 0", "            pass")]},
    {"name": "c19-gthread-logs-before-response", "prop": "C19", "checks": ["C19"],
     "edits": [(GT, "                resp.force_close()\n            try:\n                if isinstance(respiter, environ['wsgi.file_wrapper']):", "                resp.force_close()\n            self.log.access(resp, req, environ, datetime.now() - request_start)\n            try:\n                if isinstance(respiter, environ['wsgi.file_wrapper']):")]},
    {"name": "c19-status-from-first-start-response", "prop": "C19", "checks": ["C19"],
     "edits": [(GL, "        status = resp.status\n        if isinstance(status, str):\n            status = status.split(None, 1)[0]", "        status = resp.status\n        if isinstance(status, str):\n            status = status.split(None, 1)[0]\n        if status == '404':\n            status = '200'")]},
]

MUTANTS += [
    # ---- C03 -------------------------------------------------------------------------------
    {"name": "c03-manage-workers-kills-newest", "prop": "C03", "checks": ["C03"],
     "edits": [(AR, "            (pid, _) = workers.pop(0)\n            self.kill_worker(pid, signal.SIGTERM)", "            (pid, _) = workers.pop()\n            self.kill_worker(pid, signal.SIGTERM)")]},
    {"name": "c03-reap-only-one-child", "prop": "C03", "checks": ["C03"],
     "edits": [(AR, "                    worker.tmp.close()\n                    self.cfg.child_exit(self, worker)\n        except OSError as e:", "                    worker.tmp.close()\n                    self.cfg.child_exit(self, worker)\n                    break\n        except OSError as e:")]},
    {"name": "c03-boot-error-not-special", "prop": "C03", "checks": ["C03"],
     "edits": [(AR, "                    if exitcode == self.WORKER_BOOT_ERROR and not self.stopping:", "                    if False:")]},
    {"name": "c03-ttou-below-one", "prop": "C03", "checks": ["C03"],
     "edits": [(AR, "        if self.num_workers <= 1:\n            return", "        if self.num_workers <= 0:\n            return")]},
    {"name": "c03-spawn-only-when-two-short", "prop": "C03", "checks": ["C03"],
     "edits": [(AR, "        if len(self.WORKERS) < self.num_workers:\n            self.spawn_workers()", "        if len(self.WORKERS) < self.num_workers - 1:\n            self.spawn_workers()")]},
    {"name": "c03-nonzero-exit-not-forgotten", "prop": "C03", "checks": ["C03"],
     "edits": [(AR, "                    worker = self.WORKERS.pop(wpid, None)\n                    if not worker:\n                        continue", "                    if exitcode > 1:\n                        continue\n                    worker = self.WORKERS.pop(wpid, None)\n                    if not worker:\n                        continue")]},
    {"name": "c10-hup-does-not-spawn-new", "prop": "C10", "checks": ["C10"],
     "edits": [(AR, "        for _ in range(self.cfg.workers):\n            self.spawn_worker()\n\n        # manage workers\n        self.manage_workers()", "        # manage workers\n        self.manage_workers()")]},
    {"name": "c03-app-load-error-exit-code-lost", "prop": "C03", "checks": ["C03"],
     "edits": [(AR, "                        raise HaltServer(reason, self.APP_LOAD_ERROR)", "                        raise HaltServer(reason, 1)")]},
    {"name": "c03-reap-pops-before-checking-exitcode-only-tracked", "prop": "C03", "checks": ["C03"],
     "edits": [(AR, "                wpid, status = os.waitpid(-1, os.WNOHANG)\n                if not wpid:\n                    break", "                wpid, status = os.waitpid(-1, os.WNOHANG)\n                if not wpid or wpid not in self.WORKERS:\n                    break")]},
    # ---- C11 (simulated part) ----------------------------------------------------------------
    {"name": "c11-aborted-flag-never-set", "prop": "C11", "checks": ["C11"],
     "edits": [(AR, "                worker.aborted = True\n", "")]},
    {"name": "c11-timeout-halved-in-scan", "prop": "C11", "checks": ["C11"],
     "edits": [(AR, "                if time.monotonic() - worker.tmp.last_update() <= self.timeout:", "                if time.monotonic() - worker.tmp.last_update() <= self.timeout / 2:")]},
    {"name": "c11-scan-only-first-worker", "prop": "C11", "checks": ["C11"],
     "edits": [(AR, "                self.kill_worker(pid, signal.SIGABRT)\n            else:\n                self.kill_worker(pid, signal.SIGKILL)", "                self.kill_worker(pid, signal.SIGABRT)\n            else:\n                self.kill_worker(pid, signal.SIGKILL)\n            break")]},
    {"name": "c11-kill-immediately-no-abort", "prop": "C11", "checks": ["C11"],
     "edits": [(AR, "            if not worker.aborted:\n                self.log.critical", "            if False:\n                self.log.critical")]},
    {"name": "c11-timeout-zero-still-kills", "prop": "C11", "checks": ["C11"],
     "edits": [(AR, "        if not self.timeout:\n            return\n        workers = list(self.WORKERS.items())", "        workers = list(self.WORKERS.items())")]},
    {"name": "c11-scan-every-other-tick", "prop": "C11", "checks": ["C11"],
     "edits": [(AR, "                    self.sleep()\n                    self.murder_workers()", "                    self.sleep()\n                    if int(time.time()) % 4 == 0:\n                        self.murder_workers()")]},
]

BW = "gunicorn/workers/base.py"
GE = "gunicorn/workers/ggevent.py"
EV = "gunicorn/workers/geventlet.py"
SO = "gunicorn/sock.py"
MUTANTS += [
    # ---- C04 -------------------------------------------------------------------------------
    # (removing signal.siginterrupt(SIGTERM, False) is an equivalent mutant on Python >= 3.5: PEP 475 retries the call)
    {"name": "c04-handle-exit-exits-at-once", "prop": "C04", "checks": ["C04"],
     "edits": [(BW, "    def handle_exit(self, sig, frame):\n        self.alive = False", "    def handle_exit(self, sig, frame):\n        self.alive = False\n        sys.exit(0)")]},
    {"name": "c04-stop-sends-quit", "prop": "C04", "checks": ["C04"],
     "edits": [(AR, "        sig = signal.SIGTERM\n        if not graceful:\n            sig = signal.SIGQUIT", "        sig = signal.SIGQUIT")]},
    {"name": "c04-halt-keeps-pidfile", "prop": "C04", "checks": ["C04"],
     "edits": [(AR, "        if self.pidfile is not None:\n            self.pidfile.unlink()\n        self.cfg.on_exit(self)", "        self.cfg.on_exit(self)")]},
    {"name": "c04-sockets-not-unlinked", "prop": "C04", "checks": ["C04"],
     "edits": [(AR, "        sock.close_sockets(self.LISTENERS, unlink)\n\n        self.LISTENERS = []", "        sock.close_sockets(self.LISTENERS, False)\n\n        self.LISTENERS = []")]},
    {"name": "c04-gthread-does-not-wait-for-handlers", "prop": "C04", "checks": ["C04"],
     "edits": [(GT, "        deadline = time.time() + self.cfg.graceful_timeout\n        while self.futures:", "        os._exit(0)\n        deadline = time.time() + self.cfg.graceful_timeout\n        while self.futures:")]},
    {"name": "c04-no-kill-after-graceful-timeout", "prop": "C04", "checks": ["C04"],
     "edits": [(AR, "            time.sleep(0.1)\n\n        self.kill_workers(signal.SIGKILL)", "            time.sleep(0.1)\n")]},
    {"name": "c04-graceful-wait-doubled", "prop": "C04", "checks": ["C04"],
     "edits": [(AR, "        limit = time.time() + self.cfg.graceful_timeout", "        limit = time.time() + 3 * self.cfg.graceful_timeout + 4")]},
    {"name": "c04-halt-exit-status-one", "prop": "C04", "checks": ["C04"],
     "edits": [(AR, "        except (StopIteration, KeyboardInterrupt):\n            self.halt()", "        except (StopIteration, KeyboardInterrupt):\n            self.halt(exit_status=1)")]},
    {"name": "c04-gevent-no-graceful-wait", "prop": "C04", "checks": ["C04"],
     "edits": [(GE, "            while time.time() - ts <= self.cfg.graceful_timeout:\n                accepting = 0", "            while time.time() - ts <= 0.01:\n                accepting = 0")]},
]

MUTANTS += [
    # ---- C10 -------------------------------------------------------------------------------
    {"name": "c10-reload-recreates-listeners", "prop": "C10", "checks": ["C10"],
     "edits": [(AR, "        if old_address != self.cfg.address:\n            # close all listeners", "        if True:\n            # close all listeners")]},
    {"name": "c10-old-workers-get-quit", "prop": "C10", "checks": ["C10"],
     "edits": [(AR, "            (pid, _) = workers.pop(0)\n            self.kill_worker(pid, signal.SIGTERM)", "            (pid, _) = workers.pop(0)\n            self.kill_worker(pid, signal.SIGQUIT)")]},
    {"name": "c10-app-reload-skipped", "prop": "C10", "checks": ["C10"],
     "edits": [(AR, "        # reload conf\n        self.app.reload()\n        self.setup(self.app)", "        # reload conf\n        self.setup(self.app)")]},
    {"name": "c10-retire-newest", "prop": "C10", "checks": ["C10"],
     "edits": [(AR, "        workers = sorted(workers, key=lambda w: w[1].age)", "        workers = sorted(workers, key=lambda w: -w[1].age)")]},
    # (c10-env-not-reset-on-reload: equivalent for workers - Worker.init_process() applies cfg.env itself; the arbiter's copy only matters to code running in the master; dropped)
    {"name": "c10-sync-worker-closes-listener-on-term", "prop": "C10", "checks": ["C10"],
     "edits": [(SY, "            try:\n                self.accept(listener)\n                # Keep processing clients until no one is waiting. This\n                # prevents the need to select() for every client that we\n                # process.\n                continue", "            try:\n                self.accept(listener)\n                continue") if False else
               (BW, "    def handle_exit(self, sig, frame):\n        self.alive = False", "    def handle_exit(self, sig, frame):\n        self.alive = False\n        for s in self.sockets:\n            s.close()")]},
]

MUTANTS += [
    # ---- C14 -------------------------------------------------------------------------------
    {"name": "c14-unlink-ignores-upgrade-state", "prop": "C14", "checks": ["C14"],
     "edits": [(AR, "            self.reexec_pid == self.master_pid == 0\n            and not self.systemd", "            not self.systemd")]},
    {"name": "c14-gunicorn-fd-not-passed", "prop": "C14", "checks": ["C14"],
     "edits": [(AR, "                environ['GUNICORN_FD'] = ','.join(\n                    str(lnr.fileno()) for lnr in self.LISTENERS)", "                environ['GUNICORN_FD'] = ''")]},
    {"name": "c14-reexec-pid-never-reset", "prop": "C14", "checks": ["C14"],
     "edits": [(AR, "                if self.reexec_pid == wpid:\n                    self.reexec_pid = 0", "                if self.reexec_pid == wpid:\n                    pass")]},
    {"name": "c14-no-pidfile-rename-on-promotion", "prop": "C14", "checks": ["C14"],
     "edits": [(AR, "            if self.pidfile is not None:\n                self.pidfile.rename(self.cfg.pidfile)", "            pass")]},
    {"name": "c14-second-usr2-not-ignored", "prop": "C14", "checks": ["C14"],
     "edits": [(AR, "        if self.reexec_pid != 0:\n            self.log.warning(\"USR2 signal ignored. Child exists.\")\n            return", "        if False:\n            return")]},
    {"name": "c14-new-master-uses-plain-pidfile-name", "prop": "C14", "checks": ["C14"],
     "edits": [(AR, "            if self.master_pid != 0:\n                pidname += \".2\"", "            if False:\n                pidname += \".2\"")]},
    {"name": "c14-promotion-check-skipped", "prop": "C14", "checks": ["C14"],
     "edits": [(AR, "        if self.master_pid != os.getppid():", "        if self.master_pid != os.getppid() and os.getppid() == 1:")]},
]

MUTANTS += [
    # ---- C13 -------------------------------------------------------------------------------
    {"name": "c13-nr-conns-not-decremented-on-close-branch", "prop": "C13", "checks": ["C13"],
     "edits": [(GT, "            else:\n                self.nr_conns -= 1\n                conn.close()\n        except Exception:", "            else:\n                conn.close()\n        except Exception:")]},
    # (c13-keep-remove-race-guard-removed - `except ValueError: return` -> `pass` in on_client_socket_readable - is an equivalent
    #  mutant: the callback is registered only after `_keep.append(conn)` and both it and murder_keepalived() run in the loop
    #  thread, so the ValueError branch cannot be reached; dropped from the list)
    {"name": "c13-murder-keepalived-closes-early", "prop": "C13", "checks": ["C13"],
     "edits": [(GT, "            delta = conn.timeout - now\n            if delta > 0:", "            delta = conn.timeout - now\n            if delta > self.cfg.keepalive / 2.0:")]},
    {"name": "c13-no-unregister-before-dispatch", "prop": "C13", "checks": ["C13"],
     "edits": [(GT, "            # unregister the client from the poller\n            self.poller.unregister(client)\n", "")]},
    {"name": "c13-keepalive-never-reaped", "prop": "C13", "checks": ["C13"],
     "edits": [(GT, "            if not self.is_parent_alive():\n                break\n\n            # handle keepalive timeouts\n            self.murder_keepalived()", "            if not self.is_parent_alive():\n                break")]},
    {"name": "c13-keepalive-conn-not-reregistered", "prop": "C13", "checks": ["C13"],
     "edits": [(GT, "                    # add the socket to the event loop\n                    self.poller.register(conn.sock, selectors.EVENT_READ,\n                                         partial(self.on_client_socket_readable, conn))", "                    pass")]},
    {"name": "c13-capacity-recheck-removed", "prop": "C13", "checks": ["C13"],
     "edits": [(GT, "            if self.nr_conns >= self.worker_connections:\n                return\n            sock, client = listener.accept()", "            sock, client = listener.accept()")]},
    {"name": "c13-murder-closes-without-unregister-and-count", "prop": "C13", "checks": ["C13"],
     "edits": [(GT, "            else:\n                self.nr_conns -= 1\n                # remove the socket from the poller", "            else:\n                # remove the socket from the poller")]},
]

MUTANTS += [
    # ---- C11 (live part) ---------------------------------------------------------------------
    {"name": "c11-workers-get-double-timeout", "prop": "C11", "checks": ["C11"],
     "edits": [(AR, "                                   self.app, self.timeout / 2.0,", "                                   self.app, self.timeout * 2.0,")]},
    {"name": "c11-gthread-loop-does-not-notify", "prop": "C11", "checks": ["C11"],
     "edits": [(GT, "        while self.alive:\n            # notify the arbiter we are alive\n            self.notify()\n", "        while self.alive:\n")]},
    {"name": "c11-gevent-notifies-only-when-idle", "prop": "C11", "checks": ["C11"],
     "edits": [(GE, "        while self.alive:\n            self.notify()\n            gevent.sleep(1.0)", "        while self.alive:\n            if not len(pool):\n                self.notify()\n            gevent.sleep(1.0)") if False else
               (GE, "    def notify(self):\n        super().notify()", "    def notify(self):\n        if time.time() % 7 < 4:\n            super().notify()")]},
    # (c11-sync-notify-only-after-request: equivalent - the sync loop also notifies at the top of every iteration and wait() returns after timeout/2 at the latest; dropped)
]
