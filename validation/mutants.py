"""Own property-breaking edits ("breaks to catch" of DESIGN.md), applied by tools/mutate.py to a
scratch worktree.  Each edit is (path, old, new) and must match exactly once."""

M = "gunicorn/http/message.py"
B = "gunicorn/http/body.py"
W = "gunicorn/http/wsgi.py"
P = "gunicorn/http/parser.py"
U = "gunicorn/http/unreader.py"
GT = "gunicorn/workers/gthread.py"
SY = "gunicorn/workers/sync.py"
AS = "gunicorn/workers/base_async.py"
BA = "gunicorn/workers/base.py"
AR = "gunicorn/arbiter.py"
UT = "gunicorn/util.py"
GL = "gunicorn/glogging.py"
PF = "gunicorn/pidfile.py"
CF = "gunicorn/config.py"
AB = "gunicorn/app/base.py"

MUTANTS = [
    # ---- C01 -------------------------------------------------------------------------------
    {"name": "c01-te-strip-any-whitespace", "prop": "C01", "checks": ["C01"],
     "edits": [(M, 'vals = [v.strip(" \\t") for v in value.split(\',\')]', "vals = [v.strip() for v in value.split(',')]")]},
    {"name": "c01-dup-content-length-allowed", "prop": "C01", "checks": ["C01"],
     "edits": [(M, '''                if content_length is not None:
                    raise InvalidHeader("CONTENT-LENGTH", req=self)
                content_length = value''', '''                content_length = value''')]},
    {"name": "c01-chunked-on-http10", "prop": "C01", "checks": ["C01"],
     "edits": [(M, "            if self.version < (1, 1):\n                # framing wonky", "            if False:\n                # framing wonky")]},
    {"name": "c01-chunk-size-int16-lenient", "prop": "C01", "checks": ["C01"],
     "edits": [(B, '''        if any(n not in b"0123456789abcdefABCDEF" for n in chunk_size):
            raise InvalidChunkSize(chunk_size)
        if len(chunk_size) == 0:
            raise InvalidChunkSize(chunk_size)
        chunk_size = int(chunk_size, 16)''', '''        try:
            chunk_size = int(chunk_size, 16)
        except ValueError:
            raise InvalidChunkSize(chunk_size)''')]},
    {"name": "c01-skip-chunk-crlf-check", "prop": "C01", "checks": ["C01"],
     "edits": [(B, "            if rest[:2] != b'\\r\\n':\n                raise ChunkMissingTerminator(rest[:2])", "            pass")]},
    {"name": "c01-lengthreader-pushback-short", "prop": "C01", "checks": ["C01", "C07"],
     "edits": [(B, "        ret, rest = buf[:size], buf[size:]\n        self.unreader.unread(rest)", "        ret, rest = buf[:size], buf[size + 1:]\n        self.unreader.unread(rest)")]},
    {"name": "c01-cl-plus-te-accepted", "prop": "C01", "checks": ["C01"],
     "edits": [(M, '''            if content_length is not None:
                # we cannot be certain the message framing we understood matches proxy intent
                #  -> whatever happens next, remaining input must not be trusted
                raise InvalidHeader("CONTENT-LENGTH", req=self)''', '''            if content_length is not None:
                self.force_close()''')]},
    {"name": "c01-header-value-nul-allowed", "prop": "C01", "checks": ["C01"],
     "edits": [(M, 'RFC9110_5_5_INVALID_AND_DANGEROUS = re.compile(r"[\\0\\r\\n]")', 'RFC9110_5_5_INVALID_AND_DANGEROUS = re.compile(r"[\\r\\n]")')]},
    {"name": "c01-chunked-not-last-accepted", "prop": "C01", "checks": ["C01"],
     "edits": [(M, '''                    elif val.lower() in ('compress', 'deflate', 'gzip'):
                        # chunked should be the last one
                        if chunked:
                            raise InvalidHeader("TRANSFER-ENCODING", req=self)''', '''                    elif val.lower() in ('compress', 'deflate', 'gzip'):''')]},
    # ---- C06 -------------------------------------------------------------------------------
    {"name": "c06-chunk-terminator-no-readahead", "prop": "C06", "checks": ["C06"],
     "edits": [(B, '''            while len(rest) < 2:
                new_data = unreader.read()
                if not new_data:
                    break
                rest += new_data''', '''            if len(rest) < 2:
                rest += unreader.read()''')]},
    {"name": "c06-max-buffer-counts-everything", "prop": "C06", "checks": ["C06", "C12"],
     "edits": [(M, "                if head_len > self.max_buffer_headers:", "                if len(data) > self.max_buffer_headers:")]},
    {"name": "c06-readline-crlf-split", "prop": "C06", "checks": ["C06"],
     "edits": [(M, '''        while True:
            idx = data.find(b"\\r\\n")
            if idx >= 0:
                # check if the request line is too large''', '''        while True:
            idx = data[-8192:].find(b"\\r\\n")
            if idx >= 0:
                idx += max(0, len(data) - 8192)
                # check if the request line is too large''')]},
    # ---- C07 -------------------------------------------------------------------------------
    {"name": "c07-readline-off-by-one", "prop": "C07", "checks": ["C07"],
     "edits": [(B, "            idx = idx + 1 if idx >= 0 else size if len(data) >= size else 0", "            idx = idx if idx > 0 else size if len(data) >= size else 0")]},
    {"name": "c07-readline-size-not-decremented", "prop": "C07", "checks": ["C07"],
     "edits": [(B, "            ret.append(data)\n            size -= len(data)", "            ret.append(data)")]},
    {"name": "c07-parser-does-not-drain-body", "prop": "C07", "checks": ["C07"],
     "edits": [(P, '''            data = self.mesg.body.read(8192)
            while data:
                data = self.mesg.body.read(8192)''', '''            data = self.mesg.body.read(8192)''')]},
    {"name": "c07-parser-never-drains-body", "prop": "C07", "checks": ["C07"],
     "edits": [(P, '''            data = self.mesg.body.read(8192)
            while data:
                data = self.mesg.body.read(8192)''', '''            pass''')]},
    {"name": "c07-lengthreader-no-decrement", "prop": "C07", "checks": ["C07"],
     "edits": [(B, "        self.unreader.unread(rest)\n        self.length -= size", "        self.unreader.unread(rest)\n        self.length -= size - (size == 1024)")]},
    # ---- C12 -------------------------------------------------------------------------------
    {"name": "c12-line-limit-off-by-3", "prop": "C12", "checks": ["C12"],
     "edits": [(M, "                if idx > limit > 0:", "                if idx > limit + 3 > 3:")]},
    {"name": "c12-no-incomplete-line-check", "prop": "C12", "checks": ["C12"],
     "edits": [(M, "            if len(data) - 2 > limit > 0:\n                raise LimitRequestLine(len(data), limit)\n", "")]},
    {"name": "c12-fields-ge-to-gt", "prop": "C12", "checks": ["C12"],
     "edits": [(M, "            if nfields >= self.limit_request_fields:", "            if nfields > self.limit_request_fields:")]},
    {"name": "c12-drop-max-buffer-headers", "prop": "C12", "checks": ["C12"],
     "edits": [(M, "                if head_len > self.max_buffer_headers:\n                    raise LimitRequestHeaders(\"max buffer headers\")\n", "")]},
    {"name": "c12-field-size-limit-ignored-on-last", "prop": "C12", "checks": ["C12"],
     "edits": [(M, "            if header_length > self.limit_request_field_size > 0:\n                raise LimitRequestHeaders(\"limit request headers fields size\")", "            if lines and header_length > self.limit_request_field_size > 0:\n                raise LimitRequestHeaders(\"limit request headers fields size\")")]},
    {"name": "c12-trailer-cap-removed", "prop": "C12", "checks": ["C12"],
     "edits": [(B, "            if buf.tell() > limit:\n                raise LimitRequestHeaders(\"max buffer trailers\")\n", "")]},
    # ---- C02 -------------------------------------------------------------------------------
    {"name": "c02-chunked-for-head", "prop": "C02", "checks": ["C02"],
     "edits": [(W, "        elif self.req.method == 'HEAD':\n            # Responses to a HEAD request MUST NOT contain a response body.\n            return False", "        elif False:\n            return False")]},
    {"name": "c02-empty-chunk-midstream", "prop": "C02", "checks": ["C02"],
     "edits": [(W, "        if self.chunked and tosend == 0:\n            return\n", "")]},
    {"name": "c02-write-not-cut-at-cl", "prop": "C02", "checks": ["C02"],
     "edits": [(W, "            if tosend < arglen:\n                arg = arg[:tosend]", "            pass")]},
    {"name": "c02-close-always-terminates", "prop": "C02", "checks": ["C02"],
     "edits": [(W, "        if self.chunked:\n            util.write_chunk(self.sock, b\"\")", "        if self.chunked or self.req.version > (1, 0):\n            util.write_chunk(self.sock, b\"\")")]},
    {"name": "c02-should-close-false-for-close-delimited", "prop": "C02", "checks": ["C02"],
     "edits": [(W, "        if self.status_code < 200 or self.status_code in (204, 304):\n            return False\n        return True", "        if self.status_code < 200 or self.status_code in (204, 304):\n            return False\n        return False")]},
    {"name": "c02-gthread-keepalive-despite-should-close", "prop": "C02", "checks": ["C02"],
     "edits": [(GT, "            if resp.should_close():\n                self.log.debug(\"Closing connection.\")\n                return False", "            if resp.should_close() and not self.cfg.keepalive:\n                return False")]},
    {"name": "c02-sendfile-empty-double-terminator", "prop": "C02", "checks": ["C02"],
     "edits": [(W, "        if self.is_chunked() and nbytes > 0:\n            chunk_size", "        if self.is_chunked():\n            chunk_size"),
               (W, "        if self.is_chunked() and nbytes > 0:\n            self.sock.sendall(b\"\\r\\n\")", "        if self.is_chunked():\n            self.sock.sendall(b\"\\r\\n\")")]},
    {"name": "c02-connection-first-value-only", "prop": "C02", "checks": ["C02"],
     "edits": [(M, '                tokens.extend(t.strip(" \\t").lower() for t in v.split(","))', '                tokens.append(v.strip(" \\t").lower())')]},
    {"name": "c02-error-after-headers-sends-terminator", "prop": "C02", "checks": ["C02"],
     "edits": [(AS, "                self.log.exception(\"Error handling request\")\n                try:", "                self.log.exception(\"Error handling request\")\n                try:\n                    resp.close()")]},
]
