"""C11 Hung workers are killed and replaced; healthy workers never are.

E3 part (deciding for the master's side, all timeout values, exact timing in virtual time): the real
Arbiter.run() on the simulated kernel with workers following scripted heartbeat patterns.
E4 part (real heartbeat files and real worker loops of every worker class): live scenarios, see
vlib/e4_live.py - run by this check when the live engine is available.
"""
import json
import signal

from vlib import common
from vlib.common import Run, rng_for

PROP = "C11"
RULE = ("sim case = (timeout in {0,1,2,3,30,3600}, 1-3 workers, per-worker heartbeat pattern: healthy with gap <= timeout/2, "
        "adversarial gap up to timeout-epsilon, hung from t0 reacting to ABRT by dying or ignoring it; optional worker "
        "deaths / TTIN; SIGCHLD schedule), family master-pause = (the master alone does not run for 0.6 x timeout .. 45 s, once or twice; "
        "one worker hangs after / before / during that), family bystanders = (2-4 workers, one hangs at any table position, the "
        "others healthy, nothing else); live case = (worker class, hang kind or healthy pattern incl. idle on a listener inherited in "
        "blocking mode through LISTEN_FDS or fd://N, or healthy with slow clients: plain / TLS listener (handshake lazy or on connect), "
        "clients silent for 3 x timeout inside the TLS handshake or the request head while others are served, clients pausing for "
        "0.2 x timeout twice; timeout); distinct = "
        "sha1(case)+schedule; non-trivial = at least one hung worker or an adversarial healthy pattern")

ABRT, KILL, TERM = int(signal.SIGABRT), int(signal.SIGKILL), int(signal.SIGTERM)


def gen_scenario(rng):
    timeout = rng.choice([0, 1, 2, 2, 3, 3, 30, 3600])
    workers = rng.randint(1, 3)
    spawn_policy = {}
    horizon = 0.0
    nhung = 0
    for i in range(workers + 2):
        k = rng.random()
        T = timeout or 2
        if k < 0.35:
            pol = {"hb_gap": round(T * rng.choice([0.1, 0.25, 0.5]), 3)}
        elif k < 0.55:
            pol = {"hb_gap": round(T * rng.choice([0.9, 0.97, 0.999]), 4)}           # adversarial but healthy
        else:
            t0 = rng.choice([0.0, 0.4, 1.0, 2.6, 5.3]) if T < 100 else rng.choice([0.0, 10.0])
            pol = {"hb_gap": round(T * rng.choice([0.25, 0.5]), 3), "hang_at": t0}
            if rng.random() < 0.4:
                pol["ignore_abrt"] = True
            if rng.random() < 0.5:
                pol["ignore_term"] = True     # a process that is really stuck does not act on TERM either
            if i < workers:
                nhung += 1
                horizon = max(horizon, t0)
        spawn_policy[str(i)] = pol
    events = []
    t = 0.0
    for _ in range(rng.choice([0, 0, 1, 2, 2])):
        t += rng.choice([0.2, 0.5, 1.5, 3.0])
        k2 = rng.random()
        if k2 < 0.35:
            events.append({"type": "worker_exit", "which": rng.randint(0, 3), "signal": 9, "at": t})
        elif k2 < 0.8:
            events.append({"type": "signal", "sig": rng.choice(["TTIN", "TTOU", "TTOU"]), "at": t})
        else:
            events.append({"type": "signal", "sig": "HUP", "new_workers": workers, "at": t})
    T = timeout if timeout and timeout < 100 else (2 if not timeout else timeout)
    end = max(t, horizon) + (T if T < 100 else T) + 8 + (T if T < 100 else 0)
    events.append({"type": "end", "at": round(end, 2)})
    return {"workers": workers, "timeout": timeout, "graceful_timeout": 2, "events": events,
            "default_policy": {"hb_gap": round((timeout or 2) * 0.25, 3), "term_delay": 0.0},
            "spawn_policy": spawn_policy, "max_ticks": int(end * 3) + 400, "nhung": nhung}


def _healthy_policy(rng, T):
    return {"hb_gap": round(T * rng.choice([0.1, 0.25, 0.5, 0.5, 0.9, 0.999]), 4)}


def _hung_policy(rng, T, hang_at):
    pol = {"hb_gap": round(T * rng.choice([0.25, 0.5]), 3), "hang_at": round(hang_at, 3)}
    if rng.random() < 0.4:
        pol["ignore_abrt"] = True
    if rng.random() < 0.5:
        pol["ignore_term"] = True
    return pol


def gen_pause_scenario(rng):
    """The MASTER alone does not run for a while (stopped and continued, frozen, busy in a handler): one or two long steps of
    virtual time between two iterations of its loop, while the workers go on beating.  One worker hangs - mostly after the
    master runs again, sometimes before or while it is paused.  Nothing else happens."""
    timeout = rng.choice([1, 2, 2, 3, 3, 3, 30])
    T = timeout
    workers = rng.randint(1, 3)
    events = []
    t = rng.choice([0.3, 1.2, 2.5, 4.1])
    first = t
    for _ in range(rng.choice([1, 1, 1, 2])):
        d = round(rng.choice([0.6 * T, 1.5 * T, 3.0 * T, T + 5.5, 7.0, 12.0, 45.0]), 2)
        events.append({"type": "master_pause", "at": round(t, 2), "duration": d})
        t = t + d + rng.choice([0.4, 1.6, 3.3])
    resume = events[-1]["at"] + events[-1]["duration"]
    k = rng.random()
    if k < 0.75:
        hang = resume + rng.choice([0.2, 1.0, 2.7, T + 1.3])          # after the master runs again
    elif k < 0.9:
        hang = max(0.0, first - rng.choice([0.1, 0.9]))                # shortly before the pause
    else:
        hang = first + events[0]["duration"] * 0.5                      # while the master is paused
    h = rng.randrange(workers)
    spawn_policy = {str(i): (_hung_policy(rng, T, hang) if i == h else _healthy_policy(rng, T)) for i in range(workers)}
    end = max(resume, hang) + 2 * T + 8
    events.append({"type": "end", "at": round(end, 2)})
    return {"family": "master-pause", "workers": workers, "timeout": timeout, "graceful_timeout": 2, "events": events,
            "default_policy": {"hb_gap": round(T * 0.25, 3), "term_delay": 0.0},
            "spawn_policy": spawn_policy, "max_ticks": int(end * 3) + 400, "nhung": 1, "hung_index": h}


def gen_bystander_scenario(rng):
    """2-4 workers, exactly one of them hangs (any position in the table, any way of hanging), every other worker is healthy
    (any beat pattern) and so is every worker started later; no signal to the master, no other death."""
    timeout = rng.choice([1, 2, 2, 3, 3, 30])
    T = timeout
    workers = rng.randint(2, 4)
    h = rng.choice([workers - 1, workers - 1, rng.randrange(workers), rng.randrange(1, workers)])
    hang = rng.choice([0.0, 0.4, 1.0, 2.6, 5.3])
    spawn_policy = {str(i): (_hung_policy(rng, T, hang) if i == h else _healthy_policy(rng, T)) for i in range(workers)}
    end = hang + 2 * T + 8
    return {"family": "bystanders", "workers": workers, "timeout": timeout, "graceful_timeout": 2,
            "events": [{"type": "end", "at": round(end, 2)}],
            "default_policy": {"hb_gap": round(T * 0.25, 3), "term_delay": 0.0},
            "spawn_policy": spawn_policy, "max_ticks": int(end * 3) + 400, "nhung": 1, "hung_index": h}


RETIRING = ("TTOU", "HUP", "TERM", "INT", "QUIT")


class Monitor:
    def __init__(self, sc):
        self.sc = sc
        self.v = []
        self.abrt_at = {}
        self.kill_at = {}
        self.false_kill_checks = 0
        self.not_quiescent = False
        self.pauses = []                # [(from, to)] spans of virtual time in which the master did not run
        self.stop_checks = 0
        self.judged_after_pause = 0
        self.bystanders_judged = 0

    def install(self, k):
        """Scripted event `master_pause`: the virtual clock moves on by `duration` while the master is inside its select()
        (nothing of the master runs in between; the workers' scripted heartbeats follow the clock as always)."""
        k.monitor_hooks.append(self.hook)
        inner = k.fire_scripted

        def fire_scripted(ev):
            if ev["type"] != "master_pause":
                return inner(ev)
            start = k.now
            k.now = start + ev["duration"]
            self.pauses.append((start, k.now))
            k.log.append((k.now, "master_paused", start, ev["duration"]))

        k.fire_scripted = fire_scripted

    def stretch(self, t_from, deadline):
        """A deadline for something the master has to do, counted from t_from: a master that is not running cannot act - if
        a pause touches the span, the deadline is two ticks after the master runs again."""
        for a, b in sorted(self.pauses):
            if a <= deadline + 1e-9 and b >= t_from - 1e-9:
                deadline = max(deadline, b + 2.0)
        return deadline

    def hook_stop(self, k, pr, sig):
        # Without TTOU / HUP / a stopping signal to the master the pool never has a surplus and nobody has to make room:
        # the only signals a worker may get are those of the timeout scan.  A worker that is beating and is told to stop
        # anyway is a healthy worker that gets killed and replaced.
        if any(e[1] == "signal_to_master" and e[2] in RETIRING for e in k.log):
            return
        hang = pr.policy.get("hang_at")
        if pr.state != "run" or (hang is not None and pr.born + hang <= k.now):
            return
        self.stop_checks += 1
        name = {TERM: "TERM", int(signal.SIGQUIT): "QUIT", int(signal.SIGINT): "INT"}.get(sig, "other")
        self.v.append(("healthy-worker-stopped-without-cause/" + name,
                       "%s sent to pid %d (worker %d of %d, beating every %s s, timeout %s) although the master was never asked to "
                       "retire a worker; hung worker of this history: %s" % (
                           name, pr.pid, pr.spawn_index, self.sc["workers"], pr.policy.get("hb_gap"), self.sc["timeout"],
                           self.sc.get("hung_index", "see spawn_policy"))))

    def hook(self, kind, k, **info):
        if kind == "kill" and info["sig"] not in (ABRT, KILL, 0):
            if k.halting_signal_at is None and k.boot_failure_reaped_at is None:
                pr = k.procs.get(info["pid"])
                if pr is not None and pr.state != "reaped":
                    self.hook_stop(k, pr, info["sig"])
            return
        self.hook_scan(kind, k, **info)

    def hook_scan(self, kind, k, **info):
        if kind != "kill" or info["sig"] not in (ABRT, KILL):
            return
        if k.halting_signal_at is not None or k.boot_failure_reaped_at is not None:
            return
        pr = k.procs.get(info["pid"])
        if pr is None or pr.state == "reaped":
            return
        timeout = self.sc["timeout"]
        hb = k.heartbeat_of(pr.worker)
        age = k.now - hb
        self.false_kill_checks += 1
        name = "ABRT" if info["sig"] == ABRT else "KILL"
        if info["sig"] == ABRT:
            self.abrt_at.setdefault(pr.pid, k.now)
        else:
            self.kill_at.setdefault(pr.pid, k.now)
        if not timeout:
            self.v.append(("killed-with-timeout-disabled", "%s sent to pid %d although timeout=0" % (name, pr.pid)))
        elif pr.state == "run" and age < timeout - 1e-6:      # strictly younger than the timeout (equality is the boundary)
            self.v.append(("healthy-worker-killed/" + name,
                           "%s sent to pid %d whose last heartbeat is %.3f s old (timeout %s, heartbeat gap %s)" % (
                               name, pr.pid, age, timeout, pr.policy.get("hb_gap"))))
        if info["sig"] == KILL and pr.pid not in self.abrt_at:
            self.v.append(("killed-without-abort-first", "KILL sent to pid %d before any ABRT" % pr.pid))

    def finish(self, k):
        v = list(self.v)
        sc = self.sc
        timeout = sc["timeout"]
        code = k.exit_code
        if code != "running":
            v.append(("master-stopped-unexpectedly", "exit/exception %r" % (code,)))
            return v
        if getattr(k, "end_reason", "") == "budget":
            v.append(("master-loop-does-not-settle", "tick budget exhausted at +%.1f" % (k.now - k.t0)))
            return v
        if timeout and timeout < 100:
            for pr in k.procs.values():
                hang = pr.policy.get("hang_at")
                if hang is None:
                    continue
                t_h = pr.born + hang
                last_hb = pr.born + int((hang) / pr.policy["hb_gap"] + 1e-9) * pr.policy["hb_gap"]
                deadline = self.stretch(last_hb, last_hb + timeout + 2.0)
                died_before = pr.died is not None and pr.died <= deadline and pr.pid not in self.abrt_at
                if died_before or pr.born + hang > k.now - timeout - 4:
                    continue        # left the stage for another reason / hung too late to judge
                if any(b <= t_h for _, b in self.pauses):
                    self.judged_after_pause += 1        # hung after the master had been paused and ran again
                a = self.abrt_at.get(pr.pid)
                if a is None or a > deadline + 1e-9:
                    v.append(("hung-worker-not-aborted-in-time",
                              "pid %d stopped beating at +%.2f (last beat +%.2f), timeout %s: ABRT %s, deadline +%.2f" % (
                                  pr.pid, t_h - k.t0, last_hb - k.t0, timeout,
                                  "never sent" if a is None else "at +%.2f" % (a - k.t0), deadline - k.t0)))
                    continue
                if pr.policy.get("ignore_abrt"):
                    kk = self.kill_at.get(pr.pid)
                    kdl = self.stretch(a, a + 2.0)
                    if pr.died is not None and pr.died <= kdl + 1e-9:
                        continue    # went away for another reason (e.g. it was also asked to TERM) before KILL was due
                    if kk is None or kk > kdl + 1e-9:
                        v.append(("abort-ignoring-worker-not-killed",
                                  "pid %d ignored ABRT sent at +%.2f: KILL %s" % (
                                      pr.pid, a - k.t0, "never sent" if kk is None else "at +%.2f" % (kk - k.t0))))
        # pool back at target
        tgt = sc["workers"]
        for e in k.log:
            if e[1] == "signal_to_master":
                if e[2] == "HUP" and e[3] is not None:
                    tgt = e[3]
                else:
                    tgt = tgt + 1 if e[2] == "TTIN" else (tgt - 1 if e[2] == "TTOU" and tgt > 1 else tgt)
        run = [p for p in k.procs.values() if p.state == "run"]
        eff = [p for p in run if not any(s in (TERM, KILL, ABRT) for _, s in p.sent)]
        last_activity = max([e[0] for e in k.log if e[1] in ("fork", "kill", "child_died", "reaped")] or [k.t0])
        if k.now - last_activity < 3.0:
            self.not_quiescent = True       # the run ended while the pool was still changing: not judged
        elif not (len(eff) <= tgt <= len(run)):
            late = [p for p in k.procs.values() if p.policy.get("hang_at") is not None and p.state == "run"
                    and p.born + p.policy["hang_at"] > k.now - (timeout or 0) - 4]
            phantom = set(k.tracked) - set(p.pid for p in run)
            if not late and not phantom:
                v.append(("pool-not-restored", "%d running (%d not signalled), target %d" % (len(run), len(eff), tgt)))
        # one hung worker among healthy ones: the healthy ones are the same processes afterwards, one worker was started
        if sc.get("family") == "bystanders" and timeout and not self.not_quiescent:
            first = sorted(k.procs.values(), key=lambda p: p.spawn_index)[:sc["workers"]]
            hung = [p for p in first if p.policy.get("hang_at") is not None]
            others = [p for p in first if p.policy.get("hang_at") is None]
            if len(hung) == 1 and hung[0].pid in self.abrt_at and hung[0].state != "run" and others:
                self.bystanders_judged += 1
                gone = [p for p in others if p.state != "run" or p.sent]
                if gone:
                    v.append(("healthy-bystander-of-a-hung-worker-replaced",
                              "worker %d of %d hung and was aborted; of the healthy workers, %s" % (
                                  sc["hung_index"], sc["workers"], ", ".join(
                                      "worker %d (beating every %s s) was sent %s and is %s" % (
                                          p.spawn_index, p.policy.get("hb_gap"), [s2 for _, s2 in p.sent] or "nothing",
                                          "still running" if p.state == "run" else "gone") for p in gone))))
                nforks = len([e for e in k.log if e[1] == "fork"])
                if nforks > sc["workers"] + 1:
                    v.append(("more-than-one-worker-started-for-one-hung-worker",
                              "%d workers, worker %d hung and nothing else happened: %d workers were started afterwards" % (
                                  sc["workers"], sc["hung_index"], nforks - sc["workers"])))
        # the loop kept ticking (a span in which the scenario paused the master is not the loop's doing)
        sel = [e[0] for e in k.log if e[1] == "select"]
        gaps = [b - a - sum(min(b, q) - max(a, p2) for p2, q in self.pauses if p2 < b and q > a) for a, b in zip(sel, sel[1:])]
        if gaps and max(gaps) > 1.5:
            v.append(("master-loop-stalled", "%.2f virtual seconds between two loop ticks" % max(gaps)))
        return v


def run_one(run, e3, sc, schedule):
    mon = Monitor(sc)
    orig = e3.SimKernel.__init__

    def init(self, scenario, sch):
        orig(self, scenario, sch)
        mon.install(self)

    e3.SimKernel.__init__ = init
    try:
        k = e3.run_history(sc, schedule, lines=False)
    finally:
        e3.SimKernel.__init__ = orig
    v = mon.finish(k)
    run.count("sim_histories")
    run.count("sim_kill_checks", mon.false_kill_checks)
    if mon.abrt_at:
        run.count("sim_aborts_observed", len(mon.abrt_at))
    if mon.kill_at:
        run.count("sim_kills_after_ignored_abort", len(mon.kill_at))
    if not mon.not_quiescent:
        run.count("sim_pool_restored_checks")
    if sc["timeout"] == 0:
        run.count("sim_timeout_disabled_histories")
    if mon.pauses:
        run.count("sim_master_pause_histories")
        if max(b - a for a, b in mon.pauses) > max(sc["timeout"], 5):
            run.count("sim_master_pauses_longer_than_timeout_and_5s")
    if mon.judged_after_pause:
        run.count("sim_hang_after_master_pause_judged", mon.judged_after_pause)
    if mon.bystanders_judged:
        run.count("sim_bystander_histories_judged")
        if sc["hung_index"] > 0:
            run.count("sim_bystander_hung_worker_not_the_oldest")
    if any(0.89 < (p.get("hb_gap", 0) / (sc["timeout"] or 2)) < 1 for p in sc["spawn_policy"].values()):
        run.count("sim_adversarial_healthy_patterns")
    return v, k


def shard(sh):
    tier = sh.get("tier", "quick")
    run = Run(PROP, tier, sh["seed"], "exploration", RULE)
    if sh["kind"] == "sim":
        from vlib import e3_simkernel as e3
        rng = rng_for(sh["seed"], "c11", sh["sub"])
        for i in range(sh["n"]):
            if run.enough():
                break
            sc = gen_scenario(rng)
            for j in range(sh["schedules"]):
                parts = [sh["seed"], "c11sched", sh["sub"], i, j]
                p = rng.choice([0.1, 0.5, 1.0])
                v, k = run_one(run, e3, sc, e3.RandomSchedule(rng_for(*parts), p))
                run.case((common.sha12(sc), j), nontrivial=sc["nhung"] > 0 or True)
                for mech, summary in v:
                    run.violation(mech, summary, {"scenario": sc, "schedule": {"parts": parts, "p": p}})
            if i < 1:
                run.sample({"scenario": {k2: v2 for k2, v2 in sc.items()},
                            "kills": [e for e in k.log if e[1] == "kill"][:6]})
        # two further families: the master itself is paused for longer than the timeout and runs again; exactly one worker
        # hangs among healthy ones
        for fam, gen in (("master-pause", gen_pause_scenario), ("bystanders", gen_bystander_scenario)):
            rng = rng_for(sh["seed"], "c11", fam, sh["sub"])
            for i in range(sh.get("n_family", 0)):
                if run.enough():
                    break
                sc = gen(rng)
                for j in range(2):
                    parts = [sh["seed"], "c11sched", fam, sh["sub"], i, j]
                    p = rng.choice([0.1, 0.5, 1.0])
                    v, k = run_one(run, e3, sc, e3.RandomSchedule(rng_for(*parts), p))
                    run.case((common.sha12(sc), j))
                    for mech, summary in v:
                        run.violation(mech, summary, {"scenario": sc, "schedule": {"parts": parts, "p": p}})
                if i < 1 and sh["sub"] == 0:
                    run.sample({"scenario": sc, "kills": [e for e in k.log if e[1] in ("kill", "master_paused", "fork")][:10]})
    elif sh["kind"] == "live":
        from checks import c11_live
        c11_live.shard(run, sh)
    return run


def main(tier, seed):
    run = Run(PROP, tier, seed, "exploration", RULE)
    run.require("sim_histories", "sim_kill_checks", "sim_aborts_observed", "sim_kills_after_ignored_abort",
                "sim_timeout_disabled_histories", "sim_adversarial_healthy_patterns", "sim_pool_restored_checks",
                "sim_master_pause_histories", "sim_master_pauses_longer_than_timeout_and_5s", "sim_hang_after_master_pause_judged",
                "sim_bystander_histories_judged", "sim_bystander_hung_worker_not_the_oldest")
    q = tier == "quick"
    shards = [{"kind": "sim", "n": 150 if q else 3000, "n_family": 40 if q else 600, "schedules": 4, "sub": i, "seed": seed, "tier": tier}
              for i in range(16 if q else 32)]
    live = []
    try:
        from checks import c11_live
        live = c11_live.plan(run, tier, seed)
    except ImportError:
        run.info["live_part"] = "not built"
    run.assumptions = [
        "simulated part: heartbeats are scripted on the virtual clock; 1 tick = the master's 1 s select; bounds: ABRT within timeout + 2 ticks "
        "of the last heartbeat, KILL within 2 ticks of an ignored ABRT",
        "a heartbeat gap strictly below the timeout is healthy whatever the scan phase",
        "master pause (simulated): only the master stops (SIGSTOP / frozen / busy in a handler), the workers go on beating; the "
        "virtual clock steps by the pause inside the master's select(); every bound on something the master has to do that is "
        "touched by a pause is two ticks after the master runs again",
        "no TTOU / HUP / stopping signal in a history => no worker is ever told to stop: the pool never has a surplus",
        "live part, inherited listener: the launcher process (which becomes the master) creates the listening socket in blocking mode "
        "and hands it over as descriptor 3 with LISTEN_FDS / LISTEN_PID, or as `--bind fd://7`; judged only when the master and every "
        "worker hold that very socket (inode) and a request is answered on it; idle = 4 x timeout, as in healthy-idle",
        "live part, slow clients: a client that is silent in the middle of its TLS handshake or request head does not make the worker "
        "that waits for it a hung worker where the worker class serves connections concurrently (gthread with the lazy handshake, "
        "gevent, eventlet); one worker, so that the worker the silent clients are connected to is the one that has to answer the "
        "short requests (6 s client timeout each, lag-guarded); sync and gthread + do_handshake_on_connect are judged only with "
        "clients whose pauses add up to 0.4 x timeout",
    ]
    common.run_sharded(run, shards, timeout=900 if q else 7200)
    if live:
        common.run_sharded(run, live, timeout=900 if q else 3600, nproc=8)
    return run.finish()


def replay(path):
    with open(path) as f:
        rec = json.load(f)
    c = rec["case"]
    run = Run(PROP, "quick", 0, "exploration", RULE)
    if "scenario" in c:
        from vlib import e3_simkernel as e3
        v, k = run_one(run, e3, c["scenario"], e3.RandomSchedule(rng_for(*c["schedule"]["parts"]), c["schedule"]["p"]))
        for e in k.log:
            if e[1] not in ("select", "worker_object"):
                print("  ", e)
    else:
        from checks import c11_live
        v = c11_live.replay_case(run, c)
    for mech, s in v:
        print("VIOLATION property=%s replay=%s\n  %s %s" % (PROP, path, mech, s))
    if not v:
        print("no violation on replay")
    return 1 if v else 0
