"""C19 Every handled request is logged once, truthfully, on a single line.

Monitor: records emitted on the real `gunicorn.access` logger (captured through the real
Logger.access() path, formatter '%(message)s') while real worker loops (E2) serve generated
requests; each request carries a unique id, so records map to requests; the client side is
parsed by ref_resp to know the status and body bytes actually received.
"""
import base64
import json
import re

from vlib import common, ref_resp
from vlib.common import Run, rng_for, hexs
from checks import c02

PROP = "C19"
RULE = ("case = (worker loop, access_log_format in {default, all-atoms, path/query/user}, 1-2 requests with a unique id "
        "and hostile data class in {none, %0A/%0D in path, quotes/backslashes, LF in basic-auth user, long, latin-1, "
        "malformed-rejected}, application program as in C02: body via list/generator/write()/file_wrapper(sendfile or not)"
        "/cut by Content-Length/failure); non-trivial = body bytes > 0 or hostile class != none; distinct = sha1(case)")

FORMATS = {
    "default": None,
    "atoms": ('ID=%({x-id}i)s S=%(s)s B=%(B)s b=%(b)s | h=%(h)s l=%(l)s u=%(u)s t=%(t)s r="%(r)s" m=%(m)s U=%(U)s q=%(q)s '
              'H=%(H)s f="%(f)s" a="%(a)s" T=%(T)s D=%(D)s M=%(M)s L=%(L)s p=%(p)s xo=%({x-app}o)s '
              'e=%({path_info}e)s ei=%({http_x_id}e)s'),
    "short": 'ID=%({x-id}i)s S=%(s)s B=%(B)s | %(U)s|%(q)s|%(u)s',
}
HOSTILE = ["none", "none", "pct-lf-path", "pct-cr-path", "quotes", "auth-lf", "long", "latin1", "pct-lf-query",
           "ua-ctl", "rejected", "auth-8bit", "auth-garbage"]


def make_case(rng):
    case = c02.make_case(rng)
    case["format"] = rng.choice(list(FORMATS))
    case["ids"] = ["%08x" % rng.getrandbits(32) for _ in case["reqs"]]
    case["hostile"] = [rng.choice(HOSTILE) for _ in case["reqs"]]
    # failures make "what the client received" ambiguous for B; keep them rarer here
    for p in case["progs"]:
        if p.get("fail") and rng.random() < 0.6:
            p.pop("fail")
    # a file body that is shorter than the announced Content-Length (the file shrank, or was partly read before): the record
    # must show what really went out.  The client asks for the connection to be closed, so it sees the end.
    last = case["progs"][-1]
    if last.get("mode") == "file" and last.get("chunks") and not last.get("fail") and rng.random() < 0.35:
        last["cl"] = "over"
        last["over_by"] = rng.randint(1, 600)
        case["reqs"][-1]["conn"] = ["close"]
    # a client that is gone before the response is written (it closed right after sending)
    case["client_gone"] = rng.random() < 0.08
    # the iterable's close() fails after the whole body went out: the request was handled all the same
    for p in case["progs"]:
        if p.get("mode") in ("gen", "write+iter") and p.get("has_close") and not p.get("fail") and not p.get("fail_exc_info") \
                and rng.random() < 0.08:
            # (any kind of exception: RuntimeError, or an OSError such as a spool file that is already gone)
            p["close_raises"] = rng.choice([True, "filenotfound", "oserror", "permission", "timeout"])
    # a response header the server refuses (the application does not catch the refusal)
    for p in case["progs"]:
        if not p.get("fail") and not p.get("fail_exc_info") and rng.random() < 0.05:
            p["headers"] = list(p.get("headers", [])) + [rng.choice([["X-Bad", "a\nb"], ["X Bad", "v"], ["X-Bad", "a\x00b"]])]
            p["exc_info_retry"] = False
    # a HEAD request answered by an application that produces a body all the same (last request, connection closed afterwards)
    if case["reqs"][-1]["method"] == "HEAD" and rng.random() < 0.5 and not case["progs"][-1].get("fail"):
        pl = case["progs"][-1]
        pl.update({"mode": rng.choice(["list", "gen", "write"]), "chunks": [(b"h" * 512).hex(), (b"b" * 512).hex()], "cl": rng.choice([None, "exact"]),
                   "lazy_start": False})
        pl.pop("file", None)
        pl.pop("cut_by", None)
        pl["headers"] = [h for h in pl.get("headers", []) if h[0].lower() != "content-length"]
        case["reqs"][-1]["conn"] = ["close"]
        case["head_with_body"] = True
    # access logging configured through a logging dictionary (no handler on 'gunicorn.access' itself, records propagate)
    case["log_via_root"] = False        # (logging configuration is process-wide: set per shard, see shard())
    # a chunked upload the application does not read, with a trailer section the parser refuses when it skips the body afterwards
    if case["reqs"][-1]["method"] == "POST-chunked" and rng.random() < 0.3:
        case["bad_trailer"] = rng.choice(["no colon here", "X-T : v", "X-T: a\x00b"])
        case["progs"][-1]["read_input"] = "none"
    return case


def rng_free_choice(rid, options):
    return options[int(rid, 16) % len(options)]


def render_request(case, i):
    r = case["reqs"][i]
    rid = case["ids"][i]
    hostile = case["hostile"][i]
    m = r["method"]
    path = "/id-%s" % rid
    extra = []
    ua = "ua-%s." % rid
    if hostile == "pct-lf-path":
        path += "/a%0Ainjected-line%20ID=deadbeef%20S=200%20B=0"
    elif hostile == "pct-cr-path":
        path += "/a%0Dcr"
    elif hostile == "quotes":
        path += "/q\"uote\\back"
        extra.append('Referer: "ref" \\ "')
    elif hostile == "auth-lf":
        cred = base64.b64encode(b"us\ner-injected ID=cafebabe S=200 B=1:pw").decode()
        extra.append("Authorization: Basic " + cred)
    elif hostile == "auth-8bit":
        extra.append("Authorization: Basic \xff\xfe\xe9" + rid[:2])           # bytes >= 0x80 where base64 text belongs
    elif hostile == "auth-garbage":
        extra.append("Authorization: Basic " + rng_free_choice(rid, ["!!!!", "Zm9v=", "=", "a", "Zm9vOmJhcg", "\t"]))
    elif hostile == "long":
        path += "/" + "L" * 3000
        ua += "A" * 4000
    elif hostile == "latin1":
        path += "/caf\xe9%E9"
        ua += "\xfc\xdf"
    elif hostile == "pct-lf-query":
        path += "?x=%0Ay"
    elif hostile == "ua-ctl":
        ua += "a\x0bb\x0cc\x1bd"
    if m == "OPTIONS*":
        first = "OPTIONS * HTTP/%s" % r["version"]
    elif m.startswith("POST"):
        first = "POST %s HTTP/%s" % (path, r["version"])
    else:
        first = "%s %s HTTP/%s" % (m, path, r["version"])
    lines = ["Host: h", "X-Id: " + rid, "User-Agent: " + ua] + extra
    body = r["body"].encode()
    framed = b""
    if hostile == "rejected":
        lines.append("Content-Length: nope")          # the server rejects this itself
    elif m == "POST-cl":
        lines.append("Content-Length: %d" % len(body))
        framed = body
    elif m == "POST-chunked":
        lines.append("Transfer-Encoding: chunked")
        framed = (b"%x\r\n" % len(body) + body + b"\r\n" if body else b"") + b"0\r\n\r\n"
        if case.get("bad_trailer") and i == len(case["reqs"]) - 1:
            framed = framed[:-2] + case["bad_trailer"].encode("latin-1") + b"\r\n\r\n"
    for c in r["conn"] or []:
        lines.append("Connection: " + c)
    return (first + "\r\n" + "".join(l + "\r\n" for l in lines) + "\r\n").encode("latin-1") + framed


def run_case(run, e2, harnesses, case, scratch):
    key = (case["kind"], case["cfg"], case["format"], bool(case.get("log_via_root")))
    h = harnesses.get(key)
    if h is None:
        cfgset = dict(c02.CFG_VARIANTS[case["cfg"]])
        if FORMATS[case["format"]]:
            cfgset["access_log_format"] = FORMATS[case["format"]]
        h = harnesses[key] = e2.Harness(case["kind"], cfgset, scratch=scratch, capture_root=bool(case.get("log_via_root")))
    if case.get("log_via_root"):
        run.count("logging_dictionary_cases")
    if any(p.get("close_raises") for p in case["progs"]):
        run.count("close_raises_cases")
    if case.get("bad_trailer"):
        run.count("unread_upload_with_refused_trailer_cases")
    script = b"".join(render_request(case, i) for i in range(len(case["reqs"])))
    router = c02.Router(e2, case["progs"], scratch)
    h.capture.take()
    out = h.connection(script, router, mode="close" if case.get("client_gone") else "halfclose")
    v = []
    if case.get("client_gone"):
        run.count("client_gone_before_response_cases")
    text, nrec = out["access_text"], out["access_records"]
    methods = [c02.wire_method(r) for r in case["reqs"]]
    res = c02.parse_lenient_head_errors(out["received"], methods, out["eof"])
    nlines = text.count("\n")
    if nlines != nrec:
        v.append(("record-spans-lines", "%d records were written as %d physical lines: %s" % (
            nrec, nlines, hexs(text.encode("latin-1", "replace")[:400]))))
    if "\r" in text:
        run.count("info_cr_in_record")
    records = text.split("\n") if nlines == nrec else None
    ncalls = router.n
    for i, rid in enumerate(case["ids"]):
        app = router.apps[i]
        completed = bool(app.calls) and not app.calls[0].get("failed_at") and i < ncalls and app.calls[0].get("returned")
        k = text.count("ua-%s." % rid) if case["format"] == "default" else text.count("ID=%s " % rid)
        # `r` atom and `e`/`U` atoms may also contain id-<rid>: count records (lines), not substrings
        if records is not None:
            k = sum(1 for ln in records if ("ID=%s " % rid in ln) or (case["format"] == "default" and "ua-%s." % rid in ln))
        if completed and case["progs"][i].get("close_raises") and case.get("client_gone"):
            run.count("info_failed_app_requests")      # cleanup failed and nobody was there to receive: two failures, not judged
            continue
        if completed:
            run.count("completed_requests")
            if k != 1:
                v.append(("record-count/%d" % min(k, 2), "request %s completed in the application but has %d access records"
                          % (rid, k)))
                continue
        else:
            if case["hostile"][i] == "rejected" and not app.calls:
                # rejected by the server itself: at most one record
                run.count("rejected_requests")
                if k > 1:
                    v.append(("record-count-rejected/%d" % k, "request %s rejected by the server has %d records" % (rid, k)))
            elif app.calls:
                run.count("info_failed_app_requests")      # application failed: the statement does not cover it
                if k > 1:
                    run.count("info_failed_app_logged_twice")
                elif k == 1 and records is not None and case["format"] != "default" and i < len(res.responses) and not case.get("client_gone"):
                    # ... but a record that IS written has to tell the truth: one record, one reply - the same status
                    ln1 = [x for x in records if "ID=%s " % rid in x][0]
                    m1 = re.match(r"^ID=%s S=(\S+) " % rid, ln1)
                    if m1:
                        run.count("failed_app_single_record_status_checks")
                        if m1.group(1) != str(res.responses[i].status):
                            v.append(("status-field-differs/failed-application", "the application failed; the one record says %s, the client "
                                      "received %s" % (m1.group(1), res.responses[i].status)))
            continue
        if case["format"] == "default" or records is None:
            continue
        ln = [x for x in records if "ID=%s " % rid in x][0]
        m = re.match(r"^ID=%s S=(\S+) B=(\S+)" % rid, ln)
        if not m:
            v.append(("record-unparsable", ln[:200]))
            continue
        # which response belongs to this request: the i-th final response
        if i < len(res.responses):
            rp = res.responses[i]
            if m.group(1) != str(rp.status):
                v.append(("status-field-differs", "record says %s, client received %s" % (m.group(1), rp.status)))
            spec_i = case["progs"][i]
            if case.get("head_with_body") and i == len(case["reqs"]) - 1 and not case.get("client_gone") and out["eof"]:
                # what followed the head of the last response on the wire is what was sent as its body
                raw = out["received"]
                hpos = raw.rfind(b"HTTP/1.")
                hend = raw.find(b"\r\n\r\n", hpos)
                if hpos >= 0 and hend >= 0 and i == len(res.responses) - 1:
                    sent_body = len(raw) - hend - 4
                    run.count("B_compared_head_request_with_body")
                    if m.group(2) != str(sent_body):
                        v.append(("bytes-field-differs/head-request", "HEAD request, the application produced a body: the record says B=%s, "
                                  "%d bytes followed the response head on the wire" % (m.group(2), sent_body)))
            elif spec_i.get("cl") == "over" and not case.get("client_gone") and out["eof"] and rp.framing == "cl":
                # the body ends short of its Content-Length; the client read to the end of the connection
                run.count("B_compared_short_file_body")
                if m.group(2) != str(len(rp.body)):
                    v.append(("bytes-field-differs/short-file-body", "record says B=%s, the client received %d body bytes before the "
                              "connection ended (Content-Length announced %s, file_wrapper over a %s)" % (
                                  m.group(2), len(rp.body), rp.get(b"content-length"), spec_i["file"]["kind"])))
            elif rp.complete and res.problem is None or (rp.complete and i < len(res.responses) - 1):
                run.count("B_compared")
                spec = case["progs"][i]
                got_b = m.group(2)
                want = len(rp.body)
                if got_b != str(want):
                    mode = spec.get("mode")
                    mech = "bytes-field-differs/" + ("sendfile" if mode == "file" and spec["file"]["kind"] == "real"
                                                     and c02.CFG_VARIANTS[case["cfg"]].get("sendfile") is not False
                                                     else str(mode))
                    v.append((mech, "record says B=%s, client received %d body bytes (mode=%s cl=%s framing=%s)" % (
                        got_b, want, mode, spec.get("cl"), rp.framing)))
                elif want > 0:
                    run.count("B_nonzero_matches")
    return v, out


def live_syslog_scenario(run, wc):
    """Real server with an access log file and --log-syslog (the harness plays the syslog daemon on a UDP socket): one record
    per request in each sink, also for requests served by workers forked after one and two reloads."""
    import os
    import signal
    import socket
    import time
    from vlib import e4_live as e4
    v = []
    us = socket.socket(socket.AF_INET, socket.SOCK_DGRAM)
    us.bind(("127.0.0.1", 0))
    us.settimeout(0.2)
    port = us.getsockname()[1]
    srv = e4.Server("c19", worker_class=wc, workers=1, settings={"syslog": True, "syslog_addr": "udp://127.0.0.1:%d" % port,
                                                                  "graceful_timeout": 3})
    alog = os.path.join(srv.dir, "access.log")
    srv.write_conf(accesslog=alog)
    try:
        srv.start()
        if not srv.wait_workers(1, 25) or not srv.wait_listening(5):
            return v, "server did not boot: %s" % srv.stderr()[-200:]
        ids = []
        for gen in range(3):
            for k in range(2):
                rid = "live%d%d%08x" % (gen, k, int(time.monotonic() * 1000) & 0xffffffff)
                r = e4.request(srv.addr, "/pid?id=" + rid, timeout=5)
                if r["outcome"] != "ok":
                    return v, "request failed: %s" % r["outcome"]
                ids.append((gen, rid))
            if gen < 2:
                old = set(srv.worker_pids())
                srv.signal(signal.SIGHUP)
                t0 = time.monotonic()
                while time.monotonic() - t0 < 10:
                    ws = srv.worker_pids()
                    inited = set(e["wpid"] for e in srv.events() if e["kind"] == "post_worker_init")
                    if len(ws) == 1 and not (set(ws) & old) and ws[0] in inited:
                        break
                    time.sleep(0.05)
        time.sleep(0.4)
        grams = []
        while True:
            try:
                grams.append(us.recv(65536).decode("latin-1", "replace"))
            except socket.timeout:
                break
        try:
            with open(alog, errors="replace") as f:
                lines = f.read().splitlines()
        except OSError:
            lines = []
        for gen, rid in ids:
            nfile = sum(1 for ln in lines if rid in ln)
            nsys = sum(1 for g in grams if rid in g and ".access" in g)
            run.count("live_record_count_checks")
            if nfile != 1:
                v.append(("record-count-file/%d" % min(nfile, 2), "request %s (after %d reloads): %d lines in the access log file" % (rid, gen, nfile)))
            if nsys != 1:
                v.append(("record-count-syslog/%d" % min(nsys, 2), "request %s (after %d reloads, %s): %d access records on the syslog socket" % (
                    rid, gen, wc, nsys)))
        return v, None
    finally:
        srv.cleanup()
        us.close()


def shard(sh):
    if sh.get("kind") == "live":
        run = Run(PROP, sh.get("tier", "quick"), sh["seed"], "exploration", RULE)
        reason = None
        for attempt in range(3):
            v, reason = live_syslog_scenario(run, sh["class"])
            if reason is None or v:
                break
        run.case(("live-syslog", sh["class"]))
        for mech, summary in v:
            run.violation(mech, summary, {"live": sh["class"]})
        if reason is not None and not v:
            run.inconclusive_because("live syslog scenario: " + reason)
        run.sample({"live": "access log file + syslog sink across two reloads", "class": sh["class"]}, cap=1)
        return run
    from vlib import e2_worker as e2
    import shutil
    run = Run(PROP, sh.get("tier", "quick"), sh["seed"], "exploration", RULE)
    rng = rng_for(sh["seed"], "c19", sh["sub"])
    scratch = common.scratch_dir("c19")
    hs = {}
    try:
        for k in range(sh["n"]):
            if run.enough():
                break
            case = make_case(rng)
            case["log_via_root"] = sh.get("sub", 0) % 8 == 3
            nt = any(x != "none" for x in case["hostile"]) or any(p.get("chunks") for p in case["progs"])
            run.case(common.sha12(case), nontrivial=nt)
            for x in case["hostile"]:
                run.count("hostile/" + x)
            v, out = run_case(run, e2, hs, case, scratch)
            for mech, summary in v:
                run.violation(mech, summary + " | loop=%s format=%s hostile=%s" % (
                    case["kind"], case["format"], case["hostile"]), case)
            if k < 1:
                run.sample({"loop": case["kind"], "format": case["format"], "hostile": case["hostile"],
                            "records": out["access_text"][:400]})
    finally:
        for h in hs.values():
            h.close()
        shutil.rmtree(scratch, ignore_errors=True)
    return run


def main(tier, seed):
    run = Run(PROP, tier, seed, "exploration", RULE)
    run.require("completed_requests", "rejected_requests", "B_compared", "B_nonzero_matches",
                "hostile/pct-lf-path", "hostile/auth-lf", "hostile/rejected", "hostile/auth-8bit", "B_compared_short_file_body",
                "client_gone_before_response_cases", "logging_dictionary_cases", "close_raises_cases",
                "unread_upload_with_refused_trailer_cases", "failed_app_single_record_status_checks",
                "B_compared_head_request_with_body")
    q = tier == "quick"
    shards = [{"n": 1200 if q else 15000, "sub": i, "seed": seed, "tier": tier} for i in range(32 if q else 64)]
    classes = ["sync", "gthread", "gevent", "eventlet"]
    shards += [{"kind": "live", "class": c, "seed": seed, "tier": tier} for c in (classes if not q else [classes[seed % 4], classes[(seed + 1) % 4]])]
    run.require("live_record_count_checks")
    run.assumptions = [
        "records = emit() calls on the 'gunicorn.access' logger, produced by the real Logger.access(); one record must be one '\\n'-terminated line",
        "B is compared with the de-chunked body bytes the client end received, only for responses received completely",
        "a '\\r' inside a record is counted as informational, not judged",
    ]
    common.run_sharded(run, shards, timeout=900 if q else 7200)
    return run.finish()


def replay(path):
    from vlib import e2_worker as e2
    import shutil
    with open(path) as f:
        rec = json.load(f)
    run = Run(PROP, "quick", 0, "exploration", RULE)
    if "live" in rec["case"]:
        v, reason = live_syslog_scenario(run, rec["case"]["live"])
        for mech, s in v:
            print("VIOLATION property=%s replay=%s\n  %s %s" % (PROP, path, mech, s))
        return 1 if v else 0
    scratch = common.scratch_dir("c19")
    hs = {}
    try:
        v, out = run_case(run, e2, hs, rec["case"], scratch)
    finally:
        for h in hs.values():
            h.close()
        shutil.rmtree(scratch, ignore_errors=True)
    print("records:", repr(out["access_text"][:800]))
    for mech, s in v:
        print("VIOLATION property=%s replay=%s\n  %s %s" % (PROP, path, mech, s))
    if not v:
        print("no violation on replay")
    return 1 if v else 0
