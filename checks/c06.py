"""C06 Parsing does not depend on how bytes are split across reads.

Metamorphic monitor over the real RequestParser (E1): the observation (request list with every
field, body, trailers; terminal class and index) for every segmentation must equal the
observation for the unsegmented stream (8192-byte pieces).  No reference parser involved.
"""
import itertools
import json

from vlib import common, gen
from vlib.common import Run, rng_for, hexs

PROP = "C06"
RULE = ("streams = grammar-generated pipelines (valid and hostile), the repository's fixtures, "
        "limit-shaped heads (at/under/over each limit, followed by bodies) under default and small-limit "
        "configurations (incl. limit_request_fields=0), request / field / PROXY lines of exactly limit-1..limit+2 bytes, PROXY-protocol "
        "connections under small line limits, chunk-heavy bodies; live gevent / eventlet servers answering pipelined requests sent "
        "in one piece and in several; segmentations per stream = byte-by-byte, every single cut "
        "position, all pairs of cuts for short streams (thorough), multi-cuts at +-3 around CR/LF/:/;/chunk "
        "boundaries, random k-cuts; distinct = (stream sha1, cut vector); non-trivial = at least one cut")

SMALL_CFGS = [
    {"limit_request_line": 40, "limit_request_fields": 2, "limit_request_field_size": 24},
    {"limit_request_fields": 1, "limit_request_field_size": 20},
    {"limit_request_line": 0, "limit_request_fields": 3, "limit_request_field_size": 0},
    {"limit_request_line": 64, "limit_request_fields": 100, "limit_request_field_size": 30},
    {"limit_request_fields": 4, "limit_request_field_size": 64, "header_map": "refuse"},
    # the parser's switches: the result may differ from the default configuration's, but never with the segmentation
    {"limit_request_fields": 3, "limit_request_field_size": 60, "permit_obsolete_folding": True},
    {"limit_request_fields": 6, "permit_obsolete_folding": True, "strip_header_spaces": True},
    {"limit_request_fields": 5, "limit_request_field_size": 40, "permit_unconventional_http_method": True,
     "permit_unconventional_http_version": True, "casefold_http_method": True},
    {"limit_request_fields": 4, "header_map": "dangerous", "strip_header_spaces": True},
    # limit_request_fields=0: whatever it means, it means the same for every segmentation
    {"limit_request_fields": 0},
    {"limit_request_fields": 0, "limit_request_field_size": 30, "limit_request_line": 64},
]
TRUSTED_PEER = ("127.0.0.1", 5000)       # in the default proxy_allow_ips


def fields_limit(cfgset):
    """The field count the generators shape heads around (0 is taken as 'the maximum', as the code does)."""
    return cfgset.get("limit_request_fields", 100) or 32768


def cap_shaped(rng, cfgset):
    """With limit_request_field_size = 0 only the buffer cap derived from the field count bounds the head: a header block
    within a few bytes of that cap, a body and a pipelined request behind it."""
    nf = cfgset.get("limit_request_fields", 100)
    cap = nf * (8190 + 2) + 4
    total = cap + rng.choice([-40, -9, -5, -4, -3, -1, 0, 1, 3, 4, 5, 9, 40, 60, 200])
    n = rng.randint(1, nf)
    first = b"POST /cap HTTP/1.1\r\n"
    fixed = b"Content-Length: 5\r\n"
    room = total - len(fixed) - 2          # the block counted from behind the request line, incl. the empty line
    per = max(8, room // n)
    hdrs = []
    used = 0
    for i in range(n):
        ln = per if i < n - 1 else max(8, room - used)
        name = b"X-%d: " % i
        hdrs.append(name + b"v" * max(0, ln - len(name) - 2) + b"\r\n")
        used += len(hdrs[-1])
    s = first + b"".join(hdrs) + fixed + b"\r\n" + b"hello" + gen.marker(1, b"end")
    return s


BINARY_PREFIXES = [b"\x16\x03\x01\x02\x00\x01\x00\x01\xfc\x03\x03", b"\x16\x03\x03", b"\x80\x80\x01\x03\x01", b"PRI * HTTP/2.0\r\n\r\nSM\r\n\r\n",
                   b"\x00\x00\x12\x04\x00\x00\x00\x00\x00", b"SSH-2.0-OpenSSH_9.0\r\n", b"\x05\x01\x00", b"\x04\x01\x00P", b"*1\r\n$4\r\nPING\r\n",
                   b"PROXY TCP4 1.2.3.4 5.6.7.8 1 2\r\n", b"\r\n\r\n", b"\xef\xbb\xbfGET / HTTP/1.1\r\n"]


def binary_stream(rng):
    """What is not HTTP at all: other protocols' opening bytes, with or without line ends, shorter and longer than the limits."""
    s = rng.choice(BINARY_PREFIXES)
    n = rng.choice([0, 3, 200, 517, 4090, 4096, 6000, 9000])
    tail = bytes(rng.choice([rng.randrange(256), 0x41, 0x0, 0xff]) for _ in range(n))
    if rng.random() < 0.5:
        tail = tail.replace(b"\n", b"x").replace(b"\r", b"y")
    s += tail
    if rng.random() < 0.3:
        s += b"\r\n\r\n" + gen.marker(1, b"end")
    return s


def limit_shaped(rng, cfgset):
    """A request whose head sits near the configured limits, followed by a body and a
    pipelined marker request."""
    ll = cfgset.get("limit_request_line", 4094) or 200
    nf = fields_limit(cfgset)
    fs = cfgset.get("limit_request_field_size", 8190) or 100
    ll = min(ll, 300)
    fs = min(fs, 300)
    line_len = max(14, ll + rng.choice([-3, -2, -1, 0, 1, 2, 3, -10]))
    target = b"/" + b"p" * max(0, line_len - len(b"POST / HTTP/1.1"))
    n = max(0, min(8, nf + rng.choice([-1, 0, 0, 1])))
    body = rng.choice([b"", b"hello", b"b" * 40, b"x" * 300])
    hdrs = []
    framing = rng.choice(["cl", "chunked", "none"])
    if framing == "cl":
        hdrs.append(b"Content-Length: %d" % len(body))
    elif framing == "chunked":
        hdrs.append(b"Transfer-Encoding: chunked")
    while len(hdrs) < n:
        flen = max(4, fs + rng.choice([-4, -3, -2, -1, 0, 1, -12]))
        name = b"X-%d" % len(hdrs)
        hdrs.append(name + b": " + b"v" * max(0, flen - len(name) - 2))
    rng.shuffle(hdrs)
    if cfgset.get("permit_obsolete_folding") or rng.random() < 0.05:
        # obsolete line folding: one field on several lines (more lines than fields are allowed)
        folded = []
        for h in hdrs:
            if b": v" in h and rng.random() < 0.7:
                name, val = h.split(b": ", 1)
                parts = [val[i:i + max(1, len(val) // rng.randint(2, 4))] for i in range(0, len(val), max(1, len(val) // rng.randint(2, 4)))]
                h = name + b": " + rng.choice([b"\r\n ", b"\r\n\t", b"\r\n  "]).join(parts[:5])
            folded.append(h)
        hdrs = folded
    s = b"POST " + target + b" HTTP/1.1\r\n" + b"".join(h + b"\r\n" for h in hdrs) + b"\r\n"
    if framing == "cl":
        s += body
    elif framing == "chunked":
        cap = fields_limit(cfgset) * ((cfgset.get("limit_request_field_size", 8190) or 8190) + 2) + 4
        if cap < 2000 and rng.random() < 0.6:
            # chunk-size line / trailer section sized around the buffer cap derived from the limits
            ext = b";" + b"e" * max(0, cap + rng.choice([-4, -3, -2, -1, 0, 1, 2, 3]) - 2)
            tlen = max(6, cap + rng.choice([-6, -5, -4, -3, -2, -1, 0, 1, 2]))
            trailer = b"X-T: " + b"t" * (tlen - 5) if rng.random() < 0.7 else b""
            kind = rng.randint(0, 2)
            s += (b"%x" % max(1, len(body))) + (ext if kind != 1 else b"") + b"\r\n" + (body or b"z") + b"\r\n"
            s += b"0" + (ext if kind == 2 else b"") + b"\r\n" + (trailer + b"\r\n" if trailer and kind != 0 else b"") + b"\r\n"
        else:
            s += gen.chunk_encode(rng, body) + gen.last_chunk(rng)
    s += gen.marker(1, b"end")
    if rng.random() < 0.15:
        s = s[:rng.randrange(1, len(s))]          # truncated stream
    return s


PROXY_LINES = [b"PROXY TCP4 1.2.3.4 5.6.7.8 11 22", b"PROXY TCP4 192.168.0.1 192.168.0.11 56324 443",
               b"PROXY TCP6 ffff:ffff:ffff:ffff:ffff:ffff:ffff:ffff ffff:ffff:ffff:ffff:ffff:ffff:ffff:fff0 65535 65534",
               b"PROXY TCP6 ::1 ::2 1 2", b"PROXY UNKNOWN", b"PROXY TCP4 1.2.3.4 5.6.7.8 11", b"PROXY TCP4 999.2.3.4 5.6.7.8 11 22",
               b"PROXY TCP5 1.2.3.4 5.6.7.8 11 22", b"proxy tcp4 1.2.3.4 5.6.7.8 11 22", b"PROXYTCP4 1.2.3.4 5.6.7.8 11 22",
               b"PROXY  TCP4 1.2.3.4 5.6.7.8 11 22", b"PROXY TCP4 1.2.3.4 5.6.7.8 11 22 " + b"x" * 90,
               b"PROXY TCP4 1.2.3.4 5.6.7.8 11 22 " + b"x" * 200, b"PROXY", b"PROX"]


def proxy_shaped(rng):
    """A connection that opens with a PROXY protocol v1 line (valid, malformed, longer than the request-line limit), the setting on or
    off, the peer allowed or not.  Returns (stream, cfgset, peer)."""
    cfgset = {"proxy_protocol": rng.random() < 0.9}
    ll = rng.choice([None, None, 20, 40, 40, 50, 107, 0])
    if ll is not None:
        cfgset["limit_request_line"] = ll
    if rng.random() < 0.2:
        cfgset.update({"limit_request_fields": 3, "limit_request_field_size": 40})
    line = rng.choice(PROXY_LINES[:4]) if rng.random() < 0.6 else rng.choice(PROXY_LINES)
    s = line + rng.choice([b"\r\n"] * 8 + [b"\n", b"\r"])
    s += b"POST /a?b=c HTTP/1.1\r\nHost: example\r\nContent-Length: 5\r\n\r\nhello"
    if rng.random() < 0.15:
        s += rng.choice(PROXY_LINES[:3]) + b"\r\n"         # a second PROXY line is no PROXY line: it is where a request line should be
    s += gen.marker(1, b"end")
    if rng.random() < 0.1:
        s = s[:rng.randrange(1, len(s))]
    peer = TRUSTED_PEER if rng.random() < 0.9 else None
    return s, cfgset, peer


def at_limit_shaped(rng):
    """One element of exactly limit-1 .. limit+2 bytes (request line, field line, PROXY line + request line) in an otherwise small,
    well-formed request with a body and a follower: whether the limit counts the CRLF or not, it counts the same for every cut.
    Returns (stream, cfgset, peer)."""
    d = rng.choice([-1, 0, 0, 1, 2])
    what = rng.choice(["line", "line", "field", "proxy+line"])
    peer = None
    if what == "field":
        fs = rng.choice([10, 24, 30, 64])
        cfgset = {"limit_request_field_size": fs}
        if rng.random() < 0.5:
            cfgset["limit_request_fields"] = rng.choice([0, 2, 3])
        name = b"X-L: "
        head = b"POST /f HTTP/1.1\r\n" + name + b"v" * max(0, fs + d - len(name)) + b"\r\nContent-Length: 5\r\n\r\n"
    else:
        ll = rng.choice([20, 40, 64, 100])
        cfgset = {"limit_request_line": ll}
        if rng.random() < 0.3:
            cfgset["limit_request_fields"] = rng.choice([0, 3])
        target = b"/" + b"p" * (ll + d - len(b"POST / HTTP/1.1"))
        head = b"POST " + target + b" HTTP/1.1\r\nHost: h\r\nContent-Length: 5\r\n\r\n"
        if what == "proxy+line":
            cfgset["proxy_protocol"] = True
            peer = TRUSTED_PEER
            pl = b"PROXY TCP4 1.2.3.4 5.6.7.8 11 22"
            if rng.random() < 0.5:
                pl = b"PROXY TCP4 1.2.3.4 5.6.7.8 " + b"1" * max(1, ll + rng.choice([-1, 0, 1, 2]) - 34) + b" 22"
            head = pl + b"\r\n" + head
    return head + b"hello" + gen.marker(1, b"end"), cfgset, peer


def special_positions(stream):
    pos = set()
    for i, c in enumerate(stream):
        if c in b"\r\n:;":
            for d in range(-3, 4):
                if 0 < i + d < len(stream):
                    pos.add(i + d)
    for k in range(8192, len(stream), 8192):
        for d in range(-3, 4):
            if 0 < k + d < len(stream):
                pos.add(k + d)
    return sorted(pos)


def cut_vectors(rng, stream, tier):
    n = len(stream)
    if n < 2:
        return
    yield list(range(1, n)) if n <= 20000 else list(range(1, n, 7))
    singles = range(1, n)
    cap = 700 if tier == "quick" else 4096
    if n - 1 > cap:
        singles = sorted(rng.sample(range(1, n), cap))
    for c in singles:
        yield [c]
    sp = special_positions(stream)
    for _ in range(30 if tier == "quick" else 120):
        if len(sp) >= 2:
            k = rng.randint(2, min(5, len(sp)))
            yield sorted(rng.sample(sp, k))
    for _ in range(20 if tier == "quick" else 60):
        if n < 4:
            break
        k = rng.randint(2, min(8, n - 1))
        yield sorted(rng.sample(range(1, n), k))
    if tier == "thorough" and n <= 160:
        for a, b in itertools.combinations(range(1, n), 2):
            yield [a, b]


def reader_of(k):
    """The application's use of the body: everything (None) or only the first k bytes (the parser discards the rest)."""
    if k is None:
        return None
    return lambda b: b.read(k) if k else b""


def check_stream(run, e1, stream, cfgset, tier, rng, origin, vectors=None, readk=None, peer=None):
    cfg = e1.make_cfg(**cfgset)
    kw = {} if readk is None else {"consumer": reader_of(readk)}
    if peer is not None:
        kw["peer"] = tuple(peer)         # (an allowed PROXY-protocol sender; the default peer is not on the allow list)
    if readk is not None:
        run.count("streams_with_body_left_unread")
    base = e1.observe(cfg, gen.cut(stream, []), **kw)
    bsig = e1.obs_signature(base)
    sh = common.sha12(stream)
    nbad = 0
    if base["reqs"]:
        run.count("streams_with_accepted_request")
    if base["terminal"][0] in ("reject", "body_error"):
        run.count("streams_rejected")
    if base["terminal"][0] == "premature":
        run.count("streams_premature_end")
    if any(r.get("trailers") for r in base["reqs"]):
        run.count("streams_with_trailers")
    if len(base["reqs"]) > 1:
        run.count("streams_pipelined")
    for cuts in (vectors if vectors is not None else cut_vectors(rng, stream, tier)):
        pieces = gen.cut(stream, cuts)
        obs = e1.observe(cfg, pieces, **kw)
        run.case((sh, tuple(cuts), readk) if len(cuts) < 12 else (sh, common.sha12(list(cuts)), readk))
        run.count("segmentations")
        if obs["terminal"][0] == "reject" and base["terminal"][0] == "reject" and obs["terminal"][1] != base["terminal"][1]:
            # same point, different reason given: which of two applicable checks fires first can depend on how much of an
            # over-limit head is buffered ("max buffer headers" looks at whatever has arrived) - counted
            pair = tuple(sorted([obs["terminal"][1], base["terminal"][1]]))
            if "LimitRequestHeaders" in pair:
                run.count("info_reject_class_differs/%s-vs-%s" % pair)
            else:
                # two different answers (e.g. 400 for a malformed line, 431 / 414 for an over-long one) to the same bytes
                nbad += 1
                if nbad <= 2:
                    run.violation("reject-reason-depends-on-segmentation/%s-vs-%s" % pair,
                                  "the same bytes are refused as %s when delivered whole and as %s with cuts %s | cfg=%s stream=%s" % (
                                      base["terminal"][1], obs["terminal"][1], cuts[:8], cfgset, hexs(stream[:120])),
                                  {"stream": stream.hex() if len(stream) < 30000 else stream[:30000].hex(), "cfg": cfgset, "cuts": list(cuts),
                                   "origin": origin, "readk": readk, "peer": peer})
        if e1.obs_signature(obs) != bsig:
            nbad += 1
            if nbad <= 2:
                mech = classify(base, obs)
                run.violation(mech, "segmentation changes the result: whole=%s cut%s=%s | cfg=%s stream=%s" % (
                    brief(base), cuts[:8], brief(obs), cfgset, hexs(stream[:200])),
                    {"stream": stream.hex(), "cfg": cfgset, "cuts": list(cuts), "origin": origin, "readk": readk, "peer": peer})
    return nbad


def brief(obs):
    return "%d reqs, terminal=%s, bodies=%s" % (
        len(obs["reqs"]), obs["terminal"], [len(r.get("body") or b"") for r in obs["reqs"]][:4])


def classify(base, obs):
    bt, ot = base["terminal"], obs["terminal"]
    if {bt[0], ot[0]} & {"reject"} and bt[0] != ot[0]:
        cls = (ot[1] if ot[0] == "reject" else bt[1])
        return "reject-depends-on-segmentation/" + cls
    if len(base["reqs"]) != len(obs["reqs"]):
        return "request-count-depends-on-segmentation"
    for a, b in zip(base["reqs"], obs["reqs"]):
        if a.get("body") != b.get("body"):
            return "body-depends-on-segmentation"
        if a.get("trailers") != b.get("trailers"):
            return "trailers-depend-on-segmentation"
        if a["headers"] != b["headers"]:
            return "headers-depend-on-segmentation"
    return "terminal-depends-on-segmentation/%s-vs-%s" % (bt[0], ot[0])


def worker_shard(run, sh):
    """The same comparison through real worker loops (engine E2): what the application is handed on a keep-alive connection must
    not depend on how the bytes were spread over segments that arrive one after the other."""
    from vlib import e2_worker as e2
    from checks.c01 import _RecApp
    rng = rng_for(sh["seed"], "c06-workers", sh["sub"])
    kinds = ["gthread", "async"]
    cfgs = {"gthread": {"keepalive": 2, "threads": 2}, "async": {"keepalive": 2}}
    harn = {k: e2.Harness(k, cfgs[k]) for k in kinds}

    def calls_of(kind, stream, segs, delay):
        app = _RecApp()
        out = harn[kind].connection(stream, app, mode="halfclose", segments=segs, segment_delay=delay, timeout=6.0)
        if out["hung"]:
            harn[kind].close()
            harn[kind] = e2.Harness(kind, cfgs[kind])
            return None
        return [(c["method"], c["uri"], c.get("body"), c.get("body_error")) for c in app.calls]

    # heads far larger than one read, under limits that allow a large head (no per-field limit, few fields) and under the defaults:
    # what arrives in one piece (everything already in the socket buffer when the worker reads) and in several must be treated alike
    big_cfgs = [{"limit_request_field_size": 0, "limit_request_fields": 4}, {"limit_request_field_size": 0, "limit_request_fields": 7},
                {"limit_request_field_size": 0, "limit_request_fields": 2, "limit_request_line": 0}, {}]

    def big_heads():
        for i in range(sh.get("n_big", 6)):
            kind = kinds[i % 2]
            bc = big_cfgs[(i // 2 + sh["sub"]) % len(big_cfgs)]
            hk = kind + "/big%d" % big_cfgs.index(bc)
            if hk not in harn:
                cfgs[hk] = dict(cfgs[kind], **bc)
                harn[hk] = e2.Harness(kind, cfgs[hk])
            L = rng.choice([8100, 8300, 16500, 24000, 32700, 32800, 40000, 57400, 60000])
            first = b"GET /big HTTP/1.1\r\nHost: h\r\nX-Big: " + b"v" * L + b"\r\n\r\n"
            stream = first + b"GET /after-big HTTP/1.1\r\nHost: h\r\n\r\n"
            base = calls_of(hk, stream, None, 0.0)
            if base is None:
                continue
            for cuts in ([len(first) // 2], [4000, 20000][:1 + (L > 21000)], sorted(rng.sample(range(1, len(stream)), 3))):
                segs = [b - a for a, b in zip([0] + cuts, cuts + [len(stream)])]
                got = calls_of(hk, stream, segs, 0.02)
                run.case(("bighead", L, tuple(cuts), hk))
                run.count("worker_segmentations_of_heads_larger_than_one_read")
                if got is not None and got != base:
                    run.violation("worker/segmentation-changes-what-the-application-gets",
                                  "%s worker, %s, a %d-byte header field: one piece -> %s; segments %s -> %s" % (
                                      kind, bc, L, [(m, u[:30], b and len(b), e) for m, u, b, e in base], segs,
                                      [(m, u[:30], b and len(b), e) for m, u, b, e in got]),
                                  {"stream": stream.hex() if len(stream) < 20000 else None, "big": L, "cfg": bc, "cuts": cuts,
                                   "origin": "workers", "worker": kind})
                    break

    try:
        big_heads()
        for k in range(sh["n"]):
            if run.enough():
                break
            kind = kinds[k % 2]
            stream = gen.gen_stream(rng, hostile=rng.choice([0.0, 0.0, 0.2]), sentinel=False)
            if len(stream) > 12000 or len(stream) < 4:
                continue
            base = calls_of(kind, stream, None, 0.0)
            if base is None:
                continue
            for rep in range(2):
                cuts = sorted(set(rng.randint(1, len(stream) - 1) for _ in range(rng.randint(1, 4))))
                segs = [b - a for a, b in zip([0] + cuts, cuts + [len(stream)])]
                got = calls_of(kind, stream, segs, rng.choice([0.004, 0.01, 0.02]))
                run.case((common.sha12(stream), tuple(cuts), kind), nontrivial=len(base) > 0)
                run.count("worker_segmentations")
                if len(base) > 1:
                    run.count("worker_segmentations_keepalive")
                if got is None:
                    continue
                if got != base:
                    run.violation("worker/segmentation-changes-what-the-application-gets",
                                  "%s worker: one segment -> %s; segments %s -> %s | stream=%s" % (
                                      kind, [(m, u[:30], b and len(b), e) for m, u, b, e in base], segs,
                                      [(m, u[:30], b and len(b), e) for m, u, b, e in got], hexs(stream[:200])),
                                  {"stream": stream.hex(), "cfg": {}, "cuts": cuts, "origin": "workers", "worker": kind})
                    break
    finally:
        for h in harn.values():
            h.close()
    return run


LIVE_APP = r"""
import hashlib

def app(environ, start_response):
    body = environ["wsgi.input"].read()
    out = ("%s %s %d %s" % (environ["REQUEST_METHOD"], environ["RAW_URI"], len(body), hashlib.sha1(body).hexdigest()[:12])).encode()
    start_response("200 OK", [("Content-Type", "text/plain"), ("Content-Length", str(len(out)))])
    return [out]
"""
LIVE_KEEPALIVE = 2


def live_stream(rng):
    """2-4 well-formed pipelined requests (no body / Content-Length / chunked), the last one asking for the connection to be closed.
    Returns (stream, offsets at which the requests start)."""
    n = rng.choice([2, 2, 3, 4])
    parts = []
    for i in range(n):
        last = b"Connection: close\r\n" if i == n - 1 else b""
        kind = rng.choice(["get", "get", "cl", "chunked"])
        if kind == "get":
            parts.append(b"GET /r%d?live HTTP/1.1\r\nHost: h\r\n%s\r\n" % (i, last))
        else:
            body = bytes(rng.choice(b"abcdefgh\n") for _ in range(rng.choice([1, 5, 40, 300, 2000])))
            if kind == "cl":
                parts.append(b"POST /r%d HTTP/1.1\r\nHost: h\r\n%sContent-Length: %d\r\n\r\n" % (i, last, len(body)) + body)
            else:
                parts.append(b"POST /r%d HTTP/1.1\r\nHost: h\r\n%sTransfer-Encoding: chunked\r\n\r\n" % (i, last) +
                             gen.chunk_encode(rng, body, rng.choice(["one", "many"])) + b"0\r\n\r\n")
    starts, pos = [], 0
    for part in parts:
        starts.append(pos)
        pos += len(part)
    return b"".join(parts), starts


def split_responses(buf):
    """[(status line, body)] of the Content-Length framed responses in buf (+ a last entry 'partial' if bytes are left over)."""
    out, pos = [], 0
    while pos < len(buf):
        e = buf.find(b"\r\n\r\n", pos)
        if e < 0:
            out.append(("partial", buf[pos:pos + 60]))
            break
        lines = buf[pos:e].split(b"\r\n")
        n = 0
        for ln in lines[1:]:
            if ln.lower().startswith(b"content-length:"):
                n = int(ln.split(b":", 1)[1])
        out.append((lines[0].decode("latin-1"), buf[e + 4:e + 4 + n].decode("latin-1")))
        pos = e + 4 + n
    return out


def live_exchange(e4, addr, stream, cuts, delay, wait):
    """Send the stream in the given pieces over one connection that the client keeps open; returns (responses, seconds, how it ended)."""
    import socket
    import time
    t0 = time.time()
    s = e4.connect(addr, 5)
    buf, how, slow = b"", "eof", False
    try:
        prev = 0
        for c in list(cuts) + [len(stream)]:
            s.sendall(stream[prev:c])
            prev = c
            if c < len(stream):
                time.sleep(delay)
        slow = time.time() - t0 > LIVE_KEEPALIVE * 0.4
        s.settimeout(wait)
        while True:
            d = s.recv(65536)
            if not d:
                break
            buf += d
    except socket.timeout:
        how = "timeout"
    except OSError as e:
        how = "error:%s" % type(e).__name__
    finally:
        s.close()
    if slow:
        how = "slow-client"     # (a loaded machine held the client up for a time comparable to the keep-alive time: not a fair run)
    return split_responses(buf), time.time() - t0, how


def live_shard(run, sh):
    """The same comparison against real gevent / eventlet servers (their keep-alive loop lives in workers/base_async.py and runs under
    the worker's own timer and patched sockets, which the in-process harness cannot reproduce): what is answered must not depend on
    whether the pipelined requests arrive in one piece or in several."""
    from vlib import e4_live as e4
    wc = sh["class"]
    rng = rng_for(sh["seed"], "c06-live", wc)
    srv = e4.Server("c06", worker_class=wc, workers=1, settings={"keepalive": LIVE_KEEPALIVE, "graceful_timeout": 2, "timeout": 30},
                    app_source=LIVE_APP, env={"VERIF_REPO": common.REPO})
    try:
        srv.start()
        if not srv.wait_workers(1, 25) or not srv.wait_listening(5):
            run.inconclusive_because("live server (%s) did not boot: %s" % (wc, srv.stderr()[-200:]))
            return run
        nviol = 0
        for k in range(sh["n"]):
            if nviol >= 3:
                break
            stream, starts = live_stream(rng)
            n = len(stream)
            vectors = [[starts[1]], starts[1:], [rng.randint(1, starts[1] - 1)], [rng.randint(starts[1] + 1, n - 1)],
                       sorted(set(rng.randint(1, n - 1) for _ in range(rng.randint(2, 4)))),
                       [starts[1] - 2, starts[1] + 3], [starts[-1] - rng.randint(0, 3)]]
            base, secs, how = live_exchange(e4, srv.addr, stream, [], 0.0, LIVE_KEEPALIVE + 3.0)
            run.count("live_connections")
            if len(base) == len(starts) and all(r[0].startswith("HTTP/1.1 200") for r in base):
                run.count("live_one_piece_all_answered")
            for cuts in vectors:
                cuts = [c for c in cuts if 0 < c < n]
                got, secs2, how2 = live_exchange(e4, srv.addr, stream, cuts, rng.choice([0.005, 0.02, 0.05]), LIVE_KEEPALIVE + 3.0)
                run.case((common.sha12(stream), tuple(cuts), wc))
                run.count("live_connections")
                run.count("live_segmentations")
                run.count("live_class/" + wc)
                if "slow-client" in (how, how2):
                    run.count("live_skipped_slow_client")
                    continue
                if got != base:
                    # once more, both ways: what the tree does to these bytes repeats, what a busy machine did to one run does not
                    base_b, _s, how_b = live_exchange(e4, srv.addr, stream, [], 0.0, LIVE_KEEPALIVE + 3.0)
                    got_b, _s, how2_b = live_exchange(e4, srv.addr, stream, cuts, 0.02, LIVE_KEEPALIVE + 3.0)
                    if (base_b, got_b) != (base, got) or "slow-client" in (how_b, how2_b):
                        run.count("live_difference_not_repeated")
                        continue
                    nviol += 1
                    run.violation("live/segmentation-changes-what-is-answered",
                                  "%s server, %d pipelined requests (%d bytes): sent in one piece -> %s (%.1fs, %s); sent with cuts %s -> %s "
                                  "(%.1fs, %s)" % (wc, len(starts), n, base, secs, how, cuts, got, secs2, how2),
                                  {"stream": stream.hex(), "cfg": {}, "cuts": cuts, "origin": "live", "worker": wc})
                    break
        if not srv.worker_pids():
            run.violation("live/worker-died", "no worker left after the sample: %s" % srv.error_log()[-300:],
                          {"stream": "", "cfg": {}, "cuts": [], "origin": "live", "worker": wc})
    finally:
        srv.cleanup()
    return run


def shard(sh):
    from vlib import e1_wire as e1
    tier = sh.get("tier", "quick")
    run = Run(PROP, tier, sh["seed"], "exploration", RULE)
    if sh["kind"] == "workers":
        return worker_shard(run, sh)
    if sh["kind"] == "live":
        return live_shard(run, sh)
    rng = rng_for(sh["seed"], "c06", sh["kind"], sh["sub"])
    kind = sh["kind"]
    if kind == "gram":
        for k in range(sh["n"]):
            if run.enough():
                break
            s = gen.gen_stream(rng, hostile=rng.choice([0.0, 0.3, 0.8]), max_msgs=3)
            if len(s) > 1500:
                continue
            if rng.random() < 0.25:
                s = s[:rng.randrange(1, len(s))]      # client went away mid-stream
            cfgset = rng.choice(SMALL_CFGS) if rng.random() < 0.25 else {}
            check_stream(run, e1, s, cfgset, tier, rng, "gram", readk=rng.choice([None, None, None, 0, 1, 7, 1024, 1500]))
            if k == 0:
                run.sample({"class": "grammar", "stream": hexs(s[:300]), "cfg": cfgset,
                            "cut_vectors": "all bytes; every single cut; 50 multi-cuts"})
    elif kind == "fixture":
        fx = gen.fixture_streams(common.REPO)
        for name, s in fx[sh["sub"]::sh["of"]]:
            if len(s) > 20000 and tier == "quick":
                s = s[:20000]
            check_stream(run, e1, s, {}, tier, rng, "fixture/" + name)
    elif kind == "limit":
        for k in range(sh["n"]):
            if run.enough():
                break
            cfgset = rng.choice(SMALL_CFGS + [{}])
            peer = None
            if k % 12 == 5:
                cfgset = rng.choice([{"limit_request_fields": 2, "limit_request_field_size": 0},
                                     {"limit_request_fields": 1, "limit_request_field_size": 0, "limit_request_line": 0}])
                s = cap_shaped(rng, cfgset)
                run.count("cap_shaped_streams")
            elif k % 12 == 7:
                cfgset = rng.choice([{}, {}, SMALL_CFGS[0]])
                s = binary_stream(rng)
                run.count("binary_streams")
            elif k % 12 == 3:
                s, cfgset, peer = proxy_shaped(rng)
                run.count("proxy_line_streams")
                if cfgset.get("proxy_protocol") and 0 < cfgset.get("limit_request_line", 4094) < s.find(b"\r\n") <= 105:
                    run.count("proxy_line_longer_than_line_limit")
            elif k % 12 in (1, 9):
                s, cfgset, peer = at_limit_shaped(rng)
                run.count("at_limit_element_streams")
            else:
                s = limit_shaped(rng, cfgset)
            if not cfgset.get("limit_request_fields", 100):
                run.count("streams_under_fields_limit_zero")
            check_stream(run, e1, s, cfgset, tier, rng, "limit", readk=rng.choice([None, None, None, 0, 3, 100]), peer=peer)
            run.count("limit_shaped_streams")
            if k == 0:
                run.sample({"class": "limit-shaped", "stream": hexs(s[:300]), "cfg": cfgset})
    elif kind == "big":
        # heads near the default buffer sizes and bodies crossing 8192-multiples
        for k in range(sh["n"]):
            if run.enough():
                break
            nh = rng.randint(1, 6)
            hdrs = b"".join(b"X-%d: %s\r\n" % (i, b"v" * rng.choice([10, 4000, 8100, 8180])) for i in range(nh))
            body = bytes(rng.randrange(256) for _ in range(rng.choice([0, 10, 8192, 9000])))
            if rng.random() < 0.5:
                s = b"POST /big HTTP/1.1\r\n" + hdrs + b"Content-Length: %d\r\n\r\n" % len(body) + body
            else:
                s = b"POST /big HTTP/1.1\r\n" + hdrs + b"Transfer-Encoding: chunked\r\n\r\n" + \
                    gen.chunk_encode(rng, body, "many") + b"0\r\n\r\n"
            s += gen.marker(2, b"end")
            n = len(s)
            vec = [sorted(rng.sample(range(1, n), rng.randint(1, 6))) for _ in range(25)]
            sp = special_positions(s)
            vec += [[c] for c in rng.sample(sp, min(len(sp), 60))]
            check_stream(run, e1, s, {}, tier, rng, "big", vectors=vec, readk=rng.choice([None, None, 0, 1500, 8192]))
            run.count("big_streams")
    return run


def main(tier, seed):
    run = Run(PROP, tier, seed, "exploration", RULE)
    run.require("segmentations", "streams_with_accepted_request", "streams_rejected",
                "streams_premature_end", "streams_with_trailers", "streams_pipelined",
                "limit_shaped_streams", "big_streams", "streams_with_body_left_unread", "cap_shaped_streams", "binary_streams", "worker_segmentations", "worker_segmentations_of_heads_larger_than_one_read",
                "worker_segmentations_keepalive", "proxy_line_streams", "proxy_line_longer_than_line_limit", "at_limit_element_streams",
                "streams_under_fields_limit_zero", "live_segmentations", "live_class/gevent", "live_class/eventlet", "live_one_piece_all_answered")
    q = tier == "quick"
    shards = []
    for sub in range(24 if q else 96):
        shards.append({"kind": "gram", "n": 60 if q else 300, "sub": sub, "seed": seed, "tier": tier})
    for sub in range(8):
        shards.append({"kind": "fixture", "sub": sub, "of": 8, "seed": seed, "tier": tier})
    for sub in range(16 if q else 64):
        shards.append({"kind": "limit", "n": 60 if q else 300, "sub": sub, "seed": seed, "tier": tier})
    for sub in range(6 if q else 16):
        shards.insert(0, {"kind": "workers", "n": 60 if q else 1500, "sub": sub, "seed": seed, "tier": tier})
    for wc in ("gevent", "eventlet"):
        shards.insert(0, {"kind": "live", "class": wc, "n": 10 if q else 150, "seed": seed, "tier": tier})
    for sub in range(8 if q else 32):
        shards.append({"kind": "big", "n": 8 if q else 30, "sub": sub, "seed": seed, "tier": tier})
    run.assumptions = [
        "baseline = the stream delivered in 8192-byte pieces; every other segmentation must give the same observation",
        "the exception class of a rejection is recorded but not compared; the index of the rejected message is",
        "pieces are non-empty and at most 8192 bytes, as the property quantifies",
        "live part: a piece is one send() on a connection the client keeps open, pieces 5-50 ms apart (far below the keep-alive time); "
        "what the server answers before it closes must equal what it answers to the same bytes sent at once",
    ]
    common.run_sharded(run, shards, timeout=900 if q else 7200)
    return run.finish()


def replay(path):
    from vlib import e1_wire as e1
    with open(path) as f:
        rec = json.load(f)
    c = rec["case"]
    stream = bytes.fromhex(c["stream"]) if c.get("stream") else b""
    run = Run(PROP, "quick", 0, "exploration", RULE)
    if c.get("origin") == "live" and not stream:
        print("witness without a stream (the live worker died during the sample): re-run the check")
        return 1
    if c.get("origin") == "live":
        from vlib import e4_live as e4
        srv = e4.Server("c06", worker_class=c["worker"], workers=1, settings={"keepalive": LIVE_KEEPALIVE, "graceful_timeout": 2, "timeout": 30},
                        app_source=LIVE_APP, env={"VERIF_REPO": common.REPO})
        try:
            srv.start()
            if not srv.wait_workers(1, 25) or not srv.wait_listening(5):
                print("server did not boot")
                return 2
            a = live_exchange(e4, srv.addr, stream, [], 0.0, LIVE_KEEPALIVE + 3.0)
            b = live_exchange(e4, srv.addr, stream, c["cuts"], 0.02, LIVE_KEEPALIVE + 3.0)
        finally:
            srv.cleanup()
        print("one piece:", a)
        print("cuts %s:" % c["cuts"], b)
        if a[0] != b[0]:
            print("VIOLATION property=%s replay=%s\n  live/segmentation-changes-what-is-answered" % (PROP, path))
            return 1
        print("no violation on replay")
        return 0
    if c.get("origin") == "workers":
        from vlib import e2_worker as e2
        from checks.c01 import _RecApp
        kind = c["worker"]
        cfgset = {"keepalive": 2, "threads": 2} if kind == "gthread" else {"keepalive": 2}
        if c.get("big"):
            cfgset.update(c["cfg"])
            stream = b"GET /big HTTP/1.1\r\nHost: h\r\nX-Big: " + b"v" * c["big"] + b"\r\n\r\nGET /after-big HTTP/1.1\r\nHost: h\r\n\r\n"
        res = []
        cuts = c["cuts"]
        for segs in (None, [b - a for a, b in zip([0] + cuts, cuts + [len(stream)])]):
            h = e2.Harness(kind, cfgset)
            app = _RecApp()
            h.connection(stream, app, mode="halfclose", segments=segs, segment_delay=0.02 if segs else 0.0, timeout=6.0)
            h.close()
            res.append([(x["method"], x["uri"], x.get("body"), x.get("body_error")) for x in app.calls])
        print("one segment:", [(m, u[:40], b and len(b), e) for m, u, b, e in res[0]])
        print("segments   :", [(m, u[:40], b and len(b), e) for m, u, b, e in res[1]])
        if res[0] != res[1]:
            print("VIOLATION property=%s replay=%s\n  worker/segmentation-changes-what-the-application-gets" % (PROP, path))
            return 1
        print("no violation on replay")
        return 0
    n = check_stream(run, e1, stream, c["cfg"], "quick", rng_for(0, "replay"), "replay", vectors=[c["cuts"]], readk=c.get("readk"),
                     peer=c.get("peer"))
    for mech, s, _ in run.violations:
        print("VIOLATION property=%s replay=%s\n  %s %s" % (PROP, path, mech, s))
    if not n:
        print("no violation on replay")
    return 1 if n else 0
