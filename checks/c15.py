"""C15 The WSGI environ faithfully reflects the request that was received.

Monitor: the environ snapshot taken by a scripted application inside real worker loops (E2) is
compared, key by key, with an independent CGI/PEP 3333 mapping (vlib/ref_cgi.py) of the raw
request bytes.
"""
import json
import os

from vlib import common, ref_cgi
from vlib.common import Run, rng_for, hexs

PROP = "C15"
RULE = ("case = (request target: origin-form from bytes 0x21-0xff with %XX / malformed escapes / ;params / several "
        "? / #, absolute-form, //-prefixed, asterisk; a class with TAB/CR/LF/C0 bytes in the target; method; version; "
        "0-8 header lines with repeated names, case variants, latin-1 and empty values; SCRIPT_NAME from process "
        "environment or trusted header; worker loop; versions outside 1.x and unconventional methods under the permit_* / "
        "casefold switches; connections of 2-3 such requests from a (trusted or not) front-end that sends SCRIPT_NAME / "
        "PATH_INFO fields, in either order, with each); non-trivial = target has an escape, raw high byte, ';', '?', '#' "
        "or non-origin form, or a header name repeats; distinct = sha1(case)")

SAFE = b"abcXYZ019-._~!$&'()*+,;=:@/"
TRUSTED = ("127.0.0.1", 40000)
UNTRUSTED = ("10.7.7.7", 40000)
HEXDIGITS = b"0123456789abcdefABCDEF"
HEXLETTERS = b"abcdefABCDEF"
# rarely used parser switches: what they admit has to be reported as faithfully as everything else
CFGX = {
    None: {},
    "unconv": {"permit_unconventional_http_version": True, "permit_unconventional_http_method": True},
    "casefold": {"casefold_http_method": True, "permit_unconventional_http_method": True},      # documented: method upper-cased
    # obsolete line folding admitted: a field spread over several lines is one field whose value is the pieces joined by blanks -
    # and a continuation line belongs to the field line in front of it, kept or dropped
    "folding": {"permit_obsolete_folding": True},
}


def gen_segment(rng, ctl):
    out = bytearray()
    for _ in range(rng.randint(0, 8)):
        k = rng.random()
        if k < 0.4:
            out.append(rng.choice(SAFE))
        elif k < 0.6:
            r = rng.random()
            if r < 0.35:
                out += b"%%%02x" % rng.randrange(256)
            elif r < 0.7:
                out += b"%%%02X" % rng.choice([0x00, 0x0a, 0x0d, 0x20, 0x23, 0x25, 0x2f, 0x3f, 0x41, 0x7f, 0x80, 0xc3, 0xa9, 0xe9, 0xff])
            elif r < 0.85:
                # the two hex digits drawn one by one: any mix of letter cases (%cF, %aB, %Fe ...)
                out += bytes([0x25, rng.choice(HEXDIGITS), rng.choice(HEXDIGITS)])
            else:
                out += bytes([0x25, rng.choice(HEXLETTERS), rng.choice(HEXLETTERS)])
        elif k < 0.7:
            out += rng.choice([b"%", b"%4", b"%zz", b"%%41", b"%g1", b"%1g"])
        elif k < 0.85:
            out.append(rng.randrange(0x80, 0x100))
        elif k < 0.95:
            out.append(rng.choice(b"\"<>\\^`{|}[]"))
        elif ctl:
            out.append(rng.choice([9, 10, 13, 1, 8, 11, 12, 27, 0x7f]))
        else:
            out.append(rng.choice(SAFE))
    return bytes(out)


def gen_target(rng, ctl=False):
    form = rng.choice(["origin"] * 6 + ["absolute", "absolute", "slashes", "asterisk"])
    if form == "asterisk":
        return b"*", "OPTIONS"
    path = b"/" + b"/".join(gen_segment(rng, ctl) for _ in range(rng.randint(0, 3)))
    path = path.replace(b"[", b"(").replace(b"]", b")") if form == "absolute" else path
    if rng.random() < 0.2:
        path += b";" + gen_segment(rng, ctl)
    q = b""
    for _ in range(rng.choice([0, 0, 1, 1, 2])):
        q += b"?" + gen_segment(rng, ctl).replace(b"#", b"")
    f = b"#" + gen_segment(rng, ctl).replace(b"#", b"") if rng.random() < 0.15 else b""
    if rng.random() < 0.08:
        # a fragment that starts before any '?': everything after the first '#' is fragment, also a later '?'
        f = b"#" + gen_segment(rng, ctl).replace(b"#", b"") + rng.choice([b"", b"?x=1", b"?", b"#t?u"])
        q = b"" if rng.random() < 0.7 else q
    if form == "absolute":
        host = rng.choice([b"example.org", b"h:8080", b"127.0.0.1:1", b"EXAMPLE.org"])
        scheme = rng.choice([b"http", b"https", b"HTTP"])
        if rng.random() < 0.15:
            path = b""
        t = scheme + b"://" + host + path.replace(b"#", b"%23") + q + f
    elif form == "slashes":
        t = b"/" + path.replace(b"#", b"%23") + q + f
    else:
        t = path.replace(b"#", b"%23") + q + f
    return t, rng.choice(["GET", "POST", "PUT", "DELETE", "OPTIONS", "PROPFIND", "M-SEARCH"])


HNAMES = [b"X-A", b"x-a", b"X-a", b"Accept", b"accept", b"Cookie", b"X.Dot", b"X~T", b"User-Agent", b"Referer",
          b"X-Long-Header-Name-With-Many-Parts", b"Host", b"X_Under", b"If-None-Match", b"Content-Type", b"X-1",
          b"X-Under", b"x_under", b"X_A", b"Content_Type", b"Content_Length", b"CONTENT_TYPE", b"Content-type"]


def gen_headers(rng):
    hdrs = []
    for _ in range(rng.randint(0, 8)):
        n = rng.choice(HNAMES)
        v = rng.choice([b"v%d" % rng.randrange(1000), b"", b"caf\xe9", b"a, b", b"a,b", b"  padded  ", b"\ttab\t",
                        b"\xff\x80", b"x" * 200, b"text/plain; charset=utf-8", b"a=b; c=d", b"\"q\"",
                        # bytes that str.strip() / str.split() treat as white space but HTTP does not
                        b"Bogot\xc3\xa0", b"\xa0nbsp\xa0", b"next\x85", b"\x0bvt\x0c", b"fs\x1c", b"\x1fus", b"a\x0bb",
                        b"\xd0\xa0\xd0\xa0", b"\x85"])
        hdrs.append([n, v])
    return hdrs


def make_case(rng, conn=None):
    """conn: None, or {"kind", "header_map", "trusted"} when the request is one of several on a keep-alive connection."""
    ctl = rng.random() < 0.12
    target, method = gen_target(rng, ctl)
    version = rng.choice(["1.1", "1.1", "1.0"])
    hdrs = gen_headers(rng)
    body = rng.choice([None, None, b"", b"abc"])
    script_env = ""
    script_hdr = None
    k = rng.random()
    if conn is not None:
        k = rng.choice([0.1, 0.1, 0.1, 0.1, 0.19, 0.9])      # mostly: the front-end sends SCRIPT_NAME = a prefix of the path
    if k < 0.15 and target.startswith(b"/"):
        # SCRIPT_NAME = some raw prefix of the path
        path = target.split(b"?")[0].split(b"#")[0]
        cutpos = [i for i, c in enumerate(path) if c == 0x2f and i > 0] + [len(path)]
        pre = path[:rng.choice(cutpos)]
        try:
            pre.decode("ascii")
            if k < 0.08:
                script_env = pre.decode("ascii")
            else:
                script_hdr = pre
        except UnicodeDecodeError:
            pass
    elif k < 0.21 and target.startswith(b"/"):
        # SCRIPT_NAME that occurs in the path, but not at its start
        path = target.split(b"?")[0].split(b"#")[0]
        starts = [i for i, c in enumerate(path) if c == 0x2f and i > 0]
        if starts:
            i = rng.choice(starts)
            ends = [j for j in range(i + 2, len(path) + 1) if j == len(path) or path[j] == 0x2f]
            if ends:
                pre = path[i:rng.choice(ends)]
                try:
                    pre.decode("ascii")
                    if len(pre) > 1 and not path.startswith(pre) and b"%" not in pre:
                        if k < 0.18:
                            script_env = pre.decode("ascii")
                        else:
                            script_hdr = pre
                except UnicodeDecodeError:
                    pass
    if body is not None and rng.random() < 0.3:
        hdrs.insert(rng.randint(0, len(hdrs)), [b"Expect", rng.choice([b"100-continue", b"100-Continue"])])
    # who is talking: a SCRIPT_NAME header counts only from a trusted peer; the same worker serves both kinds of peer
    hdr_from_untrusted = script_hdr is not None and rng.random() < 0.3
    case = {"target": target.hex(), "method": method, "version": version,
            "headers": [[n.hex(), v.hex()] for n, v in hdrs], "body": None if body is None else body.hex(),
            "script_env": script_env, "script_hdr": None if script_hdr is None else script_hdr.hex(),
            "hdr_from_untrusted": hdr_from_untrusted, "header_map": "dangerous" if rng.random() < 0.2 else "drop",
            "client_gone": rng.random() < 0.08,
            "kind": rng.choice(["sync", "gthread", "async"]), "ctl": ctl}
    # a second forwarder field (PATH_INFO is in the default forwarder_headers): in front of or behind SCRIPT_NAME
    r = rng.random()
    if r < (0.3 if script_hdr is not None else 0.04):
        case["path_info_hdr"] = {"v": rng.choice([b"/pi", b"/x%20y", b"", b"/caf\xe9", b"/a, b"]).hex(), "before": rng.random() < 0.5}
        if script_hdr is None:
            case["hdr_from_untrusted"] = rng.random() < 0.3
    # a secure-scheme header as front-ends write it (any letter case): from a trusted peer it decides wsgi.url_scheme, and like every
    # other field it reaches the application as the client sent it
    if rng.random() < 0.12:
        case["scheme_hdr"] = [rng.choice([b"X-Forwarded-Proto", b"X-Forwarded-Ssl", b"X-Forwarded-Protocol", b"x-forwarded-proto"]).hex(),
                              rng.choice([b"HTTPS", b"https", b"On", b"on", b"SSL", b"ssl", b"Http", b"HTTP", b"Off", b"hTTpS"]).hex()]
        if script_hdr is None and "path_info_hdr" not in case:
            case["trusted_peer"] = rng.random() < 0.7
    # rarely used switches
    r = rng.random()
    case["cfgx"] = None
    if conn is not None:
        case.update(kind=conn["kind"], header_map=conn["header_map"], hdr_from_untrusted=not conn["trusted"], script_env="",
                    client_gone=False, version="1.1")
        case.pop("trusted_peer", None)      # (who is talking is a matter of the connection)
    elif r < 0.1:
        case["cfgx"] = "unconv"
        case["version"] = rng.choice(["2.0", "0.9", "3.1", "1.7", "9.9", "0.0", "2.1", "1.1", "1.0"])
        if target != b"*":
            case["method"] = rng.choice(["get", "Post", "X#Y", "G", "GET", "A-VERY-LONG-METHOD-NAME-OVER-20", "pUT", "GET"])
    elif r < 0.14:
        case["cfgx"] = "casefold"
        if target != b"*":
            case["method"] = rng.choice(["get", "Post", "x#y", "pUT", "GET", "m-search"])
    elif r < 0.18:
        case["version"] = rng.choice(["1.2", "1.9", "1.5"])          # accepted without any switch
    elif r < 0.27:
        case["cfgx"] = "folding"
        folded = []
        for n, v in hdrs:
            if bytes(n).lower() != b"expect" and rng.random() < 0.45:
                for _ in range(rng.choice([1, 1, 2])):
                    v = v + b"\r\n" + rng.choice([b" ", b"\t", b"  \t", b" "]) + rng.choice([b"more", b"x=1", b"caf\xe9", b"a, b", b"k9Zq tail "])
            folded.append([n.hex(), v.hex()])
        case["headers"] = folded
    return case


def make_conn_case(rng):
    """2-3 requests on one keep-alive connection (one for the sync loop) from one peer: a front-end that is trusted, or is not,
    for as long as the connection lasts."""
    kind = rng.choice(["gthread", "async", "gthread", "async", "sync"])
    conn = {"kind": kind, "header_map": "dangerous" if rng.random() < 0.12 else "drop", "trusted": rng.random() < 0.8}
    n = 1 if kind == "sync" else rng.choice([2, 3, 3])
    return dict(conn, reqs=[make_case(rng, conn) for _ in range(n)])


def render(case):
    target = bytes.fromhex(case["target"])
    lines = [case["method"].encode() + b" " + target + b" HTTP/" + case["version"].encode()]
    hdrs = [(bytes.fromhex(n), bytes.fromhex(v)) for n, v in case["headers"]]
    wire = list(hdrs)
    pih = case.get("path_info_hdr")
    if pih and pih["before"]:
        wire.append((b"PATH_INFO", bytes.fromhex(pih["v"])))
    if case.get("scheme_hdr"):
        wire.append((bytes.fromhex(case["scheme_hdr"][0]), bytes.fromhex(case["scheme_hdr"][1])))
    if case["script_hdr"] is not None:
        wire.append((b"SCRIPT_NAME", bytes.fromhex(case["script_hdr"])))
    if pih and not pih["before"]:
        wire.append((b"PATH_INFO", bytes.fromhex(pih["v"])))
    body = None if case["body"] is None else bytes.fromhex(case["body"])
    if body is not None:
        wire.append((b"Content-Length", b"%d" % len(body)))
    for n, v in wire:
        lines.append(n + b": " + v)
    return b"\r\n".join(lines) + b"\r\n\r\n" + (body or b""), wire


def is_trusted(case):
    """Is the peer of this request's connection on forwarded_allow_ips?"""
    if case.get("trusted_peer") is not None and case["script_hdr"] is None and not case.get("path_info_hdr"):
        return case["trusted_peer"]
    return (case["script_hdr"] is not None or bool(case.get("path_info_hdr"))) and not case.get("hdr_from_untrusted")


def judge(case, environ):
    target = bytes.fromhex(case["target"])
    _, wire = render(case)
    # (a folded value: the pieces without the blanks around them, joined by one blank)
    wire = [(n, b" ".join(x.strip(b" \t") for x in v.split(b"\r\n")).strip(b" \t")) for n, v in wire]
    has_folds = any(b"\r\n" in bytes.fromhex(v) for _, v in case["headers"])
    script = case["script_env"]
    hdr_script = case["script_hdr"]
    lines = [(n, v) for n, v in wire if n != b"SCRIPT_NAME"]
    hm = case.get("header_map", "drop")
    if hdr_script is not None and (not case.get("hdr_from_untrusted") or hm == "dangerous"):
        # (with header_map = dangerous every peer's underscore names go through, also this one: documented as unsafe)
        script = bytes.fromhex(hdr_script).decode("latin-1")
    # the PATH_INFO field of a trusted front-end is a configured forwarder header: mapped (to HTTP_PATH_INFO) like any other field
    exp = ref_cgi.expected(case["method"].encode(), target, (int(case["version"][0]), int(case["version"][2])), lines, script,
                           header_map=hm, forwarder_names=() if case.get("hdr_from_untrusted") or not is_trusted(case) else ("PATH_INFO",))
    if case.get("cfgx") == "casefold":
        exp["REQUEST_METHOD"] = exp["REQUEST_METHOD"].upper()       # what the switch is documented to do
    nj = exp["_not_judged"]
    out = []
    if exp.get("_script_mismatch_path") is not None:
        # the path does not start with the configured SCRIPT_NAME: gunicorn refuses such a request; if it is served all the
        # same, nothing of the path may be lost in the split
        got = environ.get("SCRIPT_NAME", "") + environ.get("PATH_INFO", "")
        if got != exp["_script_mismatch_path"]:
            out.append(("PATH_INFO", "SCRIPT_NAME %r + PATH_INFO %r" % (environ.get("SCRIPT_NAME"), environ.get("PATH_INFO")),
                        exp["_script_mismatch_path"]))
    for key in ("REQUEST_METHOD", "RAW_URI", "SERVER_PROTOCOL", "QUERY_STRING", "PATH_INFO", "SCRIPT_NAME",
                "CONTENT_LENGTH", "CONTENT_TYPE"):
        if key in nj:
            continue
        want = exp.get(key)
        got = environ.get(key)
        if has_folds and key == "CONTENT_TYPE" and isinstance(got, str) and isinstance(want, str):
            got, want = FOLD_BLANKS.sub(" ", got).strip(" \t"), FOLD_BLANKS.sub(" ", want).strip(" \t")
        if want is None:
            if key in ("CONTENT_LENGTH", "CONTENT_TYPE") and got not in (None, ""):
                out.append((key, got, None))
            continue
        if got != want:
            out.append((key, got, want))
    got_http = {k: v for k, v in environ.items() if k.startswith("HTTP_")}
    for k, vals in exp["_http"].items():
        if k == "HTTP_SCRIPT_NAME":
            continue
        g = got_http.pop(k, None)
        if g is not None and has_folds:
            # how many blanks stand for a fold is not pinned down (RFC 9112 5.2: one or more): compared with blank runs collapsed
            g = FOLD_BLANKS.sub(" ", g).strip(" \t")
            vals = [FOLD_BLANKS.sub(" ", x).strip(" \t") for x in vals]
        if g is None or not ref_cgi.http_value_matches(g, vals):
            out.append((k, g, ",".join(vals)))
    got_http.pop("HTTP_SCRIPT_NAME", None)
    for k, g in got_http.items():
        out.append((k, g, None))
    return out, exp


FOLD_BLANKS = __import__("re").compile(r"[ \t]+")


def features(case):
    t = bytes.fromhex(case["target"])
    names = [bytes.fromhex(n).upper() for n, _ in case["headers"]]
    return (b"%" in t or any(c >= 0x80 for c in t) or b";" in t or b"?" in t or b"#" in t or not t.startswith(b"/")
            or t.startswith(b"//") or len(names) != len(set(names)))


def classify(key, case, got, want):
    t = bytes.fromhex(case["target"])
    if key in ("PATH_INFO", "QUERY_STRING") and isinstance(got, str) and isinstance(want, str):
        raw = {"PATH_INFO": t.split(b"?")[0], "QUERY_STRING": t.partition(b"?")[2]}[key]
        # exactly the stdlib urlsplit behaviour: TAB / CR / LF that were *raw* in the target vanish,
        # everything else (including %09 %0A %0D escapes) is intact
        if any(c in raw for c in b"\t\r\n") and got != want and \
                got.replace("\t", "").replace("\r", "").replace("\n", "") == \
                want.replace("\t", "").replace("\r", "").replace("\n", "") and len(got) < len(want):
            return "target-raw-tab-cr-lf-removed"
    if key == "PATH_INFO" and any(c >= 0x80 for c in t.split(b"?")[0]):
        return "path-raw-high-byte-mangled"
    return "environ-differs/" + (key if not key.startswith("HTTP_") else "HTTP_*")


def run_case(run, e2, harnesses, case):
    if "reqs" in case:
        return run_conn(run, e2, harnesses, case)
    kind = case["kind"]
    hm = case.get("header_map", "drop")
    cfgx = case.get("cfgx")
    h = harnesses.get((kind, hm, cfgx))
    if h is None:
        h = harnesses[(kind, hm, cfgx)] = e2.Harness(kind, dict(CFGX[cfgx], keepalive=0, header_map=hm))
    app = e2.AppProgram({"status": "200 OK", "mode": "list", "chunks": [], "cl": "exact", "read_input": "none"})
    script, _ = render(case)
    if case["script_env"]:
        os.environ["SCRIPT_NAME"] = case["script_env"]
    else:
        os.environ.pop("SCRIPT_NAME", None)
    try:
        out = h.connection(script, app, peer=TRUSTED if is_trusted(case) else UNTRUSTED,
                           mode="close" if case.get("client_gone") else "halfclose")
        if case.get("client_gone"):
            # the client sent everything and left: whatever the server could not write any more, what it hands to the
            # application (if it still calls it) is the whole request
            run.count("client_gone_cases")
    finally:
        os.environ.pop("SCRIPT_NAME", None)
    verdicts = []
    if case["script_env"] or case["script_hdr"] is not None:
        sn = (case["script_env"] or bytes.fromhex(case["script_hdr"]).decode("latin-1")).encode("latin-1")
        if not bytes.fromhex(case["target"]).startswith(sn):
            run.count("script_name_not_a_prefix_cases")
    if not app.calls:
        run.count("not_accepted")
        return verdicts, out
    run.count("accepted")
    diffs, exp = judge(case, app.calls[0]["environ"])
    count_reach(run, case, exp)
    for key, got, want in diffs:
        verdicts.append((classify(key, case, got, want), "%s = %r, the request says %r | target=%s" % (
            key, got, want, hexs(bytes.fromhex(case["target"])))))
    return verdicts, out


MIXED_ESCAPE = __import__("re").compile(rb"%(?:[a-f][A-F]|[A-F][a-f])")


def count_reach(run, case, exp):
    hm = case.get("header_map", "drop")
    run.count("form/" + exp["_form"])
    path = bytes.fromhex(case["target"]).split(b"?")[0].split(b"#")[0]
    if MIXED_ESCAPE.search(path):
        run.count("path_escape_with_mixed_case_hex_letters")
    if case.get("scheme_hdr") and is_trusted(case):
        run.count("scheme_header_from_trusted_peer_reported")
    if case.get("cfgx"):
        run.count("switch/" + case["cfgx"])
        if case["cfgx"] == "folding" and hm == "drop":
            hs = [(bytes.fromhex(n), bytes.fromhex(v)) for n, v in case["headers"]]
            if any(b"_" not in hs[i][0] and b"_" in hs[i + 1][0] and b"\r\n" in hs[i + 1][1] for i in range(len(hs) - 1)):
                run.count("folded_field_dropped_after_kept_field")
    if not case["version"].startswith("1."):
        run.count("version_outside_1x_accepted")
    elif case["version"] not in ("1.0", "1.1"):
        run.count("version_1x_other_than_1.0_1.1_accepted")
    if case["method"] != case["method"].upper() or "#" in case["method"] or not 3 <= len(case["method"]) <= 20:
        run.count("unconventional_method_accepted")
    pih = case.get("path_info_hdr")
    if pih and is_trusted(case):
        run.count("forwarder_path_info_field_mapped")
        if pih["before"] and case["script_hdr"] is not None:
            run.count("forwarder_fields_in_reverse_order")
    if case["script_env"] or case["script_hdr"] is not None:
        run.count("with_script_name")
    if any(len(v) > 1 for v in exp["_http"].values()):
        run.count("repeated_header_joined")
    if case.get("hdr_from_untrusted") and case["script_hdr"] is not None:
        run.count("script_name_header_from_untrusted_peer")
    if exp.get("_script_mismatch_path") is not None:
        run.count("served_although_path_outside_script_name")
    if hm == "dangerous":
        run.count("header_map_dangerous_cases")
        names = [bytes.fromhex(n).upper().replace(b"_", b"-") for n, _ in case["headers"]]
        raw = [bytes.fromhex(n).upper() for n, _ in case["headers"]]
        if any(names.count(x) > 1 and len(set(r for r in raw if r.replace(b"_", b"-") == x)) > 1 for x in names):
            run.count("two_spellings_one_variable")


def render_conn(case):
    return b"".join(render(r)[0] for r in case["reqs"])


def run_conn(run, e2, harnesses, case):
    """Several requests on one keep-alive connection: every one that reaches the application is judged like a single request."""
    kind, hm = case["kind"], case["header_map"]
    h = harnesses.get((kind, hm, "keep-alive"))
    if h is None:
        h = harnesses[(kind, hm, "keep-alive")] = e2.Harness(kind, {"keepalive": 2, "header_map": hm})
    app = e2.AppProgram({"status": "200 OK", "mode": "list", "chunks": [], "cl": "exact", "read_input": "none"})
    os.environ.pop("SCRIPT_NAME", None)
    out = h.connection(render_conn(case), app, peer=TRUSTED if case["trusted"] else UNTRUSTED)
    verdicts = []
    run.count("keepalive_connections")
    # a refused request ends the connection: the i-th application call belongs to the i-th request
    for i, call in enumerate(app.calls[:len(case["reqs"])]):
        sub = case["reqs"][i]
        run.count("accepted")
        diffs, exp = judge(sub, call["environ"])
        count_reach(run, sub, exp)
        if i:
            run.count("keepalive_later_request_accepted")
            if sub["script_hdr"] is not None and case["trusted"]:
                run.count("keepalive_later_request_with_forwarder_script_name")
        for key, got, want in diffs:
            verdicts.append((classify(key, sub, got, want), "request #%d of a connection (%s front-end): %s = %r, the request says %r | "
                             "target=%s | connection: %s" % (i, "trusted" if case["trusted"] else "unlisted", key, got, want,
                                                             hexs(bytes.fromhex(sub["target"])), hexs(render_conn(case)[:600]))))
    if len(app.calls) > len(case["reqs"]):
        verdicts.append(("more-app-calls-than-requests", "%d calls for %d requests" % (len(app.calls), len(case["reqs"]))))
    if not app.calls:
        run.count("not_accepted")
    return verdicts, out


def live_scenario(run, wc):
    """SCRIPT_NAME configured through raw_env on a running master: present, still present after a reload, gone after the reload
    that removes it - the split of the path follows the configuration in force."""
    import signal
    import time
    from vlib import e4_live as e4
    from checks.c08 import LIVE_ENV_APP
    v = []
    settings = {"raw_env": ["SCRIPT_NAME=/shop"], "graceful_timeout": 2, "timeout": 30}
    if wc == "gthread":
        settings["threads"] = 2
    srv = e4.Server("c15", worker_class=wc, workers=2, settings=settings, app_source=e4.APP_SOURCE + LIVE_ENV_APP)

    def ask(path):
        r = e4.request(srv.addr, path, timeout=6)
        if r["outcome"] != "ok":
            return r["outcome"]
        try:
            return json.loads(e4.body_of(r["data"])[:-4])
        except ValueError:
            return "unparsable"

    def reload_and_wait():
        before = set(srv.worker_pids())
        srv.signal(signal.SIGHUP)
        t0 = time.monotonic()
        while time.monotonic() - t0 < 12 and (set(srv.worker_pids()) & before or len(srv.worker_pids()) != 2):
            time.sleep(0.1)
        srv.wait_workers(2, 10)
    try:
        srv.start()
        if not srv.wait_workers(2, 25) or not srv.wait_listening(5):
            return v, "server did not boot"
        steps = [("start", True), ("reload-unchanged", True), ("reload-removing-it", False), ("reload-again", False),
                 ("reload-restoring-it", True)]
        for label, configured in steps:
            if label == "reload-removing-it":
                srv.write_conf(raw_env=[])
            if label == "reload-restoring-it":
                srv.write_conf(raw_env=["SCRIPT_NAME=/shop"])
            if label != "start":
                reload_and_wait()
            e = ask("/shop/cart%20a")
            if not isinstance(e, dict):
                # (a path outside a configured SCRIPT_NAME is refused by gunicorn: not the case here)
                v.append(("live/request-under-script-name-not-served", "%s (%s): GET /shop/cart%%20a -> %s" % (wc, label, e)))
                break
            want = {"SCRIPT_NAME": "/shop", "PATH_INFO": "/cart a"} if configured else {"SCRIPT_NAME": "", "PATH_INFO": "/shop/cart a"}
            got = {k2: e[k2] for k2 in want}
            run.count("live_script_name_checks")
            if got != want:
                v.append(("live/environ-differs/SCRIPT_NAME-after-reload", "%s, %s: raw_env %s SCRIPT_NAME=/shop, the application saw %r" % (
                    wc, label, "configures" if configured else "no longer configures", got)))
                break
        return v, None
    finally:
        srv.cleanup()


def shard(sh):
    from vlib import e2_worker as e2
    run = Run(PROP, sh.get("tier", "quick"), sh["seed"], "exploration", RULE)
    if sh.get("kind") == "live":
        reason = None
        for attempt in range(2):
            v, reason = live_scenario(run, sh["class"])
            if reason is None or v:
                break
        run.case(("live", sh["class"]))
        for mech, summary in v:
            run.violation(mech, summary, {"live": sh["class"]})
        if reason is not None and not v:
            run.inconclusive_because("live scenario (%s): %s" % (sh["class"], reason))
        return run
    rng = rng_for(sh["seed"], "c15", sh["sub"])
    hs = {}
    try:
        for k in range(sh["n"]):
            if run.enough():
                break
            if k % 8 == 7:
                case = make_conn_case(rng)
                run.case(common.sha12(case), nontrivial=any(features(r) for r in case["reqs"]))
            else:
                case = make_case(rng)
                run.case(common.sha12(case), nontrivial=features(case))
            v, out = run_case(run, e2, hs, case)
            for mech, summary in v:
                run.violation(mech, summary, case)
            if k < 1:
                run.sample({"request": hexs(render(case)[0][:300]), "loop": case["kind"],
                            "script_env": case["script_env"]})
            elif k == 7:
                run.sample({"connection": hexs(render_conn(case)[:500]), "loop": case["kind"], "front_end_trusted": case["trusted"]})
    finally:
        for h in hs.values():
            h.close()
    return run


def main(tier, seed):
    run = Run(PROP, tier, seed, "exploration", RULE)
    run.require("accepted", "form/origin", "form/absolute", "form/asterisk", "with_script_name", "repeated_header_joined",
                "script_name_header_from_untrusted_peer", "script_name_not_a_prefix_cases", "header_map_dangerous_cases",
                "two_spellings_one_variable", "client_gone_cases", "live_script_name_checks",
                "path_escape_with_mixed_case_hex_letters", "switch/unconv", "switch/casefold", "switch/folding", "scheme_header_from_trusted_peer_reported", "folded_field_dropped_after_kept_field", "version_outside_1x_accepted",
                "version_1x_other_than_1.0_1.1_accepted", "unconventional_method_accepted", "forwarder_path_info_field_mapped",
                "forwarder_fields_in_reverse_order", "keepalive_connections", "keepalive_later_request_accepted",
                "keepalive_later_request_with_forwarder_script_name")
    q = tier == "quick"
    shards = [{"n": 1500 if q else 20000, "sub": i, "seed": seed, "tier": tier} for i in range(32 if q else 64)]
    classes = ["sync", "gthread", "gevent", "eventlet"]
    shards = [{"kind": "live", "class": c, "seed": seed, "tier": tier, "sub": 0} for c in (classes if not q else [classes[(seed + 1) % 4]])] + shards
    run.assumptions = [
        "reference mapping = vlib/ref_cgi.py; malformed percent escapes stay literal; fragment (#...) is not part of path or query",
        "not judged: repeated Content-Type, authority-form / relative targets, targets whose raw path does not start with the configured SCRIPT_NAME, "
        "headers dropped by the documented underscore policy",
        "casefold_http_method (deprecated) is documented to upper-case the method: REQUEST_METHOD is compared with the upper-cased method there; "
        "permit_unconventional_http_version / _method only widen what is accepted: version and method are reported as sent",
        "a PATH_INFO field from a trusted front-end is a (default) forwarder header and is mapped like any field, to HTTP_PATH_INFO; from others it falls "
        "under the underscore policy",
    ]
    common.run_sharded(run, shards, timeout=900 if q else 7200)
    return run.finish()


def replay(path):
    from vlib import e2_worker as e2
    with open(path) as f:
        rec = json.load(f)
    run = Run(PROP, "quick", 0, "exploration", RULE)
    if "live" in rec["case"]:
        v, reason = live_scenario(run, rec["case"]["live"])
        print("inconclusive:", reason)
        for mech, s in v:
            print("VIOLATION property=%s replay=%s\n  %s %s" % (PROP, path, mech, s))
        if not v:
            print("no violation on replay")
        return 1 if v else 0
    hs = {}
    try:
        v, out = run_case(run, e2, hs, rec["case"])
    finally:
        for h in hs.values():
            h.close()
    print("request:", hexs((render_conn(rec["case"]) if "reqs" in rec["case"] else render(rec["case"])[0])[:600]))
    for mech, s in v:
        print("VIOLATION property=%s replay=%s\n  %s %s" % (PROP, path, mech, s))
    if not v:
        print("no violation on replay")
    return 1 if v else 0
