"""Live part of C17 (engine E4): a real master with a pid file, observed from outside.

The class-level parts of C17 drive gunicorn.pidfile.Pidfile directly; what they cannot see is WHO calls it in a
running server: the Pidfile object is inherited by every forked worker, and the arbiter's own code paths
(halt, reload, the handlers around the main loop) decide when it is unlinked.  Here a real master is started
with `pidfile` set and taken through the events during which processes of the server come and go:

  boot - SIGTTOU (a worker retires) - SIGHUP (all workers are replaced; reload() unlinks and re-creates the file) -
  a worker recycled by max_requests - a silent worker aborted after `timeout` - a worker killed with SIGKILL - a second instance started on the same pid file
  (must refuse and leave the file alone) - SIGTERM

At the quiescent point after every event the pid file must exist and hold exactly "<master pid>\\n" while the
master runs; whenever the file is read in between (every poll of every wait loop) it must be absent or hold exactly
that; after SIGTERM the master exits and the file is gone.  A second scenario kills the whole server with SIGKILL
(the pid file stays behind, stale) and starts a new one on the same path: it must boot and the file must name it.

Upgrade histories (SIGUSR2: the master forks a child that re-executes the program; that child, and then the new
master, are further processes holding - or inheriting - a Pidfile object on the same path):

  start-dir-gone   the server is started from a directory of its own, which is removed / renamed once it runs (a rotated
                   release directory); then SIGUSR2: the forked child cannot go back to the start directory and the
                   upgrade fails.  Whatever that child does on its way out, it is not the master: the pid file must
                   still exist and name the running master, whose workers are still the same processes.
  hup-new-master   SIGUSR2 (pid file names the old master A, "<pidfile>.2" the new master B), then SIGHUP to B while
                   A is alive, then TERM / QUIT to B if it is still there: whenever the files are read, <pidfile> is
                   absent or names A and "<pidfile>.2" never names A; at every quiescent point <pidfile> names A for
                   as long as A runs.  Whether B survives the HUP is not judged (on the unchanged tree it gives up:
                   the file it wants names another live process).

Re-spelling histories (one pid file, several spellings of its path): an administrator edits the `pidfile` setting to another
name of the SAME file - through a symlinked directory (/var/run -> /run), relative instead of absolute, with "./", a doubled
slash or "x/../x" in it, or through a symbolic link to the file itself - and sends SIGHUP.  reload() then holds two Pidfile
objects (the former one and the one for the new name) that mean one file.  A master is taken along a chain of such names,
one SIGHUP each; after every reload has completed (former workers gone, new workers booted) the pid file exists under the
CONFIGURED name and names the master; whenever it is read in between it is absent or names the master.  Then a second
server is started on yet another spelling of the configured file while the first runs: it is refused and the file stays.
After SIGTERM the file is gone under the configured name.
"""
import os
import signal
import time

MAXREQ_CONF = "max_requests = 1\n"


def read_file(path):
    try:
        with open(path, "rb") as f:
            return f.read()
    except FileNotFoundError:
        return None
    except OSError as e:
        return ("unreadable: %r" % (e,)).encode()


class Watch:
    """The pid file as an operator sees it: `poll` (any instant: absent or complete), `settled` (quiescence: must
    name the running master)."""

    def __init__(self, e4, srv, path):
        self.e4, self.srv, self.path = e4, srv, path
        self.want = b"%d\n" % srv.master_pid
        self.v = []
        self.polls = 0
        self.absent_polls = 0
        self.event = "boot"

    def poll(self):
        d = read_file(self.path)
        self.polls += 1
        if d is None:
            self.absent_polls += 1
        elif d != self.want and not self.v:
            self.v.append(("live-pidfile-wrong-content/" + self.event,
                           "during %s the pid file held %r while master %d was running" % (
                               self.event, d[:60], self.srv.master_pid)))
        return d

    def settled(self, run, counter):
        """Quiescent point: the file must be there and name the master (re-read for 1 s before judging: reload()
        re-creates it a moment after unlinking it)."""
        t0 = time.monotonic()
        d = self.poll()
        while d != self.want and time.monotonic() - t0 < 1.0:
            time.sleep(0.05)
            d = self.poll()
        if not self.e4.alive(self.srv.master_pid):
            self.v.append(("live-master-exited-without-cause", "after %s: %s" % (self.event, self.srv.stderr()[-300:])))
            return False
        if d is None:
            self.v.append(("live-pidfile-missing/" + self.event,
                           "after %s master %d is running (workers %s) but its pid file is gone" % (
                               self.event, self.srv.master_pid, self.srv.worker_pids())))
            return False
        if d != self.want:
            if not any(m.startswith("live-pidfile-wrong-content") for m, _ in self.v):
                self.v.append(("live-pidfile-wrong-content/" + self.event,
                               "after %s the pid file holds %r, master is %d" % (self.event, d[:60], self.srv.master_pid)))
            return False
        run.count(counter)
        return True

    def wait(self, cond, timeout):
        t0 = time.monotonic()
        while time.monotonic() - t0 < timeout:
            self.srv.reap()
            self.poll()
            r = cond()
            if r:
                return r
            time.sleep(0.03)
        return None


def all_gone(e4, pids):
    return all(not e4.alive(p) for p in pids)


def booted_workers(srv, n, exclude=()):
    w = srv.worker_pids()
    if len(w) != n or any(p in exclude for p in w):
        return None
    inited = set(e["wpid"] for e in srv.events() if e["kind"] == "post_worker_init")
    return w if all(p in inited for p in w) else None


def scenario(run, e4, sc):
    """-> (violations, reason why nothing could be judged | None, info)"""
    if sc["kind"] == "takeover":
        return takeover(run, e4, sc)
    if sc["kind"] == "upgrade":
        return upgrade(run, e4, sc)
    if sc["kind"] == "respell":
        return respell(run, e4, sc)
    wc = sc["class"]
    info = {"events": []}
    settings = {"graceful_timeout": 3, "timeout": 3 if "timeout" in sc["events"] else 10}
    if wc == "gthread":
        settings["threads"] = 2
    srv = e4.Server("c17", worker_class=wc, workers=2, bind="unix", settings=settings, conf_extra=MAXREQ_CONF if sc.get("max_requests") else "")
    pidfile = os.path.join(srv.dir, "master.pid")
    srv.write_conf(pidfile=pidfile)
    other = None
    try:
        srv.start()
        w = srv.wait_workers(2, 25)
        if not w:
            return [], "server did not boot: %s" % (srv.stderr()[-300:] or srv.error_log()[-300:]), info
        watch = Watch(e4, srv, pidfile)
        if not watch.settled(run, "live_pidfile_after_boot"):
            return watch.v, None, info
        for ev in sc["events"]:
            watch.event = ev
            before = srv.worker_pids()
            if ev == "ttou":
                srv.signal(signal.SIGTTOU)
                ok = watch.wait(lambda: len(srv.worker_pids()) == len(before) - 1 and
                                len([p for p in before if not e4.alive(p)]) == 1, 12)
            elif ev == "ttin":
                srv.signal(signal.SIGTTIN)
                ok = watch.wait(lambda: booted_workers(srv, len(before) + 1), 12)
            elif ev == "hup":
                srv.signal(signal.SIGHUP)
                # reload() reads the configuration file again: the pool is back at its configured size
                ok = watch.wait(lambda: all_gone(e4, before) and booted_workers(srv, srv.workers, exclude=before), 15)
            elif ev == "max_requests":
                r = e4.request(srv.addr, "/pid", timeout=5)
                info["request"] = r["outcome"]
                served = None
                if r["outcome"] == "ok" and b"pid=" in r["data"]:
                    served = int(e4.body_of(r["data"]).split(b"pid=")[1].split()[0])
                if served not in before:
                    return watch.v, "the request for the max_requests step was not served (%s)" % r["outcome"], info
                ok = watch.wait(lambda: not e4.alive(served) and booted_workers(srv, len(before), exclude=[served]), 12)
            elif ev == "kill":
                victim = before[0]
                srv.signal(signal.SIGKILL, victim)
                ok = watch.wait(lambda: not e4.alive(victim) and booted_workers(srv, len(before), exclude=[victim]), 12)
            elif ev == "timeout":
                # a request that never returns: the arbiter aborts the silent worker (SIGABRT -> sys.exit in the worker)
                import threading
                th = threading.Thread(target=e4.request, args=(srv.addr, "/block/t"), kwargs={"timeout": 20}, daemon=True)
                th.start()
                stuck = srv.wait_phase("blocking t", 8)
                if stuck is None:
                    return watch.v, "the blocking request for the timeout step did not reach a worker", info
                ok = watch.wait(lambda: not e4.alive(stuck) and booted_workers(srv, len(before), exclude=[stuck]), 15)
                if ok and any(e["kind"] == "worker_abort" and e["wpid"] == stuck for e in srv.events()):
                    run.count("live_worker_left_through_python")
            elif ev == "second_instance":
                # another master is started on the same pid file: it has to give up, and must not touch the file
                other = e4.Server("c17b", worker_class=wc, workers=1, bind="unix", settings={"graceful_timeout": 2, "timeout": 10})
                other.write_conf(pidfile=pidfile)
                other.start()
                # on_starting runs right after Arbiter.start() has created the pid file: seeing it means create() returned
                st = watch.wait(lambda: other.wait_exit(other.master_pid, 0.05) or
                                [e for e in other.events() if e["kind"] in ("on_starting", "when_ready")], 20)
                ok = isinstance(st, tuple)
                if isinstance(st, list):
                    watch.v.append(("live-second-instance-started-on-live-pidfile",
                                    "a second master (pid %d) got past its pid file check while the file named live master %d; file now: %r" % (
                                        other.master_pid, srv.master_pid, read_file(pidfile))))
                elif ok:
                    run.count("live_second_instance_refused")
                other.cleanup()
                other = None
                if watch.v:
                    return watch.v, None, info
                if not ok:
                    return watch.v, "the second instance neither exited nor started within 20 s", info
            else:
                raise ValueError(ev)
            info["events"].append((ev, bool(ok), srv.worker_pids()))
            if not ok:
                if watch.v:
                    return watch.v, None, info
                if not e4.alive(srv.master_pid):
                    return [("live-master-exited-without-cause", "during %s: %s" % (ev, srv.stderr()[-300:]))], None, info
                return watch.v, "the pool did not settle after %s (workers %s, before %s)" % (ev, srv.worker_pids(), before), info
            time.sleep(0.15)
            if not watch.settled(run, "live_pidfile_after_" + ev):
                return watch.v, None, info
            if ev in ("ttou", "hup", "max_requests"):
                run.count("live_worker_left_through_python")
        watch.event = "term"
        srv.signal(signal.SIGTERM)
        st = srv.wait_exit(srv.master_pid, 12)
        info["polls"] = watch.polls
        info["absent_polls"] = watch.absent_polls
        if st is None:
            return watch.v, "master did not exit within 12 s of SIGTERM", info
        time.sleep(0.1)
        d = read_file(pidfile)
        if d is not None:
            watch.v.append(("live-pidfile-left-after-stop", "master %d exited after SIGTERM (status %r) and left its pid file: %r" % (
                srv.master_pid, st[0], d[:60])))
        else:
            run.count("live_pidfile_removed_at_stop")
        return watch.v, None, info
    finally:
        if other is not None:
            other.cleanup()
        srv.cleanup()


def takeover(run, e4, sc):
    """The whole server dies by SIGKILL: the pid file stays behind naming a dead process; the next start on the same
    path must take it over."""
    wc = sc["class"]
    info = {}
    v = []
    srv = e4.Server("c17", worker_class=wc, workers=1, bind="unix", settings={"graceful_timeout": 2, "timeout": 10})
    pidfile = os.path.join(srv.dir, "master.pid")
    srv.write_conf(pidfile=pidfile)
    nxt = None
    try:
        srv.start()
        if not srv.wait_workers(1, 25):
            return [], "server did not boot: %s" % (srv.stderr()[-300:] or srv.error_log()[-300:]), info
        first = srv.master_pid
        if read_file(pidfile) != b"%d\n" % first:
            return [("live-pidfile-wrong-content/boot", "pid file holds %r, master is %d" % (read_file(pidfile), first))], None, info
        for p in [first] + srv.worker_pids():
            srv.signal(signal.SIGKILL, p)
        if srv.wait_exit(first, 10) is None:
            return [], "master survived SIGKILL?", info
        srv.cleanup(keep=True)
        if read_file(pidfile) != b"%d\n" % first or e4.alive(first):
            return [], "the stale pid file could not be established (%r)" % (read_file(pidfile),), info
        try:
            os.kill(first, 0)
            return [], "pid %d answers again (reused)" % first, info
        except ProcessLookupError:
            pass
        except OSError:
            return [], "pid %d answers again (reused)" % first, info
        nxt = e4.Server("c17n", worker_class=wc, workers=1, bind="unix", settings={"graceful_timeout": 2, "timeout": 10})
        nxt.write_conf(pidfile=pidfile)
        nxt.start()
        if not nxt.wait_workers(1, 25):
            if not e4.alive(nxt.master_pid) and not [e for e in nxt.events() if e["kind"] == "on_starting"]:
                # it gave up before on_starting, i.e. in Arbiter.start() where the pid file is created
                v.append(("live-stale-pidfile-not-taken-over", "the pid file named dead master %d; the next start exited: %s" % (
                    first, (nxt.stderr() or nxt.error_log())[-300:])))
                return v, None, info
            return [], "server did not boot: %s" % nxt.stderr()[-300:], info
        d = read_file(pidfile)
        if d != b"%d\n" % nxt.master_pid:
            v.append(("live-pidfile-wrong-content/takeover", "after taking over the stale file of %d the pid file holds %r, master is %d" % (
                first, d, nxt.master_pid)))
        else:
            run.count("live_stale_pidfile_taken_over")
        nxt.signal(signal.SIGTERM)
        if nxt.wait_exit(nxt.master_pid, 12) is not None:
            time.sleep(0.1)
            if read_file(pidfile) is not None:
                v.append(("live-pidfile-left-after-stop", "master %d exited after SIGTERM and left %r" % (nxt.master_pid, read_file(pidfile))))
        return v, None, info
    finally:
        if nxt is not None:
            nxt.cleanup()
        srv.cleanup()


class UpgradeWatch(Watch):
    """Two files while an upgrade is under way: <pidfile> belongs to the old master for as long as it runs,
    "<pidfile>.2" to the new one.  `poll`: <pidfile> absent or exactly the old master's pid; "<pidfile>.2" absent or a
    complete pid that is not the old master's (exactly the new master's once that is known)."""

    def __init__(self, e4, srv, path):
        super().__init__(e4, srv, path)
        self.new = None
        self.polls2 = 0

    def poll(self):
        d = super().poll()
        d2 = read_file(self.path + ".2")
        if d2 is not None:
            self.polls2 += 1
            ok = d2 != self.want and (d2 == b"%d\n" % self.new if self.new else d2.endswith(b"\n") and d2[:-1].isdigit())
            if not ok and not any(m.startswith("live-pidfile2") for m, _ in self.v):
                what = "names-old-master" if d2 == self.want else "wrong-content"
                self.v.append(("live-pidfile2-%s/%s" % (what, self.event),
                               "during %s \"%s.2\" held %r; old master %d (alive: %s), new master %s" % (
                                   self.event, os.path.basename(self.path), d2[:60], self.srv.master_pid,
                                   self.e4.alive(self.srv.master_pid), self.new)))
        return d


def stop_and_check(run, e4, srv, watch, pidfile, info):
    """TERM to the (old) master: it exits and its pid file is gone - unless another master has taken over meanwhile."""
    watch.event = "term"
    srv.signal(signal.SIGTERM)
    st = srv.wait_exit(srv.master_pid, 12)
    info["polls"], info["absent_polls"] = watch.polls, watch.absent_polls
    if st is None:
        return "master did not exit within 12 s of SIGTERM"
    time.sleep(0.1)
    others = [e["pid"] for e in srv.events() if e["kind"] == "when_ready" and e["pid"] != srv.master_pid and e4.alive(e["pid"])]
    d = read_file(pidfile)
    if others:
        info["masters_left"] = others          # an upgrade went through after all: the file is theirs now
    elif d is not None:
        watch.v.append(("live-pidfile-left-after-stop", "master %d exited after SIGTERM (status %r) and left its pid file: %r" % (
            srv.master_pid, st[0], d[:60])))
    else:
        run.count("live_pidfile_removed_at_stop")
    return None


def upgrade(run, e4, sc):
    """SIGUSR2 histories, see the module text. -> (violations, reason why nothing could be judged | None, info)"""
    from checks.c14 import find_new_master
    wc, hist = sc["class"], sc["history"]
    info = {"events": []}
    gt = 2
    settings = {"graceful_timeout": gt, "timeout": 10}
    if wc == "gthread":
        settings["threads"] = 2
    srv = e4.Server("c17u", worker_class=wc, workers=2, bind="unix", settings=settings)
    pidfile = os.path.join(srv.dir, "master.pid")
    srv.write_conf(pidfile=pidfile)
    start_dir = None
    if hist == "start-dir-gone":
        start_dir = os.path.join(srv.dir, "current")
        os.mkdir(start_dir, 0o755)
        srv.start_cwd = start_dir
        srv.env["PWD"] = start_dir                  # as a shell would have it
    try:
        srv.start()
        old = srv.master_pid
        before = srv.wait_workers(2, 25)
        if not before:
            return [], "server did not boot: %s" % (srv.stderr()[-300:] or srv.error_log()[-300:]), info
        watch = UpgradeWatch(e4, srv, pidfile)
        if not watch.settled(run, "live_pidfile_after_boot"):
            return watch.v, None, info
        if hist == "start-dir-gone":
            try:
                if os.readlink("/proc/%d/cwd" % old) != start_dir:
                    return [], "the master does not run in the start directory made for it", info
            except OSError:
                return [], "the master's working directory cannot be read", info
            if sc["how"] == "rmdir":
                os.rmdir(start_dir)
            else:
                os.rename(start_dir, start_dir + ".old")
            watch.event = "usr2-start-dir-gone"
            t0 = time.monotonic()
            srv.signal(signal.SIGUSR2)
            seen = set()

            def played_out():
                # the forked child: known from the pre_exec hook, or as a child of the master that is not a worker
                seen.update(e["pid"] for e in srv.events() if e["kind"] == "pre_exec")
                seen.update(p for p in srv.children_of(old) if p not in before)
                return time.monotonic() - t0 > 0.3 and seen and not any(e4.alive(p) for p in seen)
            # a child that unwinds into the master's code takes up to graceful_timeout to stop "its" workers
            quick = watch.wait(played_out, gt + 2.5)
            info["events"].append(("usr2-start-dir-gone", sc["how"], bool(quick), sorted(seen)))
            if "Handling signal: usr2" not in srv.error_log():
                return watch.v, "the master did not take the SIGUSR2", info
            if not e4.alive(old):
                return watch.v + [("live-master-exited-without-cause", "the master ended after a SIGUSR2 it could not carry out "
                                   "(start directory gone): %s" % srv.error_log()[-300:])], None, info
            time.sleep(0.15)
            run.count("live_upgrade_attempts_without_start_dir")
            if any(e["kind"] == "when_ready" and e["pid"] != old and e4.alive(e["pid"]) for e in srv.events()):
                info["new_master_started_anyway"] = True
            if not watch.settled(run, "live_pidfile_after_failed_upgrade"):
                return [(m, t + " | the start directory %s had been %s before SIGUSR2; log: %s" % (
                    start_dir, "removed" if sc["how"] == "rmdir" else "renamed",
                    [ln for ln in srv.error_log().splitlines() if "ERROR" in ln][-2:])) for m, t in watch.v], None, info
            now = srv.worker_pids(old)
            if all(p in now and e4.alive(p) for p in before):
                run.count("live_workers_untouched_by_failed_upgrade")
            else:
                watch.v.append(("live-failed-upgrade-stopped-running-workers",
                                "SIGUSR2 with the start directory gone: only the forked child could fail, yet the running master %d "
                                "lost its workers %s (now %s); log: %s" % (old, before, now, [
                                    ln for ln in srv.error_log().splitlines() if "ERROR" in ln][-2:])))
                return watch.v, None, info
        else:
            watch.event = "usr2"
            srv.signal(signal.SIGUSR2)
            new = find_new_master(e4, srv, old, set(before), timeout=20)
            if new is None or not srv.wait_workers(2, 20, master=new):
                return watch.v, "the upgrade did not produce a new master with workers: %s" % srv.error_log()[-300:], info
            watch.new = info["new_master"] = new
            watch.wait(lambda: read_file(pidfile + ".2") == b"%d\n" % new, 3)
            d2 = read_file(pidfile + ".2")
            if d2 != b"%d\n" % new and not watch.v:
                watch.v.append(("live-pidfile2-wrong-content/usr2", "old master %d and new master %d are running; \"%s.2\" holds %r" % (
                    old, new, os.path.basename(pidfile), d2)))
            if watch.v or not watch.settled(run, "live_pidfile_after_usr2"):
                return watch.v, None, info
            # SIGHUP to the new master while the old one lives
            watch.event = "hup-new-master"
            w_new = srv.worker_pids(new)
            srv.signal(signal.SIGHUP, new)
            ok = watch.wait(lambda: not e4.alive(new) or (all_gone(e4, w_new) and srv.wait_workers(2, 0.05, master=new)), 15)
            info["events"].append(("hup-new-master", bool(ok), "new master alive: %s" % e4.alive(new)))
            if not ok:
                return watch.v, "the new master neither reloaded nor exited within 15 s of SIGHUP", info
            run.count("live_new_master_gave_up_on_hup" if not e4.alive(new) else "live_new_master_reloaded")
            time.sleep(0.15)
            if not watch.settled(run, "live_pidfile_after_hup_to_new_master"):
                return watch.v, None, info
            if e4.alive(new):
                watch.event = "stop-new-master"
                srv.signal(signal.SIGQUIT if sc.get("then") == "quit" else signal.SIGTERM, new)
                if not watch.wait(lambda: not e4.alive(new), 12):
                    return watch.v, "the new master did not exit within 12 s", info
                time.sleep(0.15)
            else:
                watch.event = "new-master-gone"
                # the old master reaps it and carries on alone
                watch.wait(lambda: new not in e4.proc_table(), 5)
            if not watch.settled(run, "live_pidfile_after_new_master_gone"):
                return watch.v, None, info
            info["polls_of_pidfile2"] = watch.polls2
        reason = stop_and_check(run, e4, srv, watch, pidfile, info)
        return watch.v, reason, info
    finally:
        srv.cleanup()


# ---- one pid file, several spellings of its path ---------------------------------------------------------------------------

SPELLINGS = ("abs", "dirlink", "dot", "dslash", "dotdot", "rel", "filelink")


def spell(base, form, name="master.pid"):
    """A name of <base>/run/<name>.  <base>/run-link is a symbolic link to the directory run; `rel` is relative to the directory
    the master runs in (<base>); `filelink` is <base>/run/alias.pid, a symbolic link to master.pid in the same directory."""
    if form == "abs":
        return os.path.join(base, "run", name)
    if form == "dirlink":
        return os.path.join(base, "run-link", name)
    if form == "dot":
        return os.path.join(base, "run", ".", name)
    if form == "dslash":
        return os.path.join(base, "run") + "//" + name
    if form == "dotdot":
        return os.path.join(base, "run", "..", "run", name)
    if form == "rel":
        return os.path.join("run", name)
    if form == "filelink":
        return os.path.join(base, "run", "alias.pid")
    raise ValueError(form)


def respell(run, e4, sc):
    """See the module text. sc["chain"]: spellings; the master starts with the first, every further one is a SIGHUP after the
    setting was edited.  -> (violations, reason why nothing could be judged | None, info)"""
    wc, chain = sc["class"], sc["chain"]
    info = {"events": []}
    settings = {"graceful_timeout": 3, "timeout": 10}
    if wc == "gthread":
        settings["threads"] = 2
    srv = e4.Server("c17s", worker_class=wc, workers=2, bind="unix", settings=settings)
    base = srv.dir
    os.mkdir(os.path.join(base, "run"), 0o755)
    os.symlink("run", os.path.join(base, "run-link"))

    def full(name):                      # the configured name as the master (working directory <base>) resolves it
        return os.path.join(base, name)

    def same_file(a, b):
        return os.path.realpath(full(a)) == os.path.realpath(full(b))

    cur = spell(base, chain[0])
    srv.write_conf(pidfile=cur)
    try:
        srv.start()
        if not srv.wait_workers(2, 25):
            return [], "server did not boot: %s" % (srv.stderr()[-300:] or srv.error_log()[-300:]), info
        try:
            if os.readlink("/proc/%d/cwd" % srv.master_pid) != base:
                return [], "the master does not run in its scratch directory (relative names would mean something else)", info
        except OSError:
            return [], "the master's working directory cannot be read", info
        watch = Watch(e4, srv, full(cur))
        if not watch.settled(run, "live_pidfile_after_boot"):
            return watch.v, None, info
        form = chain[0]

        def second_instance():
            """A second server on another spelling of the configured file. -> reason why it could not be judged | None"""
            watch.event = "second-instance-other-spelling"
            here = os.path.realpath(full(cur))
            alt = os.path.join(base, "run" if form == "dirlink" else "run-link", os.path.basename(here))
            if os.path.realpath(alt) != here or alt == full(cur):
                return "no second spelling of %r" % cur
            o = e4.Server("c17t", worker_class=wc, workers=1, bind="unix", settings={"graceful_timeout": 2, "timeout": 10})
            try:
                o.write_conf(pidfile=alt)
                o.start()
                st = watch.wait(lambda: o.wait_exit(o.master_pid, 0.05) or
                                [e for e in o.events() if e["kind"] in ("on_starting", "when_ready")], 25)
                info["second_instance"] = (alt, "exited" if isinstance(st, tuple) else "started" if st else "neither")
                if isinstance(st, list):
                    watch.v.append(("live-second-instance-started-on-live-pidfile/other-spelling",
                                    "a second master (pid %d, pidfile = %r) got past its pid file check while master %d (pidfile = %r, the "
                                    "same file) was running; history of the first (setting before, after, ..): %s; file now: %r" % (
                                        o.master_pid, alt, srv.master_pid, cur, info["events"], read_file(here))))
                elif isinstance(st, tuple):
                    run.count("live_second_instance_refused_other_spelling")
                else:
                    return "the second instance neither exited nor started within 25 s"
            finally:
                o.cleanup()
            return None

        for form in chain[1:]:
            nxt = spell(base, form)
            if form == "filelink" and not os.path.islink(nxt):
                # the symbolic link to the pid file is put there before the setting is edited (an administrator's alias)
                target = os.path.basename(os.path.realpath(full(cur)))
                if target == "alias.pid":
                    return watch.v, "the chain names the link after the link was replaced", info
                os.symlink(target, nxt)
            same = same_file(cur, nxt)
            watch.event = "hup-respelled-%s" % form
            before = srv.worker_pids()
            n_reload = len([e for e in srv.events() if e["kind"] == "on_reload"])
            srv.write_conf(pidfile=nxt)
            # from here on the file is judged under both names' common meaning: while the reload runs it is absent or the master's
            watch.path = full(nxt)
            srv.signal(signal.SIGHUP)
            ok = watch.wait(lambda: all_gone(e4, before) and booted_workers(srv, srv.workers, exclude=before), 20)
            info["events"].append((cur, nxt, "same file" if same else "another file", bool(ok)))
            if not ok:
                if watch.v:
                    return watch.v, None, info
                if not e4.alive(srv.master_pid):
                    return [("live-master-exited-without-cause", "during the reload after `pidfile` was re-spelled from %r to %r: %s" % (
                        cur, nxt, (srv.stderr() or srv.error_log())[-300:]))], None, info
                return watch.v, "the pool did not settle after the reload (workers %s, before %s)" % (srv.worker_pids(), before), info
            if len([e for e in srv.events() if e["kind"] == "on_reload"]) != n_reload + 1:
                return watch.v, "the reload was not seen in the event log", info
            time.sleep(0.15)
            if not watch.settled(run, "live_pidfile_after_hup_respelled_same_file" if same else "live_pidfile_after_hup_moved"):
                v = [(m, t + " | `pidfile` was %r, edited to %r (%s), then SIGHUP; the reload had completed (workers %s replaced "
                      "by %s)" % (cur, nxt, "the same file" if same else "another file", before, srv.worker_pids()))
                     for m, t in watch.v]
                if e4.alive(srv.master_pid):
                    # what this means for exclusivity: a second starter on that file, while the master runs
                    cur, watch.v = nxt, []
                    second_instance()
                    v += watch.v
                return v, None, info
            cur = nxt
        reason = second_instance()
        if watch.v or reason:
            return watch.v, reason, info
        time.sleep(0.1)
        if not watch.settled(run, "live_pidfile_after_second_instance"):
            return watch.v, None, info
        reason = stop_and_check(run, e4, srv, watch, full(cur), info)
        return watch.v, reason, info
    finally:
        srv.cleanup()


EVENTS = ["ttou", "ttin", "hup", "kill", "second_instance"]


def plan(run, tier, seed):
    run.require("live_pidfile_after_boot", "live_pidfile_after_ttou", "live_pidfile_after_hup", "live_pidfile_after_max_requests",
                "live_pidfile_after_kill", "live_pidfile_after_timeout", "live_worker_left_through_python", "live_second_instance_refused",
                "live_pidfile_removed_at_stop", "live_stale_pidfile_taken_over",
                # upgrade histories
                "live_upgrade_attempts_without_start_dir", "live_pidfile_after_failed_upgrade",
                "live_workers_untouched_by_failed_upgrade", "live_pidfile_after_usr2", "live_pidfile_after_hup_to_new_master",
                "live_pidfile_after_new_master_gone",
                # one pid file, several spellings
                "live_pidfile_after_hup_respelled_same_file", "live_pidfile_after_hup_moved", "live_second_instance_refused_other_spelling")
    classes = ["sync", "gthread"] + (["gevent", "eventlet"] if tier == "thorough" else [])
    out = []
    for i, wc in enumerate(classes):
        # two masters per class so that every scenario stays short: signals / max_requests
        ev = list(EVENTS)
        if (seed + i) % 2:
            ev = ["hup", "ttou", "kill", "second_instance", "ttin"]
        out.append({"kind": "events", "class": wc, "events": ev})
        out.append({"kind": "events", "class": wc, "max_requests": True,
                    "events": (["max_requests", "ttou"] if (seed + i) % 2 == 0 else ["ttou", "max_requests", "hup"]) +
                    (["timeout"] if wc == "sync" else [])})         # (a gthread worker keeps notifying while a request blocks)
    out.append({"kind": "takeover", "class": classes[seed % 2]})
    if tier == "thorough":
        out.append({"kind": "takeover", "class": classes[(seed + 1) % 2]})
    # upgrade histories: one master each
    if tier == "thorough":
        for i, wc in enumerate(classes):
            for how in ("rmdir", "rename"):
                out.append({"kind": "upgrade", "history": "start-dir-gone", "class": wc, "how": how})
            out.append({"kind": "upgrade", "history": "hup-new-master", "class": wc, "then": ("term", "quit")[(seed + i) % 2]})
    else:
        out.append({"kind": "upgrade", "history": "start-dir-gone", "class": classes[seed % 2], "how": ("rmdir", "rename")[(seed // 2) % 2]})
        out.append({"kind": "upgrade", "history": "hup-new-master", "class": classes[(seed + 1) % 2], "then": ("term", "quit")[(seed // 2) % 2]})
    # one pid file, several spellings: two masters (thorough: two per class); between them every spelling is both left and taken up
    for j, wc in enumerate(classes if tier == "thorough" else classes[:2]):
        k = (seed + 2 * j) % 6
        forms = list(SPELLINGS[:6][k:] + SPELLINGS[:6][:k])
        if tier == "thorough":
            out.append({"kind": "respell", "class": wc, "chain": forms + [forms[0]]})
            out.append({"kind": "respell", "class": wc, "chain": [forms[3], forms[1], forms[5], "filelink", forms[2]]})
        elif (seed + j) % 2 == 0:
            out.append({"kind": "respell", "class": wc, "chain": forms[:4]})
        else:
            out.append({"kind": "respell", "class": wc, "chain": [forms[3], forms[4], forms[5], "filelink", forms[0]]})
    return [{"kind": "live", "scenario": dict(sc, idx=i), "seed": seed, "tier": tier} for i, sc in enumerate(out)]


def shard(run, sh):
    from vlib import e4_live as e4
    sc = sh["scenario"]
    reason, v, info = None, [], {}
    for attempt in range(3):
        v, reason, info = scenario(run, e4, sc)
        if reason is None or v:
            break
    what = [sc["history"], sc.get("how"), sc.get("then")] if sc["kind"] == "upgrade" else sc.get("events") or sc.get("chain")
    run.case(("live", sc["kind"], sc["class"], str(what), bool(sc.get("max_requests"))))
    run.count("live_scenarios")
    for mech, summary in v:
        run.violation(mech, summary + " | scenario=%s info=%s" % (sc, info), {"part": "live", "live": sc})
    if reason is not None and not v:
        run.inconclusive_because("live scenario %s: %s" % (sc["idx"], reason))
    if sc["kind"] == "events" and not sc.get("max_requests"):
        run.sample({"part": "live", "scenario": sc, "observed": info}, cap=1)


def replay_case(run, c):
    from vlib import e4_live as e4
    v, reason, info = scenario(run, e4, c["live"])
    print("info:", info, "inconclusive:", reason)
    return v
