"""C20 Workers always run with exactly the configured user and group.

Monitor (E4, needs real root): real servers configured with user / group / initgroups in several
spellings; for every worker of every generation (initial, respawned after kill -9, after HUP, after
TTIN, workers of a USR2-upgraded master) the harness reads /proc/<pid>/status (Uid, Gid, Groups) and
asks the application for the ids it saw at import time and at request time; the master's own ids,
the heartbeat (no WORKER TIMEOUT) and reachability through a unix socket are checked too.  Every history ends with the old
master retired, so that the upgraded side alone answers and reports its ids from inside.  Two directed histories: a worker whose
initgroups() is refused (EPERM) must not run application code with other groups than the configured user's, and a master that
found ./gunicorn.conf.py by itself (no -c), was moved to another directory by a reload introducing `chdir`, and is then upgraded.
Three short directed histories more: the whole server SIGKILLed and started again over the socket file it left behind (owner of the
re-created unix socket, a process with the configured ids can connect to it); a master that is itself started with the configured
group as its primary group (uid 0, supplementary groups of its own) with initgroups: initial and respawned workers; and
./gunicorn.conf.py found by itself setting `chdir` from the start, then HUP, HUP, kill -9 of a worker: every reloaded generation and
the respawned worker (judged through /proc even when the server hooks do not report them).
"""
import grp
import json
import os
import pwd
import signal
import time

from vlib import common
from vlib.common import Run, rng_for

PROP = "C20"
RULE = ("cell = (user spelling in {name, numeric string, int, absent}, group spelling in {name, numeric string, other group, "
        "absent}, initgroups on/off, worker class, bind tcp/unix, generation history initial -> kill -9 respawn -> HUP -> TTIN -> "
        "USR2 -> old master retired); directed histories: initgroups() refused with EPERM in the worker; configuration found as "
        "./gunicorn.conf.py, reload introducing chdir, then USR2; SIGKILL of the whole server and restart over the stale unix socket "
        "file; master started with gid = configured gid and foreign supplementary groups, initgroups on: initial + respawn; "
        "./gunicorn.conf.py setting chdir from the start: HUP, HUP, respawn; distinct = cell tuple; every cell with a user or group "
        "is non-trivial")

USERS = [("www-data", 33), ("33", 33), (33, 33), (None, None), ("nobody", 65534), ("54321", 54321), (54321, 54321)]   # 54321: no account
GROUPS = [("nogroup", 65534), ("65534", 65534), ("www-data", 33), (None, None), (33, 33),
          # ids are unsigned 32-bit numbers: the upper half of the range is as good as the lower
          (2147483648, 2147483648), ("4294967294", 4294967294)]
BIG_USER = (3000000000, 3000000000)        # no account either


def expected_groups(uid, gid):
    try:
        name = pwd.getpwuid(uid).pw_name
    except KeyError:
        return None         # a uid without an account has no supplementary groups to look up: not judged
    gs = set(g.gr_gid for g in grp.getgrall() if name in g.gr_mem)
    gs.add(gid)
    return sorted(gs)


def check_worker(run, e4, pid, want_uid, want_gid, initgroups, gen, v, master_groups):
    ids = e4.proc_ids(pid)
    if ids is None:
        return False
    run.count("worker_id_checks")
    run.count("generation/" + gen)
    if any(u != want_uid for u in ids["Uid"]):
        v.append(("worker-uid-wrong/" + gen, "worker %d (%s): Uid %s, configured %d" % (pid, gen, ids["Uid"], want_uid)))
    if any(g != want_gid for g in ids["Gid"]):
        mech = "worker-gid-wrong/" + gen
        v.append((mech, "worker %d (%s): Gid %s, configured %d (initgroups=%s)" % (pid, gen, ids["Gid"], want_gid, initgroups)))
    if initgroups and want_uid != 0 and master_groups:      # master_groups: True when both user and group are configured
        want = expected_groups(want_uid, want_gid)
        if want is None:
            run.count("uid_without_account_checks")
        elif sorted(ids["Groups"]) != want:
            v.append(("worker-supplementary-groups-wrong/" + gen, "worker %d: Groups %s, account database gives %s" % (
                pid, sorted(ids["Groups"]), want)))
        else:
            run.count("initgroups_group_checks")
    return True


def judge_app_ids(run, d, want_uid, want_gid, initgroups, both, v, label=""):
    """ids recorded by application code itself (at import = the first application code of the worker, and in the request)."""
    for when in ("import", "now"):
        ru = d[when]["ruid"]
        rg = d[when]["rgid"]
        if any(x != want_uid for x in ru) or any(x != want_gid for x in rg):
            v.append(("application-saw-wrong-ids/" + label + when, "application code of worker %s ran with resuid=%s resgid=%s (at %s), "
                      "configured %d:%d" % (d[when].get("pid"), ru, rg, when, want_uid, want_gid)))
            return False
        if initgroups and both and want_uid != 0:
            want = expected_groups(want_uid, want_gid)
            if want is not None and sorted(d[when]["groups"]) != want:
                v.append(("application-saw-wrong-groups/" + label + when, "application code of worker %s ran with supplementary groups %s "
                          "(at %s), the account database gives %s for the configured user and group" % (
                              d[when].get("pid"), sorted(d[when]["groups"]), when, want)))
                return False
            if want is not None:
                run.count("application_group_checks")
    return True


REFUSED_INITGROUPS_HOOK = r'''
def post_fork(server, worker):
    _ev("post_fork", age=worker.age, wpid=worker.pid)
    # a fault at one point of the privilege drop: this process is not allowed to change its supplementary groups (what a user
    # namespace with setgroups=deny or a seccomp policy does to setgroups()); setgid() and setuid() are untouched
    import errno as _errno
    def _refused(user, group):
        raise PermissionError(_errno.EPERM, "Operation not permitted (setgroups refused: injected by the harness)")
    _os.initgroups = _refused
'''


def refused_initgroups_scenario(run, e4, sc):
    """user + group + initgroups, and initgroups() fails with EPERM in every worker.  Whatever the server does about it (the
    unchanged one: the worker exits before loading the application and the master gives up), no worker may get as far as running
    application code with other supplementary groups than the configured user's."""
    v = []
    info = {}
    if os.geteuid() != 0:
        return v, "not running as root", info
    user, uid = sc["user"]
    group, gid = sc["group"]
    settings = {"graceful_timeout": 3, "timeout": 3, "user": user, "group": group, "initgroups": True}
    if sc["class"] == "gthread":
        settings["threads"] = 2
    srv = e4.Server("c20", worker_class=sc["class"], workers=2, settings=settings, bind=sc["bind"], conf_extra=REFUSED_INITGROUPS_HOOK)
    try:
        srv.start()
        master = srv.master_pid
        judged = set()
        forked = set()
        t0 = time.monotonic()
        asked = False
        while time.monotonic() - t0 < 8.0:
            srv.reap()
            evs = srv.events()
            forked |= set(e["wpid"] for e in evs if e["kind"] == "post_fork")
            inited = set(e["wpid"] for e in evs if e["kind"] == "post_worker_init")
            for p in srv.worker_pids():
                if p in inited and p not in judged:
                    # this worker has loaded the application
                    if check_worker(run, e4, p, uid, gid, True, "initgroups-refused", v, True):
                        judged.add(p)
            if judged and not asked:
                asked = True
                r = e4.request(srv.addr, "/ids", timeout=5)
                if r["outcome"] == "ok":
                    judge_app_ids(run, json.loads(e4.body_of(r["data"])[:-4]), uid, gid, True, True, v, "initgroups-refused-")
            if not e4.alive(master) or (judged and asked):
                break
            time.sleep(0.05)
        srv.reap()
        st = srv.statuses.get(master)
        info.update({"workers_forked": len(forked), "workers_that_loaded_the_application": len(judged),
                     "master_alive": e4.alive(master), "master_exit_status": None if st is None else st[0] >> 8})
        if not forked:
            return v, "no worker was forked: %s" % (srv.stderr()[-300:] + srv.error_log()[-300:]), info
        run.count("refused_initgroups_histories")
        if not judged:
            run.count("refused_initgroups_no_application_code_ran")
        return v, None, info
    finally:
        srv.cleanup()


def settled_workers(srv, e4, first_seen, master=None, age=1.5):
    """Workers that have reported post_worker_init, or - when the server hooks are not there to report (a generation that runs
    without the configuration file) - have been children of the master for `age` seconds: long past the privilege drop."""
    inited = set(e["wpid"] for e in srv.events() if e["kind"] == "post_worker_init")
    out = []
    now = time.monotonic()
    for p in srv.worker_pids(master):
        first_seen.setdefault(p, now)
        if p in inited or now - first_seen[p] >= age:
            out.append(p)
    return out


def connect_as(e4, addr, uid, gid):
    """Can a process with exactly these ids (no supplementary groups) connect to the unix socket?  -> None | error text"""
    rfd, wfd = os.pipe()
    pid = os.fork()
    if pid == 0:
        out = b""
        try:
            os.close(rfd)
            os.setgroups([])
            os.setgid(gid)
            os.setuid(uid)
            try:
                e4.connect(addr, 3).close()
            except OSError as ex:
                out = repr(ex).encode()
            os.write(wfd, out or b"ok")
        finally:
            os._exit(0)
    os.close(wfd)
    data = os.read(rfd, 4096)
    os.close(rfd)
    os.waitpid(pid, 0)
    return None if data == b"ok" else (data.decode(errors="replace") or "no report")


def restart_after_kill_scenario(run, e4, sc):
    """The whole server is SIGKILLed (the unix socket file stays behind) and started again on the same path: the new listening
    socket must again belong to the configured user and group, and the workers of the restarted server run with the configured
    ids like any others."""
    v, info = [], {}
    user, uid = sc["user"]
    group, gid = sc["group"]
    settings = {"graceful_timeout": 3, "timeout": 3, "user": user, "group": group, "umask": 0o007}
    if sc["class"] == "gthread":
        settings["threads"] = 2
    first = e4.Server("c20", worker_class=sc["class"], workers=2, settings=settings, bind="unix")
    nxt = None
    try:
        first.start()
        if not first.wait_workers(2, 25):
            return v, "workers did not boot: %s" % (first.stderr()[-300:] + first.error_log()[-300:]), info
        path = first.sockpath
        st = os.stat(path)
        info["owner_first_start"] = (st.st_uid, st.st_gid, oct(st.st_mode & 0o777))
        if (st.st_uid, st.st_gid) != (uid, gid):
            v.append(("unix-socket-owner-wrong", "first start: socket file owned by %d:%d, configured %d:%d" % (st.st_uid, st.st_gid, uid, gid)))
            return v, None, info
        # an unclean stop: everybody dies at once, nobody unlinks the socket file
        for p in [first.master_pid] + first.worker_pids():
            first.signal(signal.SIGKILL, p)
        if first.wait_exit(first.master_pid, 10) is None:
            return v, "the master survived SIGKILL?", info
        first.cleanup(keep=True)
        if not os.path.exists(path):
            return v, "the socket file did not stay behind", info
        run.count("restarts_over_a_stale_socket_file")
        nxt = e4.Server("c20", worker_class=sc["class"], workers=2, settings=settings, bind="unix")
        nxt.sockpath = nxt.addr = path
        nxt.bind = "unix:" + path
        nxt.write_conf()
        nxt.start()
        w = nxt.wait_workers(2, 25)
        if not w:
            if not e4.alive(nxt.master_pid):
                v.append(("server-does-not-start-over-stale-socket", "restart over the socket file of a killed server: the master exited: %s" % (
                    (nxt.stderr()[-400:] + nxt.error_log()[-400:]).strip().splitlines()[-4:])))
                return v, None, info
            return v, "workers did not boot after the restart: %s" % nxt.error_log()[-300:], info
        for p in w:
            check_worker(run, e4, p, uid, gid, False, "restart-after-kill", v, True)
        st = os.stat(path)
        info["owner_after_restart"] = (st.st_uid, st.st_gid, oct(st.st_mode & 0o777))
        if (st.st_uid, st.st_gid) != (uid, gid):
            v.append(("unix-socket-owner-wrong/restart-after-kill",
                      "the server was killed (SIGKILL, socket file left behind) and started again with user=%r group=%r umask=007: the new "
                      "socket file is owned by %d:%d mode %o, configured %d:%d (first start: %s); connecting as %d:%d -> %s" % (
                          user, group, st.st_uid, st.st_gid, st.st_mode & 0o777, uid, gid, info["owner_first_start"], uid, gid,
                          connect_as(e4, path, uid, gid) or "ok")))
            return v, None, info
        run.count("unix_socket_owner_checks_after_restart")
        err = connect_as(e4, path, uid, gid)
        if err:
            v.append(("unix-socket-unusable-for-configured-user/restart-after-kill", "socket %d:%d mode %o: a process running as %d:%d "
                      "cannot connect: %s" % (st.st_uid, st.st_gid, st.st_mode & 0o777, uid, gid, err)))
        else:
            run.count("unix_socket_connects_as_configured_user")
        r = e4.request(path, "/ids", timeout=5)
        if r["outcome"] != "ok":
            v.append(("worker-unreachable-after-privilege-drop", "after the restart: request -> %s %s" % (r["outcome"], r.get("err"))))
        else:
            judge_app_ids(run, json.loads(e4.body_of(r["data"])[:-4]), uid, gid, False, True, v, "restart-after-kill-")
        return v, None, info
    finally:
        if nxt is not None:
            nxt.cleanup()
        first.cleanup()


def master_in_group_scenario(run, e4, sc):
    """The master itself is started with the configured group as its primary group (uid 0, gid = the service group, supplementary
    groups of its own: `docker run --user 0:33`, a unit with Group= and no User=).  With initgroups the workers - initial and
    respawned - must end up with exactly the configured user's supplementary groups, not the master's."""
    v, info = [], {}
    user, uid = sc["user"]
    group, gid = sc["group"]
    mgroups = [0, 1, 4]
    settings = {"graceful_timeout": 3, "timeout": 3, "user": user, "group": group, "initgroups": True}
    if sc["class"] == "gthread":
        settings["threads"] = 2
    srv = e4.Server("c20", worker_class=sc["class"], workers=2, settings=settings, bind=sc["bind"])

    def as_group_member():
        os.setgroups(mgroups)
        os.setgid(gid)
    srv.preexec = as_group_member
    try:
        srv.start()
        master = srv.master_pid
        w = srv.wait_workers(2, 25)
        if not w:
            if not e4.alive(master):
                v.append(("server-does-not-start-with-this-identity", "master started as uid 0 gid %d groups %s with user=%r group=%r "
                          "initgroups: exited during boot: %s" % (gid, mgroups, user, group,
                                                                  (srv.stderr()[-400:] + srv.error_log()[-400:]).strip().splitlines()[-4:])))
                return v, None, info
            return v, "workers did not boot: %s" % srv.error_log()[-300:], info
        m0 = e4.proc_ids(master)
        info["master"] = m0
        if not m0 or set(m0["Gid"]) != {gid} or set(m0["Uid"]) != {0} or sorted(m0["Groups"]) != mgroups:
            return v, "the master does not run with the ids prepared for it: %s" % (m0,), info
        run.count("masters_started_in_the_configured_group")
        seen = set()

        def check_all(gen):
            inited = set(e["wpid"] for e in srv.events() if e["kind"] == "post_worker_init")
            for p in srv.worker_pids():
                if p not in seen and p in inited:
                    seen.add(p)
                    if check_worker(run, e4, p, uid, gid, True, gen, v, True):
                        run.count("workers_of_a_master_in_the_configured_group")
        check_all("initial/master-in-group")
        for _ in range(4):
            r = e4.request(srv.addr, "/ids", timeout=5)
            if r["outcome"] != "ok":
                v.append(("worker-unreachable-after-privilege-drop", "request over %s bind -> %s %s" % (sc["bind"], r["outcome"], r.get("err"))))
                break
            if not judge_app_ids(run, json.loads(e4.body_of(r["data"])[:-4]), uid, gid, True, True, v, "master-in-group-"):
                break
        victim = w[0]
        os.kill(victim, signal.SIGKILL)
        t0 = time.monotonic()
        while time.monotonic() - t0 < 10:
            ws = srv.worker_pids()
            if victim not in ws and len(ws) == 2:
                break
            time.sleep(0.05)
        srv.wait_workers(2, 10)
        check_all("respawn/master-in-group")
        m1 = e4.proc_ids(master)
        if m1 and (m1["Uid"] != m0["Uid"] or m1["Gid"] != m0["Gid"] or sorted(m1["Groups"]) != mgroups):
            v.append(("master-identity-changed", "master %d: %s, started as %s" % (master, m1, m0)))
        elif m1:
            run.count("master_identity_checks")
        info["workers_checked"] = len(seen)
        return v, None, info
    finally:
        srv.cleanup()


def default_conf_chdir_scenario(run, e4, sc):
    """user / group come from ./gunicorn.conf.py found in the start directory (no -c), and that file sets `chdir` to another
    directory FROM THE START.  Then SIGHUP, SIGHUP again, and a worker of the last generation killed: the workers of every
    reloaded generation, and the respawned one, run with the configured ids (judged through /proc once they report or have been
    there for 1.5 s: a generation that lost its configuration file also lost the hooks that report)."""
    v, info = [], {}
    user, uid = sc["user"]
    group, gid = sc["group"]
    settings = {"graceful_timeout": 3, "timeout": 10, "user": user, "group": group}
    if sc["initgroups"]:
        settings["initgroups"] = True
    if sc["class"] == "gthread":
        settings["threads"] = 2
    srv = e4.Server("c20", worker_class=sc["class"], workers=2, settings=settings, bind=sc["bind"], default_conf=True)
    appdir = os.path.join(srv.dir, "appdir")
    os.mkdir(appdir)
    os.chmod(appdir, 0o755)
    srv.write_conf(chdir=appdir)
    run.count("masters_started_on_the_discovered_default_conf")
    try:
        srv.start()
        master = srv.master_pid
        w = srv.wait_workers(2, 25)
        if not w:
            return v, "workers did not boot: %s" % (srv.stderr()[-300:] + srv.error_log()[-300:]), info
        try:
            info["master_cwd"] = os.path.basename(os.readlink("/proc/%d/cwd" % master))
        except OSError:
            info["master_cwd"] = None
        if info["master_cwd"] != "appdir":
            return v, "the master did not move into the configured chdir", info
        m0 = e4.proc_ids(master)
        seen, first_seen = set(), {}

        def check_all(gen):
            for p in settled_workers(srv, e4, first_seen):
                if p not in seen:
                    seen.add(p)
                    check_worker(run, e4, p, uid, gid, sc["initgroups"], gen, v, True)
        check_all("initial/chdir-in-default-conf")
        for n in (1, 2):
            old = set(srv.worker_pids())
            srv.signal(signal.SIGHUP)
            t0 = time.monotonic()
            done = False
            while time.monotonic() - t0 < 15 and not done:
                srv.reap()
                ws = srv.worker_pids()
                check_all("reload-%d/chdir-in-default-conf" % n)
                done = bool(ws) and not (set(ws) & old) and all(p in seen for p in ws)
                if not e4.alive(master):
                    v.append(("master-stopped-at-reload", "HUP #%d with ./gunicorn.conf.py setting chdir: the master exited: %s" % (
                        n, (srv.stderr()[-300:] + srv.error_log()[-300:]).strip().splitlines()[-3:])))
                    return v, None, info
                time.sleep(0.05)
            if not done:
                return v, "reload #%d did not replace the workers within 15 s (workers %s, before %s)" % (n, srv.worker_pids(), sorted(old)), info
            run.count("reloads_with_chdir_in_the_discovered_conf")
            if v:
                v[:] = [(m, t + " | HUP #%d of a master that found ./gunicorn.conf.py by itself (no -c); the file sets chdir=%s, user=%r, "
                         "group=%r; log: %s" % (n, "appdir", user, group, [ln for ln in (srv.error_log() + srv.stderr()).splitlines()
                                                                            if "Hang up" in ln or "rror" in ln][-3:])) for m, t in v]
                return v, None, info
        ws = srv.worker_pids()
        if ws:
            os.kill(ws[0], signal.SIGKILL)
            t0 = time.monotonic()
            while time.monotonic() - t0 < 10:
                srv.reap()
                check_all("respawn-after-reload/chdir-in-default-conf")
                now = srv.worker_pids()
                if ws[0] not in now and len(now) >= len(ws) and all(p in seen for p in now):
                    run.count("respawns_after_reload_with_chdir_in_the_discovered_conf")
                    break
                time.sleep(0.05)
        r = e4.request(srv.addr, "/ids", timeout=5)
        if r["outcome"] == "ok":
            judge_app_ids(run, json.loads(e4.body_of(r["data"])[:-4]), uid, gid, sc["initgroups"], True, v, "chdir-in-default-conf-")
        elif not v:
            v.append(("worker-unreachable-after-privilege-drop", "after two reloads: request over %s bind -> %s %s" % (
                sc["bind"], r["outcome"], r.get("err"))))
        m1 = e4.proc_ids(master)
        if m1 and (m1["Uid"] != m0["Uid"] or m1["Gid"] != m0["Gid"]):
            v.append(("master-identity-changed", "master %d: %s, started as %s" % (master, m1, m0)))
        elif m1:
            run.count("master_identity_checks")
        info["workers_checked"] = len(seen)
        return v, None, info
    finally:
        srv.cleanup()


DIRECTED = {"initgroups-refused": refused_initgroups_scenario, "restart-after-kill": restart_after_kill_scenario,
            "master-in-group": master_in_group_scenario, "chdir-in-default-conf": default_conf_chdir_scenario}


def run_scenario(run, e4, sc):
    if sc.get("kind") in DIRECTED:
        if os.geteuid() != 0:
            return [], "not running as root", {}
        return DIRECTED[sc["kind"]](run, e4, sc)
    v = []
    info = {}
    if os.geteuid() != 0:
        return v, "not running as root", info
    wc = sc["class"]
    user, uid = sc["user"]
    group, gid = sc["group"]
    settings = {"graceful_timeout": 3, "timeout": 3}
    source = sc.get("source", "file")
    opts = []
    if user is not None:
        if source == "file":
            settings["user"] = user
        else:
            opts += ["--user", str(user)]
    if group is not None:
        if source == "file":
            settings["group"] = group
        else:
            opts += ["--group", str(group)]
    if sc["initgroups"]:
        if source == "file":
            settings["initgroups"] = True
        else:
            opts += ["--initgroups"]
    if wc == "gthread":
        settings["threads"] = 2
    both = user is not None and group is not None
    want_uid = uid if uid is not None else os.geteuid()
    want_gid = gid if gid is not None else os.getegid()
    sock_gid = want_gid         # the listening socket is created (and chowned) once, when the master starts
    srv = e4.Server("c20", worker_class=wc, workers=2, settings=settings, bind=sc["bind"],
                    env={"GUNICORN_CMD_ARGS": " ".join(opts)} if (source == "env" and opts) else None,
                    argv_extra=opts if source == "cli" else None, default_conf=bool(sc.get("default_conf")))
    if sc.get("default_conf"):
        run.count("masters_started_on_the_discovered_default_conf")
    pidfile = os.path.join(srv.dir, "m.pid")
    srv.write_conf(pidfile=pidfile)
    try:
        srv.start()
        master = srv.master_pid
        w = srv.wait_workers(2, 25)
        if not w:
            err = srv.stderr()[-600:] + srv.error_log()[-600:]
            if not e4.alive(master):
                v.append(("server-does-not-start-with-this-identity",
                          "user=%r group=%r initgroups=%s: master exited during boot: %s" % (
                              user, group, sc["initgroups"], err.strip().splitlines()[-6:])))
                return v, None, info
            return v, "workers did not boot: %s" % err[-300:], info
        m_ids0 = e4.proc_ids(master)
        seen = set()

        def check_all(gen, master_pid=None):
            ws = srv.worker_pids(master_pid or master)
            # a freshly forked worker still has the master's identity until init_process() drops it; judge a worker
            # once it reports post_worker_init (the drop precedes loading the application)
            inited = set(e["wpid"] for e in srv.events() if e["kind"] == "post_worker_init")
            for p in ws:
                if p not in seen and p in inited:
                    seen.add(p)
                    check_worker(run, e4, p, want_uid, want_gid, sc["initgroups"], gen, v, both)
            return ws

        check_all("initial")
        # ids as seen by application code (import time = first application code of a non-preloaded worker)
        app_pids = set()
        for _ in range(8):
            r = e4.request(srv.addr, "/ids", timeout=5)
            if r["outcome"] != "ok":
                v.append(("worker-unreachable-after-privilege-drop", "request over %s bind -> %s %s" % (
                    sc["bind"], r["outcome"], r.get("err"))))
                break
            d = json.loads(e4.body_of(r["data"])[:-4])
            app_pids.add(d["now"]["pid"])
            judge_app_ids(run, d, want_uid, want_gid, sc["initgroups"], both, v)
            run.count("application_id_checks")
        # generation: respawn after kill -9
        victim = w[0]
        os.kill(victim, signal.SIGKILL)
        t0 = time.monotonic()
        while time.monotonic() - t0 < 10:
            ws = srv.worker_pids()
            if victim not in ws and len(ws) == 2:
                break
            time.sleep(0.05)
        srv.wait_workers(2, 10)
        check_all("respawn")
        # generation: HUP
        if sc.get("reload_group"):
            # the reload changes the group (same user): the new generation runs with the new one and, with initgroups, with
            # the supplementary groups that go with it
            new_group, new_gid = sc["reload_group"]
            srv.write_conf(group=new_group)
            want_gid = new_gid
            run.count("reloads_changing_the_group")
        if sc.get("reload_chdir"):
            # the reload introduces `chdir` (a deployment that moves from "the start directory" to an application directory):
            # from now on the master's working directory is not the one it was started in
            appdir = os.path.join(srv.dir, "appdir")
            os.mkdir(appdir)
            os.chmod(appdir, 0o755)
            srv.write_conf(chdir=appdir)
        srv.signal(signal.SIGHUP)
        t0 = time.monotonic()
        while time.monotonic() - t0 < 15:
            ws = srv.worker_pids()
            if len(ws) == 2 and not (set(ws) & seen):
                break
            check_all("reload")
            time.sleep(0.05)
        srv.wait_workers(2, 10)
        check_all("reload")
        if sc.get("reload_chdir"):
            try:
                info["master_cwd_after_reload"] = os.path.basename(os.readlink("/proc/%d/cwd" % master))
            except OSError:
                info["master_cwd_after_reload"] = None
            if info["master_cwd_after_reload"] != "appdir":
                return v, "the reload did not move the master into the new chdir: %s" % srv.error_log()[-300:], info
            run.count("reloads_moving_the_working_directory")
        # generation: TTIN
        srv.signal(signal.SIGTTIN)
        srv.wait_workers(3, 10)
        check_all("ttin")
        # heartbeat keeps working with the dropped identity: nobody is killed for inactivity
        time.sleep(sc.get("heartbeat_watch", 4.0))
        if "WORKER TIMEOUT" in srv.error_log():
            v.append(("worker-killed-for-missing-heartbeat", "WORKER TIMEOUT logged with timeout=3 and idle workers "
                      "(heartbeat file not writable after the privilege drop?)"))
        else:
            run.count("heartbeat_checks")
        if sc.get("bad_reload"):
            # a reload that finds a broken configuration file (an unrelated setting with a value its validator refuses, above
            # everything else): whatever the server does about it, nothing it starts afterwards may run with other ids
            with open(srv.conf_path) as f:
                conf = f.read()
            with open(srv.conf_path + ".tmp", "w") as f:
                f.write("keepalive = 'not-a-number'\n" + conf)
            os.rename(srv.conf_path + ".tmp", srv.conf_path)
            srv.signal(signal.SIGHUP)
            t0 = time.monotonic()
            first_seen = {}

            def check_settled():
                # the server hooks that report a worker's start may be gone with the configuration: a worker that has been
                # there for 1.5 s has long passed the point where it takes on its identity
                for p in srv.worker_pids():
                    first_seen.setdefault(p, time.monotonic())
                    if p not in seen and time.monotonic() - first_seen[p] >= 1.5:
                        seen.add(p)
                        check_worker(run, e4, p, want_uid, want_gid, sc["initgroups"], "after-refused-reload", v, both)

            while time.monotonic() - t0 < 6:
                if not e4.alive(master):
                    break
                check_all("after-refused-reload")
                check_settled()
                time.sleep(0.1)
            run.count("refused_reload_histories")
            info["master_survived_bad_reload"] = e4.alive(master)
            if e4.alive(master):
                # kill a worker: what is spawned now?
                ws = srv.worker_pids()
                if ws:
                    try:
                        os.kill(ws[0], signal.SIGKILL)
                    except OSError:
                        pass
                    t1 = time.monotonic()
                    while time.monotonic() - t1 < 4.0:
                        check_all("after-refused-reload")
                        check_settled()
                        time.sleep(0.1)
            info["workers_checked"] = len(seen)
            return v, None, info
        # generation: USR2
        old_workers = set(srv.worker_pids())
        srv.signal(signal.SIGUSR2)
        new = None
        silent = False
        t0 = time.monotonic()
        while time.monotonic() - t0 < 15 and new is None:
            ready = set(e["pid"] for e in srv.events() if e["kind"] == "when_ready")
            table = e4.proc_table()
            for p in srv.children_of(master, table):
                if p == master or p in old_workers:
                    continue
                if p in ready:
                    new = p
                elif srv.children_of(p, table):
                    # a child of the master that has children of its own is a master too (workers do not fork), although
                    # it reported nothing through the configured server hooks (they are called before the first fork)
                    new, silent = p, True
            time.sleep(0.05)
        if new is None:
            return v, "USR2 did not produce a new master: %s" % srv.error_log()[-300:], info
        if silent:
            info["upgraded_master_runs_without_the_configured_hooks"] = True
        else:
            srv.wait_workers(3, 15, master=new)
        inited = set(e["wpid"] for e in srv.events() if e["kind"] == "post_worker_init")
        for p in srv.worker_pids(new):
            if p not in seen and p in inited:
                seen.add(p)
                check_worker(run, e4, p, want_uid, want_gid, sc["initgroups"], "upgrade", v, both)
        # masters keep their own identity
        for mp, label in ((master, "old"), (new, "new")):
            ids = e4.proc_ids(mp)
            if ids and (ids["Uid"] != m_ids0["Uid"] or ids["Gid"] != m_ids0["Gid"]):
                v.append(("master-identity-changed", "%s master %d: Uid %s Gid %s, started as Uid %s Gid %s" % (
                    label, mp, ids["Uid"], ids["Gid"], m_ids0["Uid"], m_ids0["Gid"])))
            elif ids:
                run.count("master_identity_checks")
        if sc["bind"] == "unix":
            st = os.stat(srv.sockpath)
            if (st.st_uid, st.st_gid) != (want_uid, sock_gid):
                v.append(("unix-socket-owner-wrong", "socket file owned by %d:%d, configured %d:%d" % (
                    st.st_uid, st.st_gid, want_uid, sock_gid)))
            else:
                run.count("unix_socket_owner_checks")
        r = e4.request(srv.addr, "/pid", timeout=5)
        if r["outcome"] != "ok":
            v.append(("worker-unreachable-after-privilege-drop", "final probe -> %s" % r["outcome"]))
        # the old master is retired: from now on only workers of the upgraded master answer, and each answer carries the ids
        # that worker's application code saw when it was imported and sees now (a worker that answers has run application code,
        # whether or not the server hooks reported it)
        srv.signal(signal.SIGTERM, master)
        if srv.wait_exit(master, 10) is None:
            return v, "the old master did not stop within 10 s of TERM", info
        answered = set()
        misjudged = set()
        for _ in range(6):
            r = e4.request(srv.addr, "/ids", timeout=5)
            if r["outcome"] != "ok":
                if not v:
                    return v, "upgraded side not reachable after the old master stopped: %s %s" % (r["outcome"], r.get("err")), info
                break
            d = json.loads(e4.body_of(r["data"])[:-4])
            p = d["now"]["pid"]
            if p not in srv.worker_pids(new):
                continue            # a worker of the old master finishing (it was told to stop)
            answered.add(p)
            if p not in misjudged and not judge_app_ids(run, d, want_uid, want_gid, sc["initgroups"], both, v, "upgrade-"):
                misjudged.add(p)
            if p not in seen:
                seen.add(p)
                check_worker(run, e4, p, want_uid, want_gid, sc["initgroups"], "upgrade", v, both)
            run.count("application_id_checks_after_upgrade")
        ids = e4.proc_ids(new)
        if ids and (ids["Uid"] != m_ids0["Uid"] or ids["Gid"] != m_ids0["Gid"]):
            v.append(("master-identity-changed", "promoted master %d: Uid %s Gid %s, started as Uid %s Gid %s" % (
                new, ids["Uid"], ids["Gid"], m_ids0["Uid"], m_ids0["Gid"])))
        info["workers_checked"] = len(seen)
        info["upgraded_workers_that_answered"] = len(answered)
        if sc.get("reload_chdir") and answered:
            run.count("upgrades_after_the_working_directory_moved")
        return v, None, info
    finally:
        srv.cleanup()


def scenarios(tier, seed):
    rng = rng_for(seed, "c20")
    out = []
    classes = ["sync", "gthread", "gevent", "eventlet"]
    cells = []
    for u in USERS:
        for g in GROUPS:
            for ig in (False, True):
                if u[0] is None and g[0] is None and ig:
                    continue
                cells.append((u, g, ig))
    rng.shuffle(cells)
    n = 14 if tier == "quick" else len(cells)
    # always include the canonical cells
    must = [(("www-data", 33), ("nogroup", 65534), True), (("www-data", 33), ("nogroup", 65534), False),
            ((None, None), ("nogroup", 65534), True), (("33", 33), (None, None), False),
            (("www-data", 33), GROUPS[5 + seed % 2], bool(seed % 2)), (BIG_USER, GROUPS[6 - seed % 2], True)]
    chosen = must + [c for c in cells if c not in must][:max(0, n - len(must))]
    for i, (u, g, ig) in enumerate(chosen):
        out.append({"user": list(u), "group": list(g), "initgroups": ig, "class": classes[i % 4],
                    "bind": "unix" if i % 2 else "tcp", "idx": i, "source": ["file", "env", "cli", "file"][(i + i // 4) % 4]})
    # histories in which the configuration changes under a running master
    n0 = len(out)
    out.append({"user": ["www-data", 33], "group": ["nogroup", 65534], "initgroups": True, "class": classes[seed % 4], "bind": "tcp",
                "idx": n0, "source": "file", "reload_group": rng.choice([["daemon", 1], ["www-data", 33], ["1", 1]])})
    out.append({"user": ["nobody", 65534], "group": ["www-data", 33], "initgroups": rng.random() < 0.5, "class": classes[(seed + 1) % 4],
                "bind": "unix", "idx": n0 + 1, "source": "file", "reload_group": ["nogroup", 65534]})
    out.append({"user": ["www-data", 33], "group": ["nogroup", 65534], "initgroups": rng.random() < 0.5, "class": classes[(seed + 2) % 4],
                "bind": "tcp", "idx": n0 + 2, "source": "file", "bad_reload": True})
    out.append({"user": [54321, 54321], "group": ["nogroup", 65534], "initgroups": True, "class": classes[(seed + 3) % 4],
                "bind": "unix", "idx": n0 + 3, "source": rng.choice(["file", "cli"])})
    # the configuration (user, group) comes from ./gunicorn.conf.py found in the start directory (no -c); the reload introduces
    # `chdir`, so the master that is upgraded afterwards no longer sits in the directory it was started in
    u, g = rng.choice([(["www-data", 33], ["nogroup", 65534]), (["nobody", 65534], ["www-data", 33]), (["33", 33], ["65534", 65534])])
    out.append({"user": u, "group": g, "initgroups": rng.random() < 0.5, "class": classes[(seed + 2) % 4],
                "bind": rng.choice(["tcp", "unix"]), "idx": n0 + 4, "source": "file", "default_conf": True, "reload_chdir": True,
                "heartbeat_watch": 0.5})
    # initgroups() refused (EPERM) in every worker
    u, g = rng.choice([(["www-data", 33], ["nogroup", 65534]), (["nobody", 65534], ["nogroup", 65534]), (["nobody", 65534], ["www-data", 33])])
    out.append({"kind": "initgroups-refused", "user": u, "group": g, "initgroups": True, "class": classes[(seed + 1) % 4],
                "bind": rng.choice(["tcp", "unix"]), "idx": n0 + 5, "source": "file"})
    # directed histories added after seeded round 4 (short: one or two generations each)
    pairs = [(["www-data", 33], ["www-data", 33]), (["nobody", 65534], ["nogroup", 65534]), (["33", 33], ["33", 33]),
             (["www-data", 33], ["nogroup", 65534])]
    k = n0 + 6
    for i, wc in enumerate(classes if tier != "quick" else [classes[(seed + 3) % 4]]):
        u, g = pairs[(seed + i) % 4]
        out.append({"kind": "restart-after-kill", "user": u, "group": g, "initgroups": False, "class": wc, "bind": "unix", "idx": k,
                    "source": "file"})
        k += 1
    for i, wc in enumerate(classes if tier != "quick" else [classes[seed % 4]]):
        # (accounts whose own group is the configured one: the master's primary group equals the configured gid)
        u, g = [(["www-data", 33], ["www-data", 33]), (["nobody", 65534], ["nogroup", 65534]), (["33", 33], [33, 33])][(seed + i) % 3]
        out.append({"kind": "master-in-group", "user": u, "group": g, "initgroups": True, "class": wc,
                    "bind": "unix" if (seed + i) % 2 else "tcp", "idx": k, "source": "file"})
        k += 1
    for i, wc in enumerate(classes if tier != "quick" else [classes[(seed + 1) % 4]]):
        u, g = pairs[(seed + i + 1) % 4]
        out.append({"kind": "chdir-in-default-conf", "user": u, "group": g, "initgroups": bool((seed + i) % 2), "class": wc,
                    "bind": "tcp" if (seed + i) % 2 else "unix", "idx": k, "source": "file", "default_conf": True})
        k += 1
    if tier != "quick":
        n0 = k - 6
        for i, wc in enumerate(classes):
            out.append({"kind": "initgroups-refused", "user": ["www-data", 33], "group": ["nogroup", 65534], "initgroups": True,
                        "class": wc, "bind": "unix" if i % 2 else "tcp", "idx": n0 + 6 + i, "source": "file"})
            out.append({"user": ["www-data", 33], "group": ["nogroup", 65534], "initgroups": bool(i % 2), "class": wc,
                        "bind": "tcp" if i % 2 else "unix", "idx": n0 + 10 + i, "source": "file", "default_conf": True,
                        "reload_chdir": True, "heartbeat_watch": 0.5})
    return out


def shard(sh):
    from vlib import e4_live as e4
    run = Run(PROP, sh.get("tier", "quick"), sh["seed"], "exploration", RULE)
    sc = sh["scenario"]
    reason = None
    for attempt in range(2):
        v, reason, info = run_scenario(run, e4, sc)
        if reason is None or v:
            break
    run.case(json.dumps({k: sc.get(k) for k in ("user", "group", "initgroups", "class", "bind", "source", "kind", "default_conf")}, sort_keys=True),
             nontrivial=sc["user"][0] is not None or sc["group"][0] is not None)
    run.count("scenarios")
    run.count("class/" + sc["class"])
    run.count("source/" + sc.get("source", "file"))
    if sc["initgroups"]:
        run.count("initgroups_scenarios")
    if reason is None and any(isinstance(x, int) and x >= 2 ** 31 for x in (sc["user"][1], sc["group"][1])):
        run.count("scenarios_with_ids_in_the_upper_half_of_the_range")
    for mech, summary in v:
        run.violation(mech, summary + " | cell=%s" % {k: sc[k] for k in ("user", "group", "initgroups", "class", "bind")}, sc)
    if reason is not None and not v:
        if "scheduling lag" in reason:
            run.count("cells_skipped_for_scheduling_lag")      # measured lag made the wall-clock judgement unsafe, three times
        else:
            run.inconclusive_because("scenario %s: %s" % (sc["idx"], reason))
    run.sample({"cell": {k: sc[k] for k in ("user", "group", "initgroups", "class", "bind")}, "observed": info}, cap=3)
    return run


def plan(tier, seed):
    return [{"scenario": sc, "seed": seed, "tier": tier} for sc in scenarios(tier, seed)]


def main(tier, seed):
    run = Run(PROP, tier, seed, "exploration", RULE)
    if os.geteuid() != 0:
        run.inconclusive_because("precondition: effective uid 0 is needed to observe privilege dropping")
        return run.finish()
    try:
        pwd.getpwnam("www-data"), grp.getgrnam("nogroup")
    except KeyError:
        run.inconclusive_because("precondition: accounts www-data / nogroup are missing")
        return run.finish()
    run.require("scenarios", "scenarios_with_ids_in_the_upper_half_of_the_range", "worker_id_checks", "generation/initial", "generation/respawn", "generation/reload", "generation/ttin",
                "generation/upgrade", "application_id_checks", "initgroups_group_checks", "heartbeat_checks",
                "master_identity_checks", "unix_socket_owner_checks", "class/sync", "class/gthread", "class/gevent",
                "class/eventlet", "source/file", "source/env", "source/cli", "reloads_changing_the_group", "refused_reload_histories",
                "uid_without_account_checks", "application_group_checks", "application_id_checks_after_upgrade",
                "masters_started_on_the_discovered_default_conf", "reloads_moving_the_working_directory",
                "upgrades_after_the_working_directory_moved", "refused_initgroups_histories",
                # directed histories: restart over the socket file of a killed server; master started in the configured group;
                # chdir set by the discovered ./gunicorn.conf.py from the start, then two reloads and a respawn
                "restarts_over_a_stale_socket_file", "unix_socket_owner_checks_after_restart", "unix_socket_connects_as_configured_user",
                "generation/restart-after-kill", "masters_started_in_the_configured_group",
                "workers_of_a_master_in_the_configured_group", "generation/initial/master-in-group",
                "generation/respawn/master-in-group", "reloads_with_chdir_in_the_discovered_conf",
                "generation/reload-1/chdir-in-default-conf", "generation/reload-2/chdir-in-default-conf",
                "respawns_after_reload_with_chdir_in_the_discovered_conf")
    shards = plan(tier, seed)
    run.assumptions = [
        "without initgroups the supplementary groups are not judged (the statement specifies them only with initgroups)",
        "when only one of user/group is configured the other is the master's own effective id (the setting's default)",
        "needs real root and the accounts www-data(33), nobody(65534), group nogroup(65534)",
        "restart-after-kill: the socket file is judged by stat() (uid:gid = configured ids, as in the upgrade histories) with umask 007; "
        "that a process with exactly the configured ids can connect is checked in addition",
        "master-in-group: the master is started through a preexec function doing setgroups([0, 1, 4]); setgid(configured gid) (uid stays "
        "0); the workers' Groups must equal the account database's list for the configured user plus the configured gid",
        "chdir-in-default-conf: a worker is judged once it reports post_worker_init or has been a child of the master for 1.5 s "
        "(a generation started without the configuration file has no hooks that could report)",
        "a refused initgroups() is produced by a post_fork hook of the configuration file that replaces os.initgroups in the worker by a function raising PermissionError(EPERM); setgid()/setuid() are the real ones",
    ]
    common.run_sharded(run, shards, timeout=900 if tier == "quick" else 3600, nproc=min(12, common.NCPU))
    return run.finish()


def replay(path):
    from vlib import e4_live as e4
    with open(path) as f:
        rec = json.load(f)
    run = Run(PROP, "quick", 0, "exploration", RULE)
    v, reason, info = run_scenario(run, e4, rec["case"])
    print("info:", info, "inconclusive:", reason)
    for mech, s in v:
        print("VIOLATION property=%s replay=%s\n  %s %s" % (PROP, path, mech, s))
    if not v:
        print("no violation on replay")
    return 1 if v else 0
