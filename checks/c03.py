"""C03 The master keeps exactly the configured number of live workers.

Deciding monitor: the real Arbiter.run() on the simulated kernel (E3) through generated histories
of worker deaths / TTIN / TTOU / HUP, under sampled or enumerated points at which a child death
(SIGCHLD) happens relative to the master's own fork/kill/wait calls and source lines.  A reference
pool model and invariants are evaluated at quiescence and at every kill/fork/reap.
A live sub-tier (E4) replays a few histories against a real master (when built).
"""
import json
import signal

from vlib import common
from vlib.common import Run, rng_for

PROP = "C03"
RULE = ("case = (history of 1-12 events from {worker exit with status 0/1/3/4/255 or by signal KILL/TERM/SEGV/ABRT/unnamed and real-time signals, with and without the core-dump flag, TTIN, "
        "TTOU, HUP with a new worker count}, inter-event gaps {0, <1 tick, several ticks}, initial workers 1-4, timeout in "
        "{0,2,30}, worker policies (dies right after fork, ignores TERM, slow TERM), SIGCHLD schedule = tuple of injection "
        "points at which deaths happened), plus a directed class (a fresh worker dies 0-4 injection points after fork() returned, "
        "timeout > 0) and live scenarios against real masters; distinct = (history sha1, delivery-point tuple); non-trivial = >= 1 event")

TERM = int(signal.SIGTERM)


def gen_scenario(rng, small=False):
    workers = rng.randint(1, 4)
    timeout = rng.choice([0, 2, 30, 30])
    graceful = rng.choice([1, 3])
    n = rng.randint(1, 4 if small else 12)
    events = []
    t = rng.choice([0.0, 0.5, 1.5])
    boot_fail = False
    for _ in range(n):
        k = rng.random()
        if k < 0.45:
            ev = {"type": "worker_exit", "which": rng.randint(0, 5)}
            if rng.random() < 0.5:
                # (also signals that have no name - 32, 33, the real-time range - and wait statuses with the core-dump flag set)
                ev["signal"] = rng.choice([9, 15, 11, 6, 3, 4, 1, 2, 7, 10, 9, 15, 35, 64, 32, 34, 11 | 0x80, 6 | 0x80, 3 | 0x80])
            else:
                ev["status"] = rng.choice([0, 1, 1, 255, 3, 4] if rng.random() < 0.25 else [0, 1, 255])
                if ev["status"] in (3, 4):
                    boot_fail = True
        elif k < 0.65:
            ev = {"type": "signal", "sig": "TTIN"}
        elif k < 0.85:
            ev = {"type": "signal", "sig": "TTOU"}
        else:
            ev = {"type": "signal", "sig": "HUP", "new_workers": rng.randint(1, 4)}
        t += rng.choice([0.0, 0.0, 0.3, 0.7, 2.5, 4.0])
        ev["at"] = round(t, 2)
        events.append(ev)
    flood = False
    if rng.random() < 0.12:
        # burst of more signals than the arbiter's 5-slot queue holds, together with a worker death
        flood = True
        t += rng.choice([0.0, 0.4, 1.3])
        for _ in range(rng.randint(6, 9)):
            events.append({"type": "signal", "sig": rng.choice(["TTIN", "TTIN", "TTOU"]), "at": round(t, 2)})
        events.insert(len(events) - rng.randint(0, 3), {"type": "worker_exit", "which": rng.randint(0, 3),
                                                        "signal": 9, "at": round(t, 2)})
    default_policy = {"term_delay": rng.choice([0.0, 0.3, 1.5])}
    spawn_policy = {}
    for i in range(rng.choice([0, 0, 1, 2])):
        idx = rng.randint(0, 8)
        kind = rng.choice(["die_now", "die_soon", "ignore_term", "boot_fail", "slow_boot", "slow_boot"])
        if kind == "die_now":
            spawn_policy[str(idx)] = {"die_after": 0.0, "die_status": rng.choice([0, 1, 255])}
        elif kind == "die_soon":
            spawn_policy[str(idx)] = {"die_after": rng.choice([0.05, 0.5, 1.2]), "die_signal": rng.choice([9, 11])}
        elif kind == "ignore_term":
            spawn_policy[str(idx)] = {"ignore_term": True}
        elif kind == "slow_boot":
            spawn_policy[str(idx)] = {"boot_time": rng.choice([0.5, 1.5, 2.5])}
        elif rng.random() < 0.3:
            spawn_policy[str(idx)] = {"die_after": rng.choice([0.0, 0.2]), "die_status": rng.choice([3, 4])}
            boot_fail = True
    W = timeout + graceful + 6 + default_policy["term_delay"]
    final = rng.choice(["none", "none", "TERM", "INT", "QUIT"])
    if final != "none":
        events.append({"type": "signal", "sig": final, "at": round(t + W, 2)})
        events.append({"type": "end", "at": round(t + 2 * W + 2, 2)})
    else:
        events.append({"type": "end", "at": round(t + W, 2)})
    return {"workers": workers, "timeout": timeout, "graceful_timeout": graceful, "events": events,
            "default_policy": default_policy, "spawn_policy": spawn_policy, "final": final, "flood": flood,
            "reuse_port": rng.random() < 0.12,
            "max_ticks": 300 + int(40 * t)}


PHANTOM_GRACE = 3      # loop ticks (1 s each) the timeout scan is given beyond `timeout` to drop a pid that no longer exists


def gen_early_death_scenario(rng):
    """Directed class: a freshly forked worker dies at once (any ordinary status or signal - not 3/4) and the death is placed
    on each side of the master's `WORKERS[pid] = worker` line by the schedule; a few ordinary events around it; timeout > 0, so
    the master has the means (heartbeat scan) to find out; quiescence is judged more than timeout + PHANTOM_GRACE after the
    last event."""
    workers = rng.randint(1, 4)
    timeout = rng.choice([2, 2, 30])
    graceful = rng.choice([1, 3])
    events = []
    t = rng.choice([0.0, 0.5, 1.5])
    for _ in range(rng.randint(0, 3)):
        k = rng.random()
        if k < 0.4:
            ev = {"type": "worker_exit", "which": rng.randint(0, 5)}
            if rng.random() < 0.5:
                ev["signal"] = rng.choice([9, 15, 11, 6, 35, 11 | 0x80])
            else:
                ev["status"] = rng.choice([0, 1, 255])
        elif k < 0.6:
            ev = {"type": "signal", "sig": "TTIN"}
        elif k < 0.8:
            ev = {"type": "signal", "sig": "TTOU"}
        else:
            ev = {"type": "signal", "sig": "HUP", "new_workers": rng.randint(1, 4)}
        t += rng.choice([0.0, 0.3, 0.7, 2.5, 4.0])
        ev["at"] = round(t, 2)
        events.append(ev)
    default_policy = {"term_delay": rng.choice([0.0, 0.3, 1.5])}
    pol = {"die_after": 0.0}
    if rng.random() < 0.5:
        pol["die_signal"] = rng.choice([9, 11, 6, 15])
    else:
        pol["die_status"] = rng.choice([0, 1, 255])
    # spawn indexes below `workers` are always reached (initial pool); the others when the history forks that often
    spawn_policy = {str(rng.randint(0, workers + (2 if events else 0))): pol}
    W = timeout + graceful + 6 + default_policy["term_delay"]
    events.append({"type": "end", "at": round(t + W, 2)})
    return {"workers": workers, "timeout": timeout, "graceful_timeout": graceful, "events": events,
            "default_policy": default_policy, "spawn_policy": spawn_policy, "final": "none", "flood": False,
            "reuse_port": False, "max_ticks": 300 + int(40 * t), "directed": "early-death"}


class Monitor:
    """Reference pool model + invariants, fed by kernel hooks."""

    def __init__(self, sc):
        self.sc = sc
        self.target_delivered = sc["workers"]
        self.target_handled = sc["workers"]
        self.violations = []
        self.nhandled_seen = 0
        self.term_kills_judged = 0
        self.stale_entries_judged = 0

    def sync_targets(self, k):
        # delivered: from the kernel's log of signals handed to the master's handler
        tgt = self.sc["workers"]
        for e in k.log:
            if e[1] == "signal_to_master":
                tgt = self.apply(tgt, e[2], e[3])
        self.target_delivered = tgt
        # handled: the arbiter's own log lines "Handling signal: x"
        recs = getattr(k.arbiter.log, "records", [])
        tgt = self.sc["workers"]
        # a reload takes the worker count the configuration holds when the arbiter gets round to reloading (the i-th handled HUP
        # is the i-th reload); that need not be the value written before the i-th HUP was sent: when HUPs pile up in the queue, or
        # a later one is dropped because the queue is full, an earlier-queued HUP already reads the newest configuration
        hups = [e[2] for e in k.log if e[1] == "app_reload"]
        hi = 0
        for lvl, msg in recs:
            if msg.startswith("Handling signal: "):
                name = msg.split(": ")[1].upper()
                nw = None
                if name == "HUP":
                    nw = hups[hi] if hi < len(hups) else None
                    hi += 1
                tgt = self.apply(tgt, name, nw)
        self.target_handled = tgt

    @staticmethod
    def apply(tgt, name, new_workers):
        if name == "TTIN":
            return tgt + 1
        if name == "TTOU":
            return tgt - 1 if tgt > 1 else tgt
        if name == "HUP" and new_workers is not None:
            return new_workers
        return tgt

    def hook(self, kind, k, **info):
        if kind == "kill" and info["sig"] == TERM and k.halting_signal_at is None and k.boot_failure_reaped_at is None:
            self.sync_targets(k)
            pr = k.procs.get(info["pid"])
            if pr is None or pr.state == "reaped":
                return
            unreaped = sorted([p for p in k.procs.values() if p.state in ("run", "zombie")], key=lambda p: p.age)
            self.term_kills_judged += 1
            # oldest-first: every running child older than the victim must already have been asked to stop
            older = [p for p in unreaped if p.age < pr.age and p.state == "run" and not any(s == TERM for _, s in p.sent)]
            if older:
                self.violations.append((
                    "term-victim-not-oldest",
                    "TERM sent to pid %d (age %s) although older workers %s are running and were not asked to stop" % (
                        info["pid"], pr.age, [(p.pid, p.age) for p in older])))

    def finish(self, k):
        v = list(self.violations)
        self.sync_targets(k)
        sc = self.sc
        halting = k.halting_signal_at is not None
        bootfail = k.boot_failure_reaped_at is not None
        code = k.exit_code
        run = [p for p in k.procs.values() if p.state == "run"]
        zomb = [p for p in k.procs.values() if p.state == "zombie"]
        if isinstance(code, str) and code.startswith("exception"):
            name = code.split(":")[1]
            nfail = sum(1 for e in k.log if e[1] == "reaped" and (e[3] >> 8) in (3, 4))
            if name == "HaltServer" and (nfail >= 2 or (nfail >= 1 and halting)):
                # raised by the SIGCHLD handler while halt()/stop() was already running: nothing catches it there
                name = "HaltServer-raised-while-already-halting"
            v.append(("master-loop-exception/" + name,
                      "an exception escaped Arbiter.run(): %s" % [e for e in k.log if e[1] == "master_exception"]))
            return v
        if code == "running":
            if getattr(k, "end_reason", "") == "budget":
                v.append(("master-loop-does-not-settle", "tick budget exhausted"))
                return v
            if halting:
                v.append(("master-did-not-exit-after-stop-signal", "stop signal at %.1f, still running at %.1f" % (
                    k.halting_signal_at - k.t0, k.now - k.t0)))
                return v
            if bootfail:
                v.append(("boot-failure-did-not-stop-master",
                          "a worker exit with status 3/4 was reaped at +%.1f, the master still runs at +%.1f" % (
                              k.boot_failure_reaped_at - k.t0, k.now - k.t0)))
                return v
            # a tracked pid that no longer exists (reaped): the master has one means to find out, the heartbeat scan
            # (murder_workers -> kill -> ESRCH), or a TERM from pool management answered ESRCH.  With timeout > 0 such an entry
            # must be gone once `timeout` plus a few loop ticks have passed since the pid ceased to exist.
            if sc["timeout"]:
                for pr in k.procs.values():
                    if pr.state != "reaped" or k.now - pr.reaped_at <= sc["timeout"] + PHANTOM_GRACE:
                        continue
                    if pr.tracked_at_reap is False:
                        self.stale_entries_judged += 1      # reaped while unrecorded: the master went on to record it
                    if pr.pid in k.tracked:
                        kills = [(round(e[0] - k.t0, 2), e[3]) for e in k.log if e[1] == "kill" and e[2] == pr.pid and e[4] == "reaped"]
                        v.append(("phantom-worker/not-dropped-by-timeout-scan",
                                  "pid %d was reaped at +%.1f (%s) and is still tracked at +%.1f, timeout=%s: "
                                  "%d kill() calls for it were answered ESRCH %s; kernel live=%s master tracks=%s target %d" % (
                                      pr.pid, pr.reaped_at - k.t0,
                                      "before the master recorded it" if pr.tracked_at_reap is False else "while recorded",
                                      k.now - k.t0, sc["timeout"], len(kills), kills[:4],
                                      sorted(p.pid for p in run), sorted(k.tracked), self.target_delivered)))
            target = self.target_delivered
            per_instant = {}
            for ev in sc["events"]:
                if ev["type"] == "signal":
                    per_instant[ev["at"]] = per_instant.get(ev["at"], 0) + 1
            if sc.get("flood") or max(per_instant.values(), default=0) > 5:
                # signals beyond the queue's capacity coalesce (are dropped): the model follows what the arbiter dequeued
                target = self.target_handled
            effective = [p for p in run if not any(s in (TERM, int(signal.SIGKILL), int(signal.SIGQUIT), int(signal.SIGABRT))
                                                    for _, s in p.sent)]
            # a worker that ignores TERM by policy and was asked to stop may or may not be counted: both readings pass;
            # every other running worker counts (a TERM that got lost while the worker was booting has to be repeated)
            lingering = [p for p in run if p.policy.get("ignore_term") and any(s == TERM for _, s in p.sent)]
            if not (len(run) - len(lingering) <= target <= len(run)):
                tracked = set(k.tracked)
                live = set(p.pid for p in run)
                phantom = sorted(tracked - live - set(p.pid for p in zomb))
                untracked = sorted(live - tracked)
                mech = "pool-size-wrong-at-quiescence"
                if phantom and len(run) < target:
                    mech = "phantom-worker"
                    if all(died_right_after_fork(k, pid) for pid in phantom):
                        mech = "phantom-worker/death-between-fork-and-bookkeeping"
                elif untracked:
                    mech = "untracked-live-child"
                v.append((mech, "at quiescence %d running workers (%d not asked to stop), target %d (timeout=%s); kernel live=%s "
                          "master tracks=%s phantom=%s untracked=%s" % (len(run), len(effective), target, sc["timeout"],
                                                                       sorted(live), sorted(tracked), phantom, untracked)))
            if zomb:
                v.append(("zombie-at-quiescence", "children exited but never waited for: %s" % [p.pid for p in zomb]))
            return v
        # master exited
        if bootfail:
            # several workers may fail at the same instant: any of their statuses is "that" status
            want = sorted(set(e[3] >> 8 for e in k.log if e[1] == "reaped" and (e[3] >> 8) in (3, 4)))
            if code not in want and not halting:
                v.append(("wrong-exit-status-after-boot-failure", "master exited with %r, expected %r" % (code, want)))
            if k.fork_after_boot_failure_reaped:
                v.append(("respawn-after-boot-failure", "%d fork() calls after a status-3/4 exit was reaped" %
                          k.fork_after_boot_failure_reaped))
        elif halting:
            if code != 0:
                v.append(("nonzero-exit-after-stop-signal", "master exited with %r after %s" % (code, sc.get("final"))))
        else:
            v.append(("master-exited-without-cause", "exit code %r, no stop signal, no boot failure; log tail %s" % (
                code, [r for r in k.log_records[-3:]])))
        orphans = [p.pid for p in run if not p.sent]
        if orphans:
            after_fork = all(any_death_right_after_fork_of(k, pid) for pid in orphans)
            v.append(("orphan-at-master-exit" + ("/halt-raised-between-fork-and-bookkeeping" if after_fork else ""),
                      "master exited (%r) leaving children it never signalled: %s (tracked=%s)" % (code, orphans, k.tracked)))
        return v


def _fork_idx(k, pid):
    for e in k.log:
        if e[1] == "fork" and e[2] == pid:
            return e[4]
    return None


def died_right_after_fork(k, pid):
    """The child died (and was reaped by the SIGCHLD handler) within the few injection points between fork()
    returning in the master and the master recording the pid."""
    f = _fork_idx(k, pid)
    for e in k.log:
        if e[1] == "child_died" and e[2] == pid and f is not None:
            return 0 <= e[4] - f <= 4
    return False


def any_death_right_after_fork_of(k, pid):
    f = _fork_idx(k, pid)
    if f is None:
        return False
    return any(e[1] == "child_died" and 0 <= e[4] - f <= 4 for e in k.log)


def run_one(run, e3, sc, schedule, sched_desc):
    mon = Monitor(sc)
    k = None

    def attach(kernel):
        kernel.monitor_hooks.append(mon.hook)

    # run_history builds the kernel itself: attach through a tiny subclass hook
    orig = e3.SimKernel.__init__

    def init(self, scenario, sch):
        orig(self, scenario, sch)
        attach(self)

    e3.SimKernel.__init__ = init
    try:
        k = e3.run_history(sc, schedule)
    finally:
        e3.SimKernel.__init__ = orig
    v = mon.finish(k)
    run.count("histories")
    run.count("injection_points", k.points)
    run.count("sigchld_handler_calls", k.sigchld_calls)
    for idx, name in k.deliveries:
        if name == "fork-return":
            run.count("death_at_fork_return")
        elif name == "kill-return":
            run.count("death_at_kill_return")
        elif name.startswith("('line'"):
            run.count("death_between_source_lines")
        elif name.startswith("select") or name.startswith("sleep"):
            run.count("death_while_master_sleeps")
    if mon.term_kills_judged:
        run.count("term_kills_judged", mon.term_kills_judged)
    if k.boot_failure_reaped_at is not None:
        run.count("boot_failures_reaped")
    if k.halting_signal_at is not None:
        run.count("stop_signal_histories")
    if k.exit_code == "running":
        run.count("quiescence_checks")
    if any(e[1] == "app_reload" for e in k.log):
        run.count("reload_histories")
    if sc.get("flood"):
        run.count("signal_flood_histories")
    if sc.get("reuse_port") and k.boot_failure_reaped_at is not None:
        run.count("boot_failure_under_reuse_port")
    if any(e[1] == "term_lost_during_boot" for e in k.log):
        run.count("term_lost_during_boot_histories")
    early = [p for p in k.procs.values() if p.tracked_at_reap is False]
    if early:
        run.count("reaped_before_recorded", len(early))
        epids = set(p.pid for p in early)
        esrch = [e for e in k.log if e[1] == "kill" and e[4] == "reaped" and e[2] in epids]
        if any(e[3] == int(signal.SIGABRT) for e in esrch):
            run.count("stale_entry_met_by_timeout_scan")
        if any(e[3] == TERM for e in esrch):
            run.count("stale_entry_met_by_pool_management_term")
    if mon.stale_entries_judged:
        run.count("stale_entries_judged_after_timeout", mon.stale_entries_judged)
    return v, k


def sig_of(sc, deliveries):
    return (common.sha12(sc), tuple(i for i, _ in deliveries)[:24])


def shard(sh):
    from vlib import e3_simkernel as e3
    tier = sh.get("tier", "quick")
    run = Run(PROP, tier, sh["seed"], "exploration", RULE)
    rng = rng_for(sh["seed"], "c03", sh["kind"], sh.get("sub", 0))
    if sh["kind"] == "sample":
        for i in range(sh["n"]):
            if run.enough():
                break
            sc = gen_scenario(rng)
            for j in range(sh["schedules"]):
                p = rng.choice([0.05, 0.25, 0.6, 1.0])
                parts = [sh["seed"], "sched", sh["sub"], i, j]
                v, k = run_one(run, e3, sc, e3.RandomSchedule(rng_for(*parts), p), "random")
                run.case(sig_of(sc, k.deliveries))
                for mech, summary in v:
                    run.violation(mech, summary, {"scenario": sc, "schedule": {"kind": "random", "parts": parts, "p": p}})
            if i < 1:
                run.sample({"scenario": sc, "deliveries_last_schedule": k.deliveries[:8], "exit": k.exit_code})
    elif sh["kind"] == "live":
        from checks import c03_live
        c03_live.shard(run, sh)
    elif sh["kind"] == "enum":
        # short histories: first death at injection point k, for every k reached
        for i in range(sh["n"]):
            if run.enough():
                break
            sc = gen_scenario(rng, small=True)
            v, k0 = run_one(run, e3, sc, e3.IndexSchedule([]), "immediate")
            run.case(sig_of(sc, k0.deliveries))
            for mech, summary in v:
                run.violation(mech, summary, {"scenario": sc, "schedule": {"kind": "points", "points": [d[0] for d in k0.deliveries]}})
            npoints = min(k0.points, sh.get("maxpoints", 400))
            step = 1 if tier == "thorough" else max(1, npoints // 60)
            for kpt in range(1, npoints + 1, step):
                v, k = run_one(run, e3, sc, e3.IndexSchedule([kpt]), "first-at-%d" % kpt)
                run.case(sig_of(sc, k.deliveries))
                run.count("enumerated_first_delivery_points")
                for mech, summary in v:
                    run.violation(mech, summary, {"scenario": sc, "schedule": {"kind": "index", "k": [kpt]}})
        # directed: a fresh worker dies at once, the death placed at each point from fork() returning up to just after the
        # master recorded the pid
        rng2 = rng_for(sh["seed"], "c03", "early-death", sh.get("sub", 0))
        for i in range(sh.get("early_death", 0)):
            if run.enough():
                break
            sc = gen_early_death_scenario(rng2)
            for off in range(5):
                v, k = run_one(run, e3, sc, e3.AfterForkSchedule(off), "after-fork+%d" % off)
                run.case(sig_of(sc, k.deliveries))
                run.count("early_death_histories")
                for mech, summary in v:
                    run.violation(mech, summary, {"scenario": sc, "schedule": {"kind": "afterfork", "offset": off}})
    return run


def main(tier, seed):
    run = Run(PROP, tier, seed, "exploration", RULE)
    run.require("histories", "quiescence_checks", "sigchld_handler_calls", "death_at_fork_return", "death_at_kill_return",
                "death_between_source_lines", "death_while_master_sleeps", "term_kills_judged", "boot_failures_reaped",
                "stop_signal_histories", "reload_histories", "enumerated_first_delivery_points", "signal_flood_histories", "boot_failure_under_reuse_port",
                "term_lost_during_boot_histories", "early_death_histories", "reaped_before_recorded",
                "stale_entry_met_by_timeout_scan", "stale_entries_judged_after_timeout")
    q = tier == "quick"
    shards = [{"kind": "sample", "n": 60 if q else 1500, "schedules": 20, "sub": i, "seed": seed, "tier": tier}
              for i in range(16 if q else 32)]
    shards += [{"kind": "enum", "n": 12 if q else 80, "early_death": 8 if q else 60, "sub": i, "seed": seed, "tier": tier}
               for i in range(16 if q else 32)]
    run.assumptions = [
        "simulated kernel: fork returns on the parent side only; SIGCHLD handler runs in the main thread at the return of a simulated "
        "system call or between source lines of arbiter.py, never re-entrantly (CPython's documented delivery model)",
        "convergence is judged as bounded progress: W = timeout + graceful_timeout + 6 virtual seconds after the last event",
        "workers that ignore TERM are not counted as live-and-serving once they have been asked to stop",
        "a recorded pid that no longer exists must be dropped within timeout + %d loop ticks of its disappearance when timeout > 0 (the "
        "younger ones, and all of them with timeout = 0, fall under the recorded fork/bookkeeping finding)" % PHANTOM_GRACE,
        "a separate flood class delivers 6-9 signals at one instant: there the model target follows the signals the arbiter logged as handled, "
        "each handled HUP taking the worker count the configuration held when that reload ran",
        "live validation of the simulation against a real master: see the live sub-tier (traces_validated_against_impl)",
    ]
    from checks import c03_live
    live = c03_live.plan(run, tier, seed)
    if q:
        # the live scenarios mostly wait on wall-clock time: start them first and fill the remaining cores with simulation shards
        common.run_sharded(run, live + shards, timeout=900)
    else:
        common.run_sharded(run, shards, timeout=7200)
        common.run_sharded(run, live, timeout=3600, nproc=8)
    run.extra_cov["traces_validated_against_impl"] = run.reach.get("traces_validated_against_impl", 0)
    return run.finish()


def replay(path):
    from vlib import e3_simkernel as e3
    with open(path) as f:
        rec = json.load(f)
    c = rec["case"]
    run = Run(PROP, "quick", 0, "exploration", RULE)
    if "live" in c:
        from checks import c03_live
        v = c03_live.replay_case(run, c)
        for mech, s2 in v:
            print("VIOLATION property=%s replay=%s\n  %s %s" % (PROP, path, mech, s2))
        return 1 if v else 0
    s = c["schedule"]
    if s["kind"] == "index":
        sched = e3.IndexSchedule(s["k"])
    elif s["kind"] == "random":
        sched = e3.RandomSchedule(rng_for(*s["parts"]), s["p"])
    elif s["kind"] == "afterfork":
        sched = e3.AfterForkSchedule(s["offset"])
    else:
        sched = e3.IndexSchedule(s["points"])
    v, k = run_one(run, e3, c["scenario"], sched, "replay")
    for e in k.log:
        if e[1] not in ("select", "worker_object"):
            print("  ", e)
    print("exit:", k.exit_code, "tracked:", k.tracked, "live:", [p.pid for p in k.live()])
    for mech, s2 in v:
        print("VIOLATION property=%s replay=%s\n  %s %s" % (PROP, path, mech, s2))
    if not v:
        print("no violation on replay")
    return 1 if v else 0
