"""C04 Graceful shutdown completes in-flight requests and leaves nothing behind.

Monitor (E4): real master + workers of every worker class; the harness establishes, by handshake
with the test application and by client scripting, connections in five phases (accepted-idle, head
partly sent, application running, response partly written, keep-alive idle), then sends TERM / INT /
QUIT and observes client byte streams, the master's exit status and time, /proc, the listening
address, the pid file and the unix socket file.  Two further dimensions: the graceful timeout in force
was set by a reload (config file rewritten + HUP before the requests start), and a worker whose
`worker_connections` slots are all busy with one more client connected when the signal arrives.
Two more moments of a worker's life at which the stop signal arrives: the worker has already decided, of its own accord, to stop
after the request it is serving (it reached `max_requests`) - and the worker has not finished booting (it is still importing the
application: at start-up, or as the new pool of a reload).
One more dimension of the history before the stop: a reload (configuration file rewritten + HUP) MOVED the files the master keeps -
the pid file got another path, a pid file was configured where there was none, the pid file setting was dropped, the listener
went from / to a unix socket path or to another unix socket path.  After the stop none of the files the master created during
its life may be left: neither the ones of the configuration in force nor the ones of an earlier configuration.
"""
import re
import json
import os
import signal
import threading
import time

from vlib import common
from vlib.common import Run, rng_for

PROP = "C04"
RULE = ("scenario = (worker class in {sync,gthread,gevent,eventlet}, signal in {TERM,INT,QUIT}, bind in {tcp,unix}, "
        "graceful_timeout, set of simultaneously established connection phases {idle, partial-head, app-running, "
        "partial-response, keepalive-idle}, application duration class {finishes, overruns, never}, graceful_timeout "
        "raised / lowered by a reload before the requests start, worker_connections exhausted plus one more connected "
        "client at the signal, the request in flight is the one that took its worker to max_requests, the signal arrives while "
        "the workers (of the start-up / of a reload) are importing the application, reload(s) before the requests start that moved "
        "the pid file / the unix socket file {pidfile-path, pidfile-added, pidfile-removed, bind-unix-to-tcp, bind-tcp-to-unix, "
        "bind-unix-to-unix}); distinct = scenario tuple; non-trivial = at least one in-flight phase or a worker that is still booting")

MOVES = ["pidfile-path", "pidfile-added", "pidfile-removed", "bind-unix-to-tcp", "bind-tcp-to-unix", "bind-unix-to-unix"]

PHASES = ["idle", "partial", "app", "stream", "keepalive"]
SIGS = {"TERM": signal.SIGTERM, "INT": signal.SIGINT, "QUIT": signal.SIGQUIT}


# The test application with an import that takes as long as the harness wants: while the file `slow-import` exists next to it, the
# module reports "importing" in the phase log and then waits for `release-import` (at most 40 s) before it finishes loading.
SLOW_IMPORT_TAIL = r'''

def _slow_import():
    if not os.path.exists(os.path.join(HERE, "slow-import")):
        return
    _phase("importing")
    d = _wait_release("import", 40.0)
    if d:
        time.sleep(d)
    _phase("imported")

_slow_import()
'''


def importing_workers(srv):
    """Live children of the master that have reported that they are importing the application and have not finished."""
    state = {}
    for _, pid, m in srv.phases():
        if m in ("importing", "imported"):
            state[pid] = m
    live = set(srv.worker_pids())
    return sorted(p for p, m in state.items() if m == "importing" and p in live)


def wait_importing(e4, srv, n, timeout):
    """n live workers inside the import of the application (None: not reached - the master is gone, or time is up)."""
    t0 = time.monotonic()
    while time.monotonic() - t0 < timeout and e4.alive(srv.master_pid):
        srv.reap()
        w = importing_workers(srv)
        if len(w) >= n:
            return w
        time.sleep(0.03)
    return None


def client_idle(e4, srv, res, ev):
    r = {"phase": "idle", "data": b"", "err": None}
    res["idle"] = r
    try:
        s = e4.connect(srv.addr, 5)
    except OSError as e:
        r["err"] = "connect:" + repr(e)
        ev["idle"].set()
        return
    r["established"] = time.monotonic()
    ev["idle"].set()
    s.settimeout(25)
    try:
        while True:
            d = s.recv(65536)
            if not d:
                break
            r["data"] += d
        r["closed"] = time.monotonic()
    except OSError as e:
        r["err"] = repr(e)
    finally:
        s.close()


def client_partial(e4, srv, res, ev, go):
    r = {"phase": "partial", "data": b"", "err": None}
    res["partial"] = r
    try:
        s = e4.connect(srv.addr, 5)
        s.sendall(b"GET /pid HTTP/1.1\r\nHost: partial\r\nConn")
    except OSError as e:
        r["err"] = "connect:" + repr(e)
        ev["partial"].set()
        return
    time.sleep(0.4)         # let a worker pick the connection up and start reading
    r["established"] = time.monotonic()
    ev["partial"].set()
    go.wait(30)
    time.sleep(res.get("_partial_delay", 0.2))
    try:
        s.sendall(b"ection: close\r\n\r\n")
        r["rest_sent"] = time.monotonic()
        s.settimeout(25)
        while True:
            d = s.recv(65536)
            if not d:
                break
            r["data"] += d
    except OSError as e:
        r["err"] = repr(e)
    finally:
        s.close()


def client_request(e4, srv, res, name, path, addr=None):
    r = e4.request(addr or srv.addr, path, timeout=30)
    r["phase"] = name
    res[name] = r


def client_keepalive(e4, srv, res, ev):
    r = {"phase": "keepalive", "data": b"", "after": b"", "err": None}
    res["keepalive"] = r
    try:
        s = e4.connect(srv.addr, 5)
        rr = e4.request(srv.addr, "/pid", sock=s, close=False, timeout=10)
        r["data"] = rr["data"]
        r["first_outcome"] = rr["outcome"]
    except OSError as e:
        r["err"] = "connect:" + repr(e)
        ev["keepalive"].set()
        return
    r["established"] = time.monotonic()
    ev["keepalive"].set()
    s.settimeout(25)
    try:
        while True:
            d = s.recv(65536)
            if not d:
                break
            r["after"] += d
        r["closed"] = time.monotonic()
    except OSError as e:
        r["err"] = repr(e)
    finally:
        s.close()


def wait_replaced(e4, srv, old, n, timeout):
    """After a HUP: n booted workers, none of them from the old pool (None: it did not happen in time)."""
    t0 = time.monotonic()
    while time.monotonic() - t0 < timeout and e4.alive(srv.master_pid):
        w = srv.wait_workers(n, 1.0)
        if w and not (set(w) & set(old)):
            return w
        time.sleep(0.05)
    return None


def apply_move(e4, srv, kind, step, files):
    """Rewrite the configuration file of `srv` so that the next reload moves one of the files the master keeps.  `files` is the
    harness's ledger {"pidfile": current path | None, "sock": current path | None, "former": [(what, path), ...]} of every file
    the configuration has made the master create so far.  Returns None, or the reason why the step does not apply."""
    if kind in ("pidfile-path", "pidfile-added"):
        if (files["pidfile"] is None) != (kind == "pidfile-added"):
            return "step %s does not apply (pid file now: %s)" % (kind, files["pidfile"])
        new = os.path.join(srv.dir, "moved%d.pid" % step)
        if files["pidfile"]:
            files["former"].append(("pidfile", files["pidfile"]))
        files["pidfile"] = new
        srv.write_conf(pidfile=new)
    elif kind == "pidfile-removed":
        if files["pidfile"] is None:
            return "step %s does not apply (no pid file configured)" % kind
        files["former"].append(("pidfile", files["pidfile"]))
        files["pidfile"] = None
        srv.settings.pop("pidfile", None)
        srv.write_conf()
    elif kind in ("bind-unix-to-tcp", "bind-tcp-to-unix", "bind-unix-to-unix"):
        if (files["sock"] is None) != (kind == "bind-tcp-to-unix"):
            return "step %s does not apply (unix socket now: %s)" % (kind, files["sock"])
        if files["sock"]:
            files["former"].append(("sock", files["sock"]))
        if kind == "bind-unix-to-tcp":
            files["sock"] = None
            srv.port = e4.free_port()
            srv.addr = ("127.0.0.1", srv.port)
            srv.bind = "127.0.0.1:%d" % srv.port
        else:
            files["sock"] = srv.sockpath = os.path.join(srv.dir, "moved%d.sock" % step)
            srv.addr = srv.sockpath
            srv.bind = "unix:" + srv.sockpath
        srv.write_conf()
    else:
        return "unknown step %r" % (kind,)
    return None


def run_scenario(run, e4, sc):
    """Returns (violations, inconclusive_reason|None, info)."""
    v = []
    wc, signame, graceful = sc["class"], sc["signal"], sc["graceful"]
    phases = sc["phases"]
    nblock = len(phases)
    settings = {"graceful_timeout": graceful, "timeout": sc.get("timeout", 30), "keepalive": 5}
    if wc == "gthread":
        settings["threads"] = 6
    if sc.get("worker_connections"):
        settings["worker_connections"] = sc["worker_connections"]
    if sc.get("max_requests"):
        settings["max_requests"] = sc["max_requests"]
    boot = sc.get("during_boot")            # None | "start" | "reload": the signal arrives while workers import the application
    workers = max(2, nblock + 1) if wc == "sync" else 2
    workers = sc.get("workers") or workers
    srv = e4.Server("c04", worker_class=wc, workers=workers, settings=settings, bind=sc["bind"],
                    app_source=(e4.APP_SOURCE + SLOW_IMPORT_TAIL) if boot else None)
    slow_flag = os.path.join(srv.dir, "slow-import")
    moves = list(sc.get("reload_moves") or [])
    # every file the configuration makes the master create, over its whole life (the reloads below move them)
    files = {"pidfile": None, "sock": srv.sockpath if sc["bind"] in ("unix", "both") else None, "former": []}
    if not (moves and moves[0] == "pidfile-added"):
        settings["pidfile"] = files["pidfile"] = os.path.join(srv.dir, "g.pid")
        srv.write_conf(pidfile=settings["pidfile"])
    lag = e4.LagProbe()
    lag.start()
    info = {}
    try:
        if boot == "start":
            open(slow_flag, "w").close()
        srv.start()
        if boot == "start":
            # the pool of the start-up: every worker is forked and has reported, from inside the application module, that it is
            # being imported (the pid file and the listener exist before the first fork)
            w = wait_importing(e4, srv, workers, 25)
        else:
            w = srv.wait_workers(workers, 25)
        if not w or not srv.wait_listening(5):
            return v, "server did not boot: %s" % srv.stderr()[-300:], info
        if files["pidfile"] and not os.path.exists(files["pidfile"]):
            v.append(("pidfile-not-created", "pid file missing while the master runs"))
        if files["sock"] and not os.path.exists(files["sock"]):
            return v, "the unix socket file does not exist although its address accepts", info
        if sc.get("reload_graceful"):
            # the graceful timeout in force when the server is stopped is the one a reload brought: the file is rewritten,
            # HUP, and only once the whole pool runs the new configuration do the requests start
            srv.write_conf(graceful_timeout=sc["reload_graceful"])
            srv.signal(signal.SIGHUP)
            w = wait_replaced(e4, srv, w, workers, 20)
            if not w:
                return v, "the reload that changes graceful_timeout did not complete: %s" % srv.stderr()[-300:], info
            info["graceful_before_reload"] = graceful
            graceful = sc["reload_graceful"]
        for step, kind in enumerate(moves):
            # a reload that moves a file the master keeps: the configuration file is rewritten, HUP, and the scenario goes on only
            # once the whole pool was started by that reload, the (new) address accepts and the files of the new configuration exist
            why = apply_move(e4, srv, kind, step, files)
            if why:
                return v, why, info
            srv.signal(signal.SIGHUP)
            w = wait_replaced(e4, srv, w, workers, 25)
            if not w or not srv.wait_listening(10):
                return v, "the reload that moves files (%s) did not complete: %s" % (kind, srv.stderr()[-300:]), info
            missing = [f for f in (files["pidfile"], files["sock"]) if f and not os.path.exists(f)]
            if missing:
                return v, "after the reload (%s) the files of the new configuration do not exist: %s" % (
                    kind, [os.path.basename(f) for f in missing]), info
            info.setdefault("former_files_present_after_reload", []).append(
                sorted(os.path.basename(f) for _, f in files["former"] if os.path.lexists(f)))
        res, ev, threads = {}, {p: threading.Event() for p in PHASES}, []
        res["_partial_delay"] = sc.get("partial_delay", 0.2)
        go = threading.Event()
        tag = "%08x" % (hash((wc, signame, sc["bind"], tuple(phases), sc["seed"])) & 0xffffffff)
        idle_thread = None
        if "idle" in phases:
            idle_thread = threading.Thread(target=client_idle, args=(e4, srv, res, ev))
            if not sc.get("idle_last"):
                threads.append(idle_thread)
        if "partial" in phases:
            threads.append(threading.Thread(target=client_partial, args=(e4, srv, res, ev, go)))
        busy_addr = srv.addr2 if (sc["bind"] == "both" and sc.get("busy_on") == "unix") else srv.addr
        if "app" in phases:
            threads.append(threading.Thread(target=client_request, args=(e4, srv, res, "app", "/gate/a" + tag, busy_addr)))
        if "stream" in phases:
            threads.append(threading.Thread(target=client_request, args=(e4, srv, res, "stream", "/stream/s" + tag, busy_addr)))
        if "keepalive" in phases:
            threads.append(threading.Thread(target=client_keepalive, args=(e4, srv, res, ev)))
        for _ in range(max(0, sc.get("max_requests", 0) - 1) if sc.get("warmup") else 0):
            # (one worker: the requests it answers before the one that takes it to max_requests)
            if e4.request(srv.addr, "/pid", timeout=10)["outcome"] != "ok":
                return v, "a request before the one under test was not answered", info
        for t in threads:
            t.daemon = True
            t.start()
        # establish every phase
        ok = True
        holder = {}
        for p in phases:
            if p == "idle" and sc.get("idle_last"):
                continue
            if p in ("idle", "partial", "keepalive"):
                ok = ok and ev[p].wait(10)
            elif p == "app":
                holder[p] = srv.wait_phase("entered a" + tag, 10) if ok else None
                ok = ok and holder[p] is not None
            elif p == "stream":
                holder[p] = srv.wait_phase("first-chunk s" + tag, 10) if ok else None
                ok = ok and holder[p] is not None
        if ok and idle_thread is not None and sc.get("idle_last"):
            # the idle client connects only now, when every other connection is established: with worker_connections equal to
            # their number it is the one client too many (accepted by a worker that has no slot for it, or left in the backlog)
            idle_thread.daemon = True
            idle_thread.start()
            threads.append(idle_thread)
            ok = ev["idle"].wait(10)
            time.sleep(0.3)
        for p in ("idle", "partial", "keepalive"):
            if p in phases and res.get(p, {}).get("err"):
                ok = False
        if not ok:
            return v, "could not establish phases %s: %s" % (phases, {k: r.get("err") for k, r in res.items() if isinstance(r, dict)}), info
        time.sleep(0.15)
        if sc.get("max_requests"):
            # every request in flight is the one with which its worker reached max_requests: the worker has announced that it stops
            # after this request, before the master says anything
            announced = set(int(x) for x in re.findall(r"\[(\d+)\] \[INFO\] Autorestarting worker", srv.error_log()))
            if not holder or not all(pid in announced for pid in holder.values()):
                return v, "the workers holding the requests %s had not announced their own retirement (%s)" % (
                    holder, sorted(announced)), info
            info["self_retiring_workers"] = len(set(holder.values()))
        workers_before = srv.worker_pids()
        if boot == "reload":
            # a reload whose new workers are still importing the application when the stop signal arrives (the old pool, with
            # whatever it holds, is retired by the same reload)
            open(slow_flag, "w").close()
            srv.signal(signal.SIGHUP)
            neww = wait_importing(e4, srv, workers, 25)
            if not neww:
                return v, "the new pool of the reload did not start importing: %s" % srv.stderr()[-300:], info
            workers_before = sorted(set(workers_before) | set(srv.worker_pids()))
        elif boot == "start":
            if len(importing_workers(srv)) < workers:
                return v, "the workers had finished importing before the signal", info
        if sc.get("retire"):
            # the workers holding the requests are first retired (reload / TTOU) and only then the server is told to stop
            srv.signal(signal.SIGHUP if sc["retire"] == "HUP" else signal.SIGTTOU)
            time.sleep(0.6)
            workers_before = sorted(set(workers_before) | set(srv.worker_pids()))
        if sc.get("pidfile_garbage"):
            with open(settings["pidfile"], "w") as f:       # somebody blanked / overwrote the pid file
                f.write(sc["pidfile_garbage"])
        # (a pid alone does not name a process for long on a busy machine: the start time goes with it)
        born = {p: e4.start_ticks(p) for p in workers_before}
        t_sig = time.monotonic()
        srv.signal(SIGS[signame])
        go.set()
        dur = sc["duration"]
        if dur == "finishes":
            d = sc.get("app_delay", 0.3)
            srv.release("a" + tag, d)
            srv.release("s" + tag, d)
        elif dur == "overruns":
            srv.release("a" + tag, graceful + 2.5)
            srv.release("s" + tag, graceful + 2.5)
        if boot:
            info["import_ends"] = sc.get("import_ends")
            if sc.get("import_ends") is not None:
                srv.release("import", sc["import_ends"])        # the import completes that long after the signal
        st = srv.wait_exit(srv.master_pid, graceful + 12)
        t_exit = time.monotonic()
        info["exit_after"] = round(t_exit - t_sig, 2) if st else None
        maxlag = lag.max_lag(since=t_sig)
        info["max_lag"] = round(maxlag, 3)
        if st is None:
            v.append(("master-did-not-exit", "no exit %d s after %s (graceful_timeout=%d)" % (graceful + 12, signame, graceful)))
            return v, None, info
        status, t_ex = st
        t_exit = t_ex
        # ---- end state -----------------------------------------------------------------------
        if status is not None and status != 0:
            v.append(("master-exit-status", "exit status %r after %s" % (status, signame)))
        limit = (graceful if signame == "TERM" else 2.0) + 3.0
        late = (t_exit - t_sig) > limit
        time.sleep(0.5)
        srv.reap()
        survivors = [p for p in workers_before if e4.alive(p) and e4.start_ticks(p) == born[p]]
        if survivors:
            time.sleep(0.5)
            survivors = [p for p in survivors if e4.alive(p) and e4.start_ticks(p) == born[p]]
        if survivors:
            v.append(("worker-survived-master", "worker pids %s still running after the master exited (%s, %s)" % (
                survivors, wc, signame)))
        try:
            s = e4.connect(srv.addr, 1.0)
            s.close()
            v.append(("listener-still-accepting", "address %r accepts connections after master exit" % (srv.addr,)))
        except OSError:
            run.count("listener_closed_checks")
        if files["pidfile"] and os.path.exists(files["pidfile"]) and not sc.get("pidfile_garbage"):
            v.append(("pidfile-left-behind", "pid file still present after exit"))
        if files["sock"] and os.path.exists(files["sock"]):
            v.append(("unix-socket-file-left-behind", "socket file still present after exit"))
        # the files of the configurations before the reload(s): the master created them too
        for what, path in files["former"]:
            if path in (files["pidfile"], files["sock"]) or not os.path.lexists(path):
                continue
            if what == "pidfile":
                try:
                    with open(path) as f:
                        names_master = f.read().strip() == str(srv.master_pid)
                except OSError:
                    names_master = None
                v.append(("pidfile-of-before-reload-left-behind",
                          "after %s and the master's exit the pid file of the configuration before the reload(s) %s (%s) is still "
                          "present (its content names the exited master: %s); the pid file of the configuration in force: %s" % (
                              signame, moves, os.path.basename(path), names_master,
                              "gone" if files["pidfile"] and not os.path.exists(files["pidfile"]) else
                              ("none configured" if not files["pidfile"] else "also left"))))
            else:
                v.append(("unix-socket-file-of-before-reload-left-behind",
                          "after %s and the master's exit the unix socket file of the configuration before the reload(s) %s (%s) is "
                          "still present; bind in force at the stop: %r" % (signame, moves, os.path.basename(path), srv.bind)))
        for kind in moves:
            run.count("files_moved_by_reload_checks/" + kind)
        if moves:
            run.count("files_moved_by_reload_checks/%s" % ("graceful" if signame == "TERM" else "quick"))
        timing_inconclusive = None
        if late:
            if maxlag > 0.5:
                timing_inconclusive = "exit %.1fs after %s but scheduling lag %.2fs" % (t_exit - t_sig, signame, maxlag)
            else:
                mech = "master-exit-late"
                if signame in ("INT", "QUIT") and wc == "gthread" and sc["duration"] in ("never", "overruns") and \
                        any(p in sc["phases"] for p in ("app", "stream")):
                    # the threaded worker's quick exit ends in sys.exit(): the interpreter then waits for the handler threads that
                    # are still inside the application
                    mech = "quick-shutdown-waits-for-busy-handler-threads/gthread"
                v.append((mech, "%s: master exited %.2f s after the signal, limit %.1f (graceful_timeout=%d)%s" % (
                    signame, t_exit - t_sig, limit, graceful,
                    ", signal sent while the workers of the %s were importing the application, no request in flight" % boot
                    if boot and not phases else "")))
        # ---- client side -----------------------------------------------------------------------
        for t in threads:
            t.join(3)
        if sc.get("reload_graceful") and timing_inconclusive is None:
            run.count("graceful_%s_by_reload_checks" % ("raised" if sc["reload_graceful"] > sc["graceful"] else "lowered"))
        if sc.get("idle_last") and sc.get("worker_connections"):
            run.count("pool_full_at_stop_checks/" + wc)
        if boot and timing_inconclusive is None:
            run.count("stop_while_workers_import_checks/%s/%s" % (boot, "graceful" if signame == "TERM" else "quick"))
            run.count("stop_while_workers_import_checks/" + wc)
        for p in phases:
            r = res.get(p)
            if r is None:
                continue
            cell = "%s/%s/%s" % (p, wc, signame)
            if sc["bind"] == "both":
                run.count("two_listener_in_flight_checks")
            run.count("cell/" + cell)
            if p == "idle":
                # no request in progress: closed without a byte, or (quick shutdown interrupts the read) a complete
                # error reply; a *partial* response is never right
                if r["data"] and not e4.complete_response(r["data"]):
                    v.append(("partial-bytes-on-idle-connection", "idle connection received %r" % r["data"][:80]))
                elif r["data"] and signame == "TERM":
                    v.append(("reply-on-idle-connection-at-graceful-stop", "idle connection received %r" % r["data"][:80]))
            elif p == "keepalive":
                if r.get("first_outcome") != "ok":
                    return v, "keep-alive phase was not established cleanly (%s)" % r.get("first_outcome"), info
                if r["after"]:
                    v.append(("bytes-after-keepalive-response", "idle keep-alive connection received %r" % r["after"][:80]))
            elif signame == "TERM" and dur == "finishes":
                data = r["data"]
                if not e4.complete_response(data) or not e4.body_of(data).endswith(b"|END") or e4.status_of(data) != 200:
                    v.append(("in-flight-request-not-answered/" + p,
                              "%s worker, phase %s: request in progress at TERM (application finishes %.1fs later, graceful "
                              "timeout %ds, worker timeout %ss%s) got %r (%s)" % (
                                  wc, p, sc.get("app_delay", 0.3), graceful, settings["timeout"],
                                  ", the request with which the worker reached max_requests=%d" % sc["max_requests"]
                                  if sc.get("max_requests") else "", data[:120], r.get("outcome") or r.get("err"))))
                else:
                    run.count("in_flight_answered")
                if sc.get("max_requests"):
                    run.count("self_retiring_worker_in_flight_checks/" + wc)
                if "timeout" in sc:
                    # the worker timeout (heartbeat supervision) is not the graceful timeout: disabled (0), or shorter than both the
                    # graceful timeout and the request, it has no say in how long a stopping server waits for a request
                    run.count("worker_timeout_%s_in_flight_checks" % ("disabled" if not sc["timeout"] else "below_graceful"))
            else:
                # INT/QUIT or overrun/never: no promise about the response, but a partial *head* is still wrong framing
                pass
        return v, timing_inconclusive, info
    finally:
        lag.stop_flag = True
        srv.cleanup()


def scenarios(tier, seed):
    rng = rng_for(seed, "c04")
    out = []
    classes = ["sync", "gthread", "gevent", "eventlet"]
    for wc in classes:
        for bind in ("tcp", "unix"):
            out.append({"class": wc, "signal": "TERM", "bind": bind, "graceful": 3,
                        "phases": list(PHASES), "duration": "finishes", "app_delay": rng.choice([0.2, 0.5, 1.0])})
    for wc in classes:
        for signame in ("INT", "QUIT"):
            # (a long graceful timeout: a quick shutdown must not take that long)
            out.append({"class": wc, "signal": signame, "bind": rng.choice(["tcp", "unix"]), "graceful": 12,
                        "phases": ["idle", "app", "keepalive"], "duration": "never"})
    for wc in classes:
        out.append({"class": wc, "signal": "TERM", "bind": "tcp", "graceful": 2, "phases": ["app", "stream"],
                    "duration": rng.choice(["overruns", "never"])})
    # the rest of a partly received head arrives late (after the worker has noticed the TERM), still within graceful_timeout
    for wc in classes:
        out.append({"class": wc, "signal": "TERM", "bind": rng.choice(["tcp", "unix"]), "graceful": 4, "phases": ["partial", "app"],
                    "duration": "finishes", "app_delay": 2.0, "partial_delay": rng.choice([1.3, 1.8, 2.4])})
    # workers retired by a reload / TTOU while they hold a request, then the stop signal
    for wc in (classes[0], classes[1 + len(out) % 3]):
        out.append({"class": wc, "signal": "TERM", "bind": "tcp", "graceful": 6, "phases": ["app", "stream"], "duration": "finishes",
                    "app_delay": 2.0, "retire": rng.choice(["HUP", "HUP", "TTOU"])})
    out.append({"class": rng.choice(classes), "signal": "TERM", "bind": "tcp", "graceful": 2, "phases": ["app"], "duration": "never",
                "retire": "HUP"})
    # the pid file does not hold a pid any more when the server is stopped
    for junk in ("\n", rng.choice(["not-a-pid\n", "12x", "1234 gunicorn\n", "\x00\x00"])):
        out.append({"class": rng.choice(classes), "signal": rng.choice(["TERM", "INT", "QUIT"]), "bind": "unix", "graceful": 3,
                    "phases": ["app", "keepalive"] if junk == "\n" else ["idle"], "duration": "finishes", "app_delay": 0.4, "pidfile_garbage": junk})
    # two listeners, the request in flight on one of them while the other is idle
    for wc in classes:
        out.append({"class": wc, "signal": "TERM", "bind": "both", "graceful": 5, "phases": ["app", "stream"],
                    "duration": "finishes", "app_delay": rng.choice([1.5, 2.5]), "busy_on": rng.choice(["tcp", "unix"])})
    # the graceful timeout in force was brought by a reload (own generator: the scenarios above stay what they were).  Raised: a
    # request that needs longer than the old value and less than the new one is in flight at TERM.  Lowered: the application never
    # finishes (sync: only the master's own deadline ends such a worker) and the master must be gone after the new value.
    r3 = rng_for(seed, "c04-reload-graceful")
    for wc in (classes if tier == "thorough" else [r3.choice(classes)]):
        out.append({"class": wc, "signal": "TERM", "bind": r3.choice(["tcp", "unix"]), "graceful": 2, "reload_graceful": 7,
                    "phases": ["app", "stream"], "duration": "finishes", "app_delay": r3.choice([3.5, 4.0])})
    out.append({"class": "sync", "signal": "TERM", "bind": r3.choice(["tcp", "unix"]), "graceful": 9, "reload_graceful": 2,
                "phases": ["app"], "duration": "never"})
    # every worker_connections slot of the only worker is busy and one more client has connected when TERM arrives (the green
    # worker classes: a threaded worker with every slot taken stops polling altogether, which is C13's subject)
    for wc in ("eventlet", "gevent"):
        out.append({"class": wc, "signal": "TERM", "bind": r3.choice(["tcp", "unix"]), "graceful": 6, "phases": ["idle", "app", "stream"],
                    "duration": "finishes", "app_delay": r3.choice([2.0, 2.5]), "workers": 1, "worker_connections": 2, "idle_last": True})
    # the worker timeout is a different setting from the graceful timeout: `timeout = 0` (documented: no heartbeat supervision at
    # all) with a request in flight at TERM, and - for the worker classes whose heartbeat does not depend on the request - a worker
    # timeout shorter than the graceful timeout with a request that needs longer than the worker timeout after TERM
    r4 = rng_for(seed, "c04-worker-timeout")
    for wc in (classes if tier == "thorough" else ["sync", r4.choice(classes[1:])]):
        out.append({"class": wc, "signal": "TERM", "bind": r4.choice(["tcp", "unix"]), "graceful": 6, "timeout": 0,
                    "phases": ["partial", "app", "stream"] if wc == "sync" else ["app", "stream"], "duration": "finishes",
                    "app_delay": r4.choice([1.0, 1.5, 2.0])})
    for wc in classes[1:]:
        out.append({"class": wc, "signal": "TERM", "bind": r4.choice(["tcp", "unix"]), "graceful": 8, "timeout": 2,
                    "phases": ["app", "stream"], "duration": "finishes", "app_delay": r4.choice([3.2, 3.6])})
    # the request in flight at TERM is the one with which its worker reached max_requests: that worker has already decided to
    # stop after it (own decision, no signal yet) when the master's TERM arrives.  A single worker that has answered
    # max_requests - 1 requests before and holds one request; for sync workers (one connection at a time) also several workers
    # whose first request is their last.  (A threaded or green worker that has reached max_requests with further connections
    # accepted but not yet served is C18's subject - known findings there - so those classes hold exactly one connection here.)
    r5 = rng_for(seed, "c04-self-retiring")
    for wc in classes:
        if wc == "sync" and r5.random() < 0.5:
            out.append({"class": wc, "signal": "TERM", "bind": r5.choice(["tcp", "unix"]), "graceful": 6, "max_requests": 1,
                        "phases": ["app", "stream"], "duration": "finishes", "app_delay": r5.choice([1.0, 1.5, 2.0])})
        else:
            out.append({"class": wc, "signal": "TERM", "bind": r5.choice(["tcp", "unix"]), "graceful": 6, "workers": 1,
                        "max_requests": r5.choice([1, 2, 3]), "warmup": True, "phases": [r5.choice(["app", "stream"])],
                        "duration": "finishes", "app_delay": r5.choice([1.0, 1.5, 2.0])})
    # the stop signal arrives while the workers are still importing the application (no request anywhere): the pool of the
    # start-up, or the new pool of a reload; the import ends shortly after the signal, or not within the scenario.  A quick
    # shutdown has nothing to wait for; a graceful one ends with the graceful timeout at the latest
    r6 = rng_for(seed, "c04-during-boot")
    for wc in classes:
        out.append({"class": wc, "signal": r6.choice(["INT", "QUIT"]), "bind": r6.choice(["tcp", "unix"]), "graceful": 12,
                    "phases": [], "duration": "never", "during_boot": "start", "import_ends": r6.choice([None, 0.5, 1.5])})
    for wc in (classes if tier == "thorough" else [r6.choice(classes)]):
        out.append({"class": wc, "signal": r6.choice(["INT", "QUIT"]), "bind": r6.choice(["tcp", "unix"]), "graceful": 12,
                    "phases": [], "duration": "never", "during_boot": "reload", "import_ends": r6.choice([None, 0.5, 1.5])})
    for wc in (classes if tier == "thorough" else [r6.choice(classes)]):
        for when in (["start", "reload"] if tier == "thorough" else [r6.choice(["start", "reload"])]):
            out.append({"class": wc, "signal": "TERM", "bind": r6.choice(["tcp", "unix"]), "graceful": 3, "phases": [],
                        "duration": "never", "during_boot": when, "import_ends": r6.choice([None, 1.0])})
    # the configuration was reloaded before the stop and the reload moved the files the master keeps (pid file: other path / added /
    # dropped; listener: unix socket -> TCP, TCP -> unix socket, unix socket -> other unix socket).  The requests start on the
    # address in force after the reload; after the stop no file of any of the configurations may be left.  Quick: every kind of
    # move once, worker class and signal drawn; thorough: every kind under a graceful and a quick stop, and histories of two reloads
    r7 = rng_for(seed, "c04-reload-moves")
    quick_sig = {k: r7.choice(["INT", "QUIT"]) for k in MOVES}
    stops = {k: r7.choice(["TERM", "TERM", quick_sig[k]]) for k in MOVES}
    histories = [([k], stops[k]) for k in MOVES]
    if tier == "thorough":
        histories += [([k], quick_sig[k] if stops[k] == "TERM" else "TERM") for k in MOVES]
        histories += [(["pidfile-path", "pidfile-path"], "TERM"), (["pidfile-added", "pidfile-path"], quick_sig["pidfile-added"]),
                      (["pidfile-removed", "pidfile-added"], "TERM"), (["pidfile-path", "bind-tcp-to-unix"], "TERM"),
                      (["bind-tcp-to-unix", "bind-unix-to-unix"], quick_sig["bind-tcp-to-unix"]),
                      (["bind-unix-to-tcp", "bind-tcp-to-unix"], "TERM"), (["bind-tcp-to-unix", "pidfile-removed"], "TERM")]
    for moves, signame in histories:
        bind_moves = [k for k in moves if k.startswith("bind-")]
        drawn = r7.choice(["tcp", "unix"])
        first_bind = drawn if not bind_moves else ("unix" if bind_moves[0].startswith("bind-unix") else "tcp")
        if signame == "TERM":
            out.append({"class": r7.choice(classes), "signal": "TERM", "bind": first_bind, "graceful": 4, "reload_moves": moves,
                        "phases": ["app", "keepalive"], "duration": "finishes", "app_delay": r7.choice([0.3, 0.8])})
        else:
            # (graceful timeout 3 s: a threaded worker's quick exit waits that long for a busy handler thread - the known finding of
            # the cells above - and is still within the limit of a quick shutdown here)
            out.append({"class": r7.choice(classes), "signal": signame, "bind": first_bind, "graceful": 3, "reload_moves": moves,
                        "phases": ["idle", "app"], "duration": "never"})
    if tier == "thorough":
        for s2 in range(5):
            r2 = rng_for(seed, "c04-thorough", s2)
            for wc in classes:
                for signame in ("TERM", "INT", "QUIT"):
                    for bind in ("tcp", "unix"):
                        k = r2.randint(1, 5)
                        out.append({"class": wc, "signal": signame, "bind": bind, "graceful": r2.choice([2, 3]),
                                    "phases": sorted(r2.sample(PHASES, k), key=PHASES.index),
                                    "duration": r2.choice(["finishes", "finishes", "overruns", "never"]),
                                    "app_delay": r2.choice([0.2, 0.8, 1.4])})
    for i, sc in enumerate(out):
        sc["seed"] = seed
        sc["idx"] = i
    return out


def shard(sh):
    from vlib import e4_live as e4
    run = Run(PROP, sh.get("tier", "quick"), sh["seed"], "exploration", RULE)
    sc = sh["scenario"]
    reason = None
    for attempt in range(3):
        v, reason, info = run_scenario(run, e4, sc)
        if reason is None or v:
            break
        run.count("retries_after_inconclusive")
    run.case(json.dumps({k: sc.get(k) for k in ("class", "signal", "bind", "phases", "duration", "graceful", "partial_delay", "busy_on", "retire", "pidfile_garbage",
                                                 "reload_graceful", "worker_connections", "workers", "timeout", "max_requests", "warmup",
                                                 "during_boot", "import_ends", "reload_moves")}, sort_keys=True))
    run.count("scenarios")
    run.count("class/" + sc["class"])
    run.count("signal/" + sc["signal"])
    run.count("bind/" + sc["bind"])
    for mech, summary in v:
        run.violation(mech, summary + " | scenario=%s info=%s" % ({k: sc[k] for k in ("class", "signal", "bind", "phases", "duration", "graceful", "reload_graceful", "worker_connections",
                                                                         "workers", "timeout", "max_requests", "warmup", "during_boot",
                                                                         "import_ends", "reload_moves") if k in sc}, info), sc)
    if reason is not None and not v:
        if "scheduling lag" in reason:
            run.count("cells_skipped_for_scheduling_lag")      # measured lag made the wall-clock judgement unsafe, three times
        else:
            run.inconclusive_because("scenario %s: %s" % (sc["idx"], reason))
    run.sample({"scenario": {k: sc[k] for k in ("class", "signal", "bind", "phases", "duration", "graceful")}, "observed": info}, cap=3)
    return run


def main(tier, seed):
    run = Run(PROP, tier, seed, "exploration", RULE)
    run.require("scenarios", "in_flight_answered", "listener_closed_checks", "class/sync", "class/gthread", "class/gevent",
                "class/eventlet", "signal/TERM", "signal/INT", "bind/tcp", "bind/unix",
                "cell/partial/sync/TERM", "cell/app/gthread/TERM", "cell/stream/gevent/TERM", "cell/app/eventlet/TERM",
                "two_listener_in_flight_checks", "graceful_raised_by_reload_checks", "graceful_lowered_by_reload_checks",
                "pool_full_at_stop_checks/eventlet", "worker_timeout_disabled_in_flight_checks",
                "worker_timeout_below_graceful_in_flight_checks",
                "self_retiring_worker_in_flight_checks/sync", "self_retiring_worker_in_flight_checks/gthread",
                "self_retiring_worker_in_flight_checks/gevent", "self_retiring_worker_in_flight_checks/eventlet",
                "stop_while_workers_import_checks/start/quick", "stop_while_workers_import_checks/reload/quick",
                "stop_while_workers_import_checks/sync", "stop_while_workers_import_checks/gthread",
                "stop_while_workers_import_checks/gevent", "stop_while_workers_import_checks/eventlet",
                *["files_moved_by_reload_checks/" + k for k in MOVES])
    scs = scenarios(tier, seed)
    shards = [{"scenario": sc, "seed": seed, "tier": tier} for sc in scs]
    run.assumptions = [
        "slack: master exit is late only beyond graceful_timeout (TERM) or 2 s (INT/QUIT) plus 3 s, and only when the measured scheduling lag is below 0.5 s",
        "phases are established by handshake (phase log / release files) before the signal is sent; a connection that is idle or keep-alive idle carries no request in progress",
        "TLS, reuse_port and systemd socket activation are not part of the scenarios",
        "a worker 'has reached max_requests' when its own log line announcing the restart after the current request is in the error "
        "log before the signal is sent; a worker 'is importing the application' from the moment the application module reports so in "
        "the phase log (that is after the worker installed its own signal handlers) until the module has been loaded",
        "worker timeout cells: `timeout` 0 (supervision disabled) for every class; `timeout` 2 s below graceful_timeout 8 s with a request "
        "that ends 3.2-3.6 s after TERM only for gthread / gevent / eventlet (a sync worker busy for longer than `timeout` is killed by "
        "the supervision itself, before any shutdown - C11's subject)",
        "files moved by a reload: the harness keeps a ledger of every pid file / unix socket path a configuration in force during the "
        "master's life named; a move is established once the whole pool was started by the reload, the address in force accepts and "
        "the files of the new configuration exist; judged at master exit + 0.5 s like the files of the last configuration; whether a "
        "former TCP address still accepts is not judged (the port may have been handed to another process since)",
        "after a reload that changes graceful_timeout the value in force is the reloaded one (judged only once every worker of the "
        "pool was started by that reload); the lowered-by-reload cell is a wall-clock judgement and is skipped under scheduling lag",
    ]
    common.run_sharded(run, shards, timeout=600 if tier == "quick" else 3600, nproc=min(12, common.NCPU))
    return run.finish()


def replay(path):
    from vlib import e4_live as e4
    with open(path) as f:
        rec = json.load(f)
    run = Run(PROP, "quick", 0, "exploration", RULE)
    v, reason, info = run_scenario(run, e4, rec["case"])
    print("info:", info, "inconclusive:", reason)
    for mech, s in v:
        print("VIOLATION property=%s replay=%s\n  %s %s" % (PROP, path, mech, s))
    if not v:
        print("no violation on replay")
    return 1 if v else 0
