"""C02 Responses on the wire are correctly framed; keep-alive only when safe.

Monitor: real worker request loops (E2: sync / gthread / base_async) over a socketpair; the bytes
the client end receives are judged by the independent response reader vlib/ref_resp.py against
the application program's output model.
"""
import json

from vlib import common, ref_resp
from vlib.common import Run, rng_for, hexs

PROP = "C02"
RULE = ("case = (worker loop in {sync,gthread,async}, keepalive/sendfile/threads configuration, 1-2 pipelined "
        "request heads: version x method x Connection spelling x body framing, application program: status x "
        "declared length x production mode {list,gen,write,write+iter,file_wrapper(real/empty/BytesIO)} x chunk "
        "sequence with empty chunks x lazy start_response x exc_info retry x failure point x close()); "
        "non-trivial = response with non-empty or explicitly framed body or a failure point; distinct = sha1(case)")

STATUSES = ["200 OK", "201 Created", "204 No Content", "301 Moved Permanently", "304 Not Modified",
            "404 Not Found", "500 Internal Server Error", "299 " + "Long reason " * 20,
            # every other class of final status is delimited like a 200: only 1xx/204/304 (and HEAD)
            # end at the blank line by the message format itself (RFC 9112 6.3)
            "205 Reset Content", "202 Accepted", "206 Partial Content", "203 Non-Authoritative Information",
            "300 Multiple Choices", "302 Found", "303 See Other", "305 Use Proxy", "307 Temporary Redirect",
            "400 Bad Request", "401 Unauthorized", "408 Request Timeout", "412 Precondition Failed",
            "416 Range Not Satisfiable", "426 Upgrade Required", "501 Not Implemented",
            "503 Service Unavailable", "599 Whatever"]
CONN_VARIANTS = [None, None, None, ["close"], ["keep-alive"], ["Keep-Alive"], ["Close"], ["close, TE"],
                 ["TE, close"], ["keep-alive", "close"], ["TE"], [" close "]]


def gen_request(rng, idx, last):
    version = rng.choice(["1.1", "1.1", "1.1", "1.0"])
    method = rng.choice(["GET", "GET", "HEAD", "POST-cl", "POST-chunked", "OPTIONS*", "DELETE"])
    conn = rng.choice(CONN_VARIANTS)
    if version == "1.0" and method == "POST-chunked":
        method = "POST-cl"
    expect = method.startswith("POST") and rng.random() < 0.3
    return {"version": version, "method": method, "conn": conn, "expect": expect,
            "body": rng.choice(["", "abc", "x" * 50])}


def render_request(r, idx):
    m = r["method"]
    target = "/r%d" % idx
    lines = []
    body = r["body"].encode()
    if m == "OPTIONS*":
        first = "OPTIONS * HTTP/%s" % r["version"]
    elif m.startswith("POST"):
        first = "POST %s HTTP/%s" % (target, r["version"])
    else:
        first = "%s %s HTTP/%s" % (m, target, r["version"])
    lines.append("Host: h")
    framed = b""
    if m == "POST-cl":
        lines.append("Content-Length: %d" % len(body))
        framed = body
    elif m == "POST-chunked":
        lines.append("Transfer-Encoding: chunked")
        framed = (b"%x\r\n" % len(body) + body + b"\r\n" if body else b"") + b"0\r\n\r\n"
    for c in r["conn"] or []:
        lines.append("Connection: " + c)
    if r["expect"]:
        lines.append("Expect: 100-continue")
    return (first + "\r\n" + "".join(l + "\r\n" for l in lines) + "\r\n").encode("latin-1") + framed


def wire_method(r):
    m = r["method"]
    return "POST" if m.startswith("POST") else "OPTIONS" if m == "OPTIONS*" else m


def asked_close(r):
    toks = []
    for c in r["conn"] or []:
        toks += [t.strip().lower() for t in c.split(",")]
    if "close" in toks:
        return True
    if r["version"] == "1.0":
        return "keep-alive" not in toks
    return False


def gen_program(rng, req):
    method = wire_method(req)
    status = rng.choice(STATUSES[:8]) if rng.random() < 0.6 else rng.choice(STATUSES[8:])
    code = int(status.split()[0])
    nobody = method == "HEAD" or code in (204, 304)
    spec = {"status": status, "headers": [], "read_input": rng.choice(["all", "all", "none", 1])}
    for _ in range(rng.randint(0, 2)):
        spec["headers"].append(rng.choice([["X-App", "v"], ["Content-Type", "text/plain"], ["X-Empty", ""],
                                           ["Set-Cookie", "a=b; Path=/"], ["X-Latin", "caf\xe9"]]))
    if nobody:
        chunks = rng.choice([[], [b""], []])
        spec["mode"] = rng.choice(["list", "gen"])
        spec["cl"] = rng.choice([None, None, "exact"]) if code != 204 else None
        if method == "HEAD" and rng.random() < 0.3:
            spec["headers"].append(["Content-Length", "1234"])
            spec["cl"] = None
    else:
        n = rng.randint(0, 6)
        chunks = []
        for _ in range(n):
            k = rng.random()
            if k < 0.25:
                chunks.append(b"")
            elif k < 0.8:
                chunks.append(bytes(rng.choice(b"abcdefg\r\n0") for _ in range(rng.randint(1, 40))))
            else:
                chunks.append(bytes(rng.randrange(256) for _ in range(rng.choice([100, 8192, 20000]))))
        spec["mode"] = rng.choice(["list", "gen", "gen", "write", "write+iter", "file", "file"])
        spec["cl"] = rng.choice([None, None, "exact", "exact", "cut", "zero"])
        if spec["mode"] == "file":
            data_len = sum(len(c) for c in chunks)
            kind = rng.choice(["real", "real", "bytesio"])
            if rng.random() < 0.25:
                chunks = []
                data_len = 0
            off = rng.choice([0, 0, 0, min(data_len, 3), data_len // 2])
            spec["file"] = {"kind": kind, "offset": off}
            if spec["cl"] == "cut" and kind != "real":
                spec["cl"] = rng.choice([None, "exact"])
            # (a Content-Length shorter than what is left of a real file: the range-style response - the body ends at the length)
    spec["chunks"] = [c.hex() for c in chunks]
    total = sum(len(c) for c in chunks)
    if spec.get("cl") == "cut":
        spec["cut_by"] = rng.randint(1, max(1, total))
    if req.get("expect") or rng.random() < 0.15:
        spec["read_when"] = rng.choice(["first", "after_start", "after_first_chunk", "after_first_chunk"])
    spec["lazy_start"] = spec["mode"] == "gen" and rng.random() < 0.3
    spec["exc_info_retry"] = rng.random() < 0.08
    spec["has_close"] = rng.random() < 0.7
    if rng.random() < 0.12:
        opts = ["before_start", "after_start"]
        if spec["mode"] in ("gen", "write+iter"):
            opts += [["after_chunk", i] for i in range(0, len(chunks) + 1)]
        spec["fail"] = rng.choice(opts)
        spec["fail_exc"] = rng.choice(["app", "app", "oserror", "filenotfound", "permission", "timeout", "valueerror"])
    if not nobody and spec["status"].startswith("200") and rng.random() < 0.05:
        # the failure is caught by the application stack, which offers an error page through start_response(..., exc_info) - after
        # an empty first chunk (the head may have been flushed by it) or after real output
        first = rng.choice([b"", b"", b"x"])
        spec.update({"mode": "gen", "chunks": [first.hex(), b"hello".hex()], "cl": rng.choice(["exact", None]), "lazy_start": False,
                     "fail": ["after_chunk", 1], "fail_exc": "app", "fail_exc_info": True, "exc_info_retry": False})
        spec.pop("file", None)
        spec.pop("cut_by", None)
    return spec


CFG_VARIANTS = [
    {"keepalive": 2},
    {"keepalive": 0},
    {"keepalive": 2, "sendfile": False},
    {"keepalive": 2, "threads": 2, "worker_connections": 2},      # gthread: no keep-alive slot left
    {"keepalive": 5, "threads": 1, "worker_connections": 10},
]


def make_case(rng):
    nreq = rng.choice([1, 2, 2, 3])
    reqs = [gen_request(rng, i, i == nreq - 1) for i in range(nreq)]
    progs = [gen_program(rng, r) for r in reqs]
    slow = None
    if rng.random() < 0.012:
        # a response far larger than the socket buffers, on the last request of the connection, read by a client that takes
        # its time: the server has to block in send
        big = progs[-1]
        code = int(big["status"].split()[0])
        if wire_method(reqs[-1]) != "HEAD" and code not in (204, 304) and big.get("mode") in ("list", "gen", "write", "write+iter"):
            big["chunks"] = [{"rep": [rng.randrange(256), rng.choice([700000, 1500000])]}]
            big["cl"] = rng.choice([None, "exact"])
            big.pop("cut_by", None)
            slow = 0.25
    case = {"kind": rng.choice(["sync", "gthread", "async"]), "cfg": rng.randrange(len(CFG_VARIANTS)), "read_delay": slow,
            "reqs": reqs, "progs": progs,
            "segments": rng.choice([None, None, "bytes", "random", "delayed"])}
    if rng.random() < 0.1:
        case["stop_during"] = nreq - 1         # the worker is told to stop while the last request's application runs
    return case


class Router:
    """Dispatches successive requests of one connection to their programs."""

    def __init__(self, e2, specs, scratch, worker=None, stop_during=None):
        self.apps = [e2.AppProgram(s, scratch) for s in specs]
        self.n = 0
        self.worker = worker
        self.stop_during = stop_during

    def __call__(self, environ, start_response):
        i = min(self.n, len(self.apps) - 1)
        self.n += 1
        if self.stop_during == i and self.worker is not None:
            # the worker is told to stop (TERM from the master, max_requests reached on another thread) while the application of
            # this request runs: whatever the server decided before the call, the response still has to be delimited as its head says
            self.worker.alive = False
        return self.apps[i](environ, start_response)


def judge(case, out, router):
    """Returns list of (mechanism, summary)."""
    v = []
    reqs, progs = case["reqs"], case["progs"]
    methods = [wire_method(r) for r in reqs]
    data = out["received"]
    if out["handler_exc"]:
        v.append(("exception-escaped-handler", out["handler_exc"]))
    if out["hung"]:
        v.append(("handler-hung", "request loop did not finish within the watchdog"))
        return v
    res = parse_lenient_head_errors(data, methods, out["eof"])
    resps = res.responses
    # an application that failed before anything of its response was sent may be answered by a clean 500 (generic
    # exceptions) or by nothing at all (gunicorn treats an OSError from the application like a socket error): a bare
    # interim 100 Continue without a final response is "nothing"
    failed_silently = None
    for i, app in enumerate(router.apps):
        if app.calls and app.rec.get("failed_at") and i == len(resps) and i < router.n:
            if progs[i].get("fail_exc") in ("oserror", "filenotfound", "permission", "timeout"):
                failed_silently = i
            elif not app.rec.get("written") and not any(len(c) for c in app.rec.get("produced", [])):
                # an ordinary exception before any byte of the response went out: the client is owed the server's own 500
                v.append(("failure-before-send-not-a-clean-500", "app failed at %s with an ordinary exception before any byte: the client "
                          "got no response at all (%d responses for %d requests, problem=%s)" % (
                              app.rec.get("failed_at"), len(resps), len(reqs), res.problem)))
                return v
    if failed_silently is not None and res.problem in (None, "interim-without-final"):
        res.problem = None
        if failed_silently == 0 and not resps:
            if not out["eof"]:
                v.append(("connection-left-open", "application failed, nothing sent, and the server did not close"))
            return v
    # walk the responses
    for i, rp in enumerate(resps):
        if i >= len(reqs):
            v.append(("more-responses-than-requests", "%d responses for %d requests" % (len(resps), len(reqs))))
            return v
        spec = progs[i]
        app = router.apps[i]
        rec = app.rec if app.calls else None
        fail = spec.get("fail")
        code = int(spec["status"].split()[0])
        method = methods[i]
        failed = rec is not None and rec.get("failed_at")
        if rec is not None and rec.get("late_replaced"):
            # the server accepted start_response(..., exc_info) after a failure: legal only while nothing of the first response
            # has gone out - then the client must see exactly the replacement
            from vlib.e2_worker import LATE_BODY
            okr = rp.status == 500 and rp.complete and (res.problem is None or i < len(resps) - 1) and \
                rp.body == (b"" if method == "HEAD" else LATE_BODY)
            if not okr:
                v.append(("exc-info-replacement-accepted-after-output", "the application failed after its first (empty) chunk and offered "
                          "an error page through start_response(exc_info); the server accepted it, the client received status=%s "
                          "complete=%s body=%r problem=%s" % (rp.status, rp.complete, rp.body[:40], res.problem)))
                return v
            continue
        if failed:
            sent_before_failure = failed.startswith("after_chunk") and (
                any(len(c) for c in rec["produced"]) or True)
            if failed in ("before_start", "after_start") or (
                    failed.startswith("after_chunk") and not rp_started_by_app(rp, code)):
                # nothing of the application's response was sent: the server's own 500, closed
                if not (rp.status == 500 and rp.complete and rp.announces_close() and i == len(resps) - 1
                        and res.problem is None):
                    v.append(("failure-before-send-not-a-clean-500",
                              "app failed at %s before any byte: client got status=%s complete=%s close=%s problem=%s"
                              % (failed, rp.status, rp.complete, rp.announces_close(), res.problem)))
                return v
            # bytes were sent: must be a detectable truncation (unless everything declared was delivered)
            if rp.complete and res.problem is None:
                exp = app.expected_body(method, code)
                if rp.framing == "chunked":
                    v.append(("failure-after-send-looks-complete",
                              "app failed at %s after bytes were sent, yet the chunked response is terminated "
                              "normally" % failed))
                elif rp.framing == "cl" and len(rp.body) == int(rp.get(b"content-length")[0]):
                    pass        # every declared byte arrived before the failure: nothing left to truncate
            if i != len(resps) - 1:
                v.append(("response-after-failed-response", "a response follows one whose application failed"))
            return v
        # ---- normal completion ----
        if res.problem is not None and i == len(resps) - 1:
            v.append(("malformed-response-stream/" + res.problem,
                      "response #%d: %s %s | wire=%s" % (i, res.problem, res.detail, hexs(data[-200:]))))
            return v
        if rp.status != code:
            v.append(("status-differs", "response #%d status %s, application said %s" % (i, rp.status, code)))
            return v
        exp = b"" if (method == "HEAD" or code in (204, 304)) else app.expected_body(method, code)
        if rp.body != exp:
            v.append(("body-differs/" + str(rp.framing),
                      "response #%d (%s, mode=%s, cl=%s): decoded body %d bytes != application output %d bytes "
                      "(%r... vs %r...)" % (i, rp.framing, spec.get("mode"), spec.get("cl"), len(rp.body), len(exp),
                                            rp.body[:40], exp[:40])))
            return v
        if rp.framing == "cl" and spec.get("cl") is None and not any(h[0].lower() == "content-length"
                                                                     for h in spec["headers"]):
            v.append(("content-length-invented", "server announced a Content-Length the application did not set"))
        # persistence
        if i + 1 < len(resps):
            why = None
            if rp.framing == "close":
                why = "response was close-delimited"
            elif asked_close(reqs[i]):
                why = "client asked to close (Connection tokens %r, HTTP/%s)" % (reqs[i]["conn"], reqs[i]["version"])
            elif rp.announces_close():
                why = "server announced Connection: close"
            elif not rp.announces_keepalive():
                why = "server did not announce keep-alive"
            if why:
                mech = "kept-open-unsafely/" + why.split(" (")[0].replace(" ", "-")
                v.append((mech, "response #%d was followed by another response although %s" % (i, why)))
                return v
        else:
            # last response received: if it promised keep-alive and an unanswered request was pending -> broken promise
            if rp.announces_keepalive() and i + 1 < len(reqs) and not asked_close(reqs[i]) and failed_silently != i + 1:
                v.append(("announced-keepalive-then-closed",
                          "response #%d announced keep-alive but the pipelined request #%d was never answered"
                          % (i, i + 1)))
        # close() exactly once
        if rec is not None and spec.get("has_close", True) and spec.get("mode") != "file":
            returned_iter = not (spec.get("mode") == "list" and not isinstance(fail, list))
            if returned_iter and rec["close_calls"] != 1:
                v.append(("close-not-called-once", "iterable.close() called %d times" % rec["close_calls"]))
        if rec is not None and spec.get("mode") == "file" and "fileobj" in rec and not rec["fileobj"].closed:
            v.append(("file-not-closed", "file wrapper's file left open"))
    if not resps:
        if res.problem:
            v.append(("malformed-response-stream/" + res.problem, "%s %s | wire=%s" % (
                res.problem, res.detail, hexs(data[:200]))))
        else:
            v.append(("no-response", "well-formed request got no response at all"))
    elif res.problem is not None and not v:
        v.append(("malformed-response-stream/" + res.problem,
                  "%s %s | wire=...%s" % (res.problem, res.detail, hexs(data[-200:]))))
    if not out["eof"]:
        v.append(("connection-left-open", "client half-closed after its last request but the server never closed"))
    return v


def parse_lenient_head_errors(data, methods, eof):
    """gunicorn's own error page carries a body even when the failed request was a HEAD; the
    connection is closed right after, so this is tolerated: such a response is read by its
    Content-Length."""
    methods = list(methods)
    for _ in range(len(methods) + 1):
        res = ref_resp.parse(data, methods, closed=eof)
        for i, rp in enumerate(res.responses):
            if i < len(methods) and methods[i] == "HEAD" and rp.status >= 400 and not rp.get(b"server") \
                    and rp.get(b"content-type") == [b"text/html"]:
                methods[i] = "HEAD-answered-by-error-page"
                break
        else:
            return res
    return res


def rp_started_by_app(rp, code):
    """True if the response on the wire is the application's (status matches), i.e. its head was sent."""
    return rp.status == code and not (rp.status == 500 and rp.get(b"content-type") == [b"text/html"]
                                      and not rp.get(b"server"))


def run_case(run, e2, harnesses, case, scratch):
    key = (case["kind"], case["cfg"])
    h = harnesses.get(key)
    if h is None:
        h = harnesses[key] = e2.Harness(case["kind"], CFG_VARIANTS[case["cfg"]], scratch=scratch)
    script = b"".join(render_request(r, i) for i, r in enumerate(case["reqs"]))
    router = Router(e2, case["progs"], scratch, worker=h.worker, stop_during=case.get("stop_during"))
    if case.get("stop_during") is not None:
        run.count("worker_told_to_stop_during_an_application_call")
    seg = None
    if case["segments"] == "bytes" and len(script) < 400:
        seg = [1] * len(script)
    elif case["segments"] == "random":
        rng = rng_for(0, common.sha12(case))
        cuts = sorted(rng.sample(range(1, len(script)), min(len(script) - 1, 3)))
        seg = [b - a for a, b in zip([0] + cuts, cuts + [len(script)])]
    seg_delay = 0.0
    if case["segments"] == "delayed" and len(case["reqs"]) > 1:
        # the last request arrives in two pieces 30 ms apart (cut inside its head or body)
        last = render_request(case["reqs"][-1], len(case["reqs"]) - 1)
        cutp = len(script) - max(1, len(last) // 2)
        seg = [cutp, len(script) - cutp]
        seg_delay = 0.03
    out = h.connection(script, router, segments=seg, segment_delay=seg_delay, read_delay=case.get("read_delay") or 0.0,
                       timeout=8.0 if case.get("read_delay") else 4.0)
    verdicts = judge(case, out, router)
    # reach counters
    res = parse_lenient_head_errors(out["received"], [wire_method(r) for r in case["reqs"]], out["eof"])
    for rp in res.responses:
        run.count("responses_parsed")
        run.count("framing/" + str(rp.framing))
    if len(res.responses) > 1:
        run.count("keepalive_continuations")
    for p in case["progs"]:
        if p.get("fail"):
            run.count("programs_with_failure_point")
        if p.get("mode") == "file":
            run.count("file_wrapper_programs")
    if case.get("read_delay"):
        run.count("large_response_slow_reader_cases")
    if seg_delay:
        run.count("delayed_second_piece_cases")
    return verdicts, out


def nontrivial(case):
    return any(p.get("chunks") or p.get("fail") or p.get("cl") for p in case["progs"])


LIVE_APP = r"""
import base64, json, os, sys
sys.path.insert(0, %r)
from vlib.e2_worker import AppProgram
HERE = os.path.dirname(os.path.abspath(__file__))

def app(environ, start_response):
    spec = json.loads(base64.b64decode(environ["HTTP_X_PROG"]))
    return AppProgram(spec, HERE)(environ, start_response)
"""


class _LiveRouter:
    # what judge() needs to know about the application side, reconstructed from the specs (programs without failure points)
    def __init__(self, e2, specs, n):
        self.apps = [e2.AppProgram(sp) for sp in specs]
        for a in self.apps:
            a.calls = [{}]
            a.rec = {"failed_at": None, "close_calls": 1}
        self.n = n


def live_shard(sh):
    # A sample of the same programs against a real server of one worker class over TCP: real accept loop, the worker
    # class's own sockets (gevent / eventlet monkey-patched), real socket.sendfile / eventlet's patched sendfile
    import base64
    import socket
    import time
    from vlib import e2_worker as e2
    from vlib import e4_live as e4
    run = Run(PROP, sh.get("tier", "quick"), sh["seed"], "exploration", RULE)
    wc = sh["class"]
    rng = rng_for(sh["seed"], "c02-live", wc)
    settings = {"keepalive": 2, "graceful_timeout": 2, "timeout": 30}
    if wc == "gthread":
        settings["threads"] = 2
    srv = e4.Server("c02", worker_class=wc, workers=1, settings=settings, app_source=LIVE_APP % common.VERIF,
                    env={"VERIF_REPO": common.REPO})
    try:
        srv.start()
        if not srv.wait_workers(1, 25) or not srv.wait_listening(5):
            run.inconclusive_because("live server (%s) did not boot: %s" % (wc, srv.stderr()[-200:]))
            return run
        for k in range(sh["n"]):
            if run.enough():
                break
            case = make_case(rng)
            case["kind"] = "live-" + wc
            late_reader = None
            if k in (9, 49, 89):
                # one large chunked response read by a client that starts late, with a small receive buffer
                r0 = {"version": "1.1", "method": "GET", "conn": ["close"], "expect": False, "body": ""}
                p0 = {"status": "200 OK", "headers": [], "mode": rng.choice(["gen", "list"]),
                      "chunks": [{"rep": [80 + j, 262144]} for j in range(rng.choice([6, 12]))], "cl": None, "lazy_start": False, "has_close": False}
                case["reqs"], case["progs"] = [r0], [p0]
                late_reader = 1.0
                run.count("live_large_chunked_to_late_reader")
            if k in (13, 53, 93):
                # a range-style file response: Content-Length smaller than what is left of the file, larger than any block size
                size = rng.choice([220000, 300001])
                cut_by = rng.choice([120000, 69393, size - 100000])
                off = rng.choice([0, 0, 70000])
                r0 = {"version": "1.1", "method": "GET", "conn": None, "expect": False, "body": ""}
                r1 = {"version": "1.1", "method": "GET", "conn": ["close"], "expect": False, "body": ""}
                p0 = {"status": "200 OK", "headers": [], "mode": "file", "file": {"kind": "real", "offset": off},
                      "chunks": [{"rep": [70, size]}], "cl": "cut", "cut_by": max(1, min(cut_by, size - off - 1)), "has_close": False}
                p1 = {"status": "200 OK", "headers": [], "mode": "list", "chunks": [b"after".hex()], "cl": "exact", "has_close": False}
                case["reqs"], case["progs"] = [r0, r1], [p0, p1]
                run.count("live_range_style_file_responses")
            if k in (5, 45, 85, 125):
                # a response that takes longer than the keep-alive time to produce, with a pipelined request behind it
                r0 = {"version": "1.1", "method": "GET", "conn": None, "expect": False, "body": ""}
                r1 = {"version": "1.1", "method": "GET", "conn": rng.choice([None, ["close"]]), "expect": False, "body": ""}
                p0 = {"status": "200 OK", "headers": [["X-App", "slow"]], "mode": "gen", "chunks": [b"first-part;".hex(), b"second-part".hex()],
                      "cl": rng.choice([None, "exact"]), "lazy_start": False, "chunk_delay": settings["keepalive"] + 0.7,
                      "exc_info_retry": False, "has_close": False}
                p1 = {"status": "200 OK", "headers": [], "mode": "list", "chunks": [b"after".hex()], "cl": "exact", "has_close": False}
                case["reqs"], case["progs"] = [r0, r1], [p0, p1]
                run.count("live_slow_responses")
            for p in case["progs"]:
                p.pop("fail", None)
                p["has_close"] = False
                # the program travels in a request header: long chunks become runs of one byte
                p["chunks"] = [c if len(c) <= 120 else {"rep": [int(c[:2], 16), len(c) // 2]} for c in p.get("chunks", [])]
            script = b""
            for i, r in enumerate(case["reqs"]):
                raw = render_request(r, i)
                head, sep, rest = raw.partition(b"\r\n")
                prog = base64.b64encode(json.dumps(case["progs"][i]).encode())
                script += head + b"\r\nX-Prog: " + prog + b"\r\n" + rest
            out = {"handler_exc": None, "hung": False, "received": b"", "eof": False}
            try:
                if late_reader:
                    s = socket.socket(socket.AF_INET, socket.SOCK_STREAM)
                    s.setsockopt(socket.SOL_SOCKET, socket.SO_RCVBUF, 4096)
                    s.settimeout(5)
                    s.connect(srv.addr)
                else:
                    s = e4.connect(srv.addr, 5)
                s.sendall(script)
                s.shutdown(socket.SHUT_WR)
                if late_reader:
                    time.sleep(late_reader)
                s.settimeout(8)
                buf = b""
                while True:
                    d = s.recv(65536)
                    if not d:
                        out["eof"] = True
                        break
                    buf += d
                out["received"] = buf
                s.close()
            except socket.timeout:
                out["hung"] = True
            except OSError as e:
                out["received"] = buf if "buf" in dir() else b""
                out["eof"] = True
                out["client_err"] = repr(e)
            router = _LiveRouter(e2, case["progs"], len(case["reqs"]))
            verdicts = judge(case, out, router)
            run.case(common.sha12(case), nontrivial=nontrivial(case))
            run.count("live_connections")
            run.count("live_class/" + wc)
            for mech, summary in verdicts:
                run.violation("live/" + mech, summary + " | live %s reqs=%s prog=%s" % (
                    wc, [(r["method"], r["version"], r["conn"]) for r in case["reqs"]],
                    [{k2: v2 for k2, v2 in p.items() if k2 != "chunks"} for p in case["progs"]][:2]), dict(case, live=wc))
        if not srv.worker_pids():
            run.violation("live/worker-died", "no worker left after the sample: %s" % srv.error_log()[-300:], {"live": wc})
    finally:
        srv.cleanup()
    return run


def shard(sh):
    if sh.get("kind") == "live":
        return live_shard(sh)
    from vlib import e2_worker as e2
    run = Run(PROP, sh.get("tier", "quick"), sh["seed"], "exploration", RULE)
    rng = rng_for(sh["seed"], "c02", sh["sub"])
    scratch = common.scratch_dir("c02")
    harnesses = {}
    fd0 = None
    try:
        for k in range(sh["n"]):
            if run.enough():
                break
            case = make_case(rng)
            run.case(common.sha12(case), nontrivial=nontrivial(case))
            run.count("kind/" + case["kind"])
            verdicts, out = run_case(run, e2, harnesses, case, scratch)
            for mech, summary in verdicts:
                run.violation(mech, summary + " | kind=%s cfg=%s reqs=%s prog=%s" % (
                    case["kind"], CFG_VARIANTS[case["cfg"]],
                    [(r["method"], r["version"], r["conn"]) for r in case["reqs"]],
                    [{k2: v2 for k2, v2 in p.items() if k2 != "chunks"} for p in case["progs"]][:2]), case)
            if k < 1:
                run.sample({"kind": case["kind"], "cfg": CFG_VARIANTS[case["cfg"]],
                            "requests": [(r["method"], r["version"], r["conn"]) for r in case["reqs"]],
                            "programs": [{k2: v2 for k2, v2 in p.items() if k2 != "chunks"} for p in case["progs"]],
                            "wire_head": hexs(out["received"][:160])})
            if k == 200:
                fd0 = e2.nfds()
                nh0 = len(harnesses)
        if fd0 is not None:
            fd1 = e2.nfds()
            run.count("fd_leak_checks")
            if fd1 > fd0 + 8 + 4 * max(0, len(harnesses) - nh0):        # (worker objects created later own a few descriptors each)
                run.violation("descriptor-leak", "open descriptors grew from %d to %d over %d connections" % (
                    fd0, fd1, sh["n"] - 200), {"note": "aggregate over shard", "shard": sh})
    finally:
        for h in harnesses.values():
            h.close()
        import shutil
        shutil.rmtree(scratch, ignore_errors=True)
    return run


def main(tier, seed):
    run = Run(PROP, tier, seed, "exploration", RULE)
    run.require("worker_told_to_stop_during_an_application_call", "responses_parsed", "framing/cl", "framing/chunked", "framing/close", "framing/none",
                "keepalive_continuations", "programs_with_failure_point", "file_wrapper_programs",
                "kind/sync", "kind/gthread", "kind/async", "large_response_slow_reader_cases")
    q = tier == "quick"
    shards = [{"n": 1500 if q else 20000, "sub": s, "seed": seed, "tier": tier} for s in range(32 if q else 64)]
    shards += [{"kind": "live", "class": c, "n": 250 if q else 2000, "seed": seed, "tier": tier}
               for c in ("sync", "gthread", "gevent", "eventlet")]
    run.require("live_connections", "live_class/sync", "live_class/gthread", "live_class/gevent", "live_class/eventlet", "live_slow_responses", "live_large_chunked_to_late_reader",
                "live_range_style_file_responses")
    run.assumptions = [
        "client = AF_UNIX socketpair end driven by the harness: sends all pipelined requests, half-closes, reads to EOF",
        "well-behaved applications only: no body for HEAD/204/304, no under-production against a declared length, str status 'NNN reason'",
        "HTTP/1.0 close-delimited responses cannot reveal truncation; not judged",
        "live sub-tier: 250 connections per worker class against real sync / gthread / gevent / eventlet servers over TCP (programs without failure points)",
    ]
    common.run_sharded(run, shards, timeout=900 if q else 7200)
    return run.finish()


def replay(path):
    from vlib import e2_worker as e2
    with open(path) as f:
        rec = json.load(f)
    run = Run(PROP, "quick", 0, "exploration", RULE)
    scratch = common.scratch_dir("c02")
    hs = {}
    try:
        v, out = run_case(run, e2, hs, rec["case"], scratch)
    finally:
        for h in hs.values():
            h.close()
        import shutil
        shutil.rmtree(scratch, ignore_errors=True)
    print("wire:", hexs(out["received"][:600]))
    for mech, s in v:
        print("VIOLATION property=%s replay=%s\n  %s %s" % (PROP, path, mech, s))
    if not v:
        print("no violation on replay")
    return 1 if v else 0
