"""C18 max_requests recycles workers without losing requests.

E2 part: the counting rule on real worker objects (sync / gthread / base_async handle loops): the
worker stays alive below max_requests, stops at max_requests + its jitter, the limit-reaching
response is complete (keep-alive on and off).  E3 part: the real Arbiter.run() on the simulated kernel
while one or several workers leave by themselves at the same instant, each exit placed while the
master sleeps or between two source lines of its pass over the worker table: the master stays in its
loop, kills nobody, the pool is refilled - also with timeout = 0 (workers are never timed out).  E5 part: the real
ThreadWorker.run() under the scripted scheduler: work handed to the pool is handled, and every readable event of an accepted
connection that select() hands to the loop is acted upon, also when a pool thread reached the limit while the loop was polling
(a request arriving on a connection accepted earlier).  E4 part: real servers of every worker class under sequential and concurrent
load; every client outcome classified, requests counted per answering pid, pool size monitored; a request that needs seconds in
flight when another one reaches the limit (gevent, eventlet, gthread) - also one that needs longer than `timeout`, which these
classes serve in normal operation; persistent HTTP/1.1 clients whose requests wait in the threaded worker (more connections than
threads) while the limit is reached: a connection declared open in a response is open for the next request; timeout = 0; two
listeners (either order) with a request held in flight on one of them at the limit: clients that connect to the other one, or to the
same one, while it drains are not served by the retired worker and are answered in full by its replacement.
"""
import json
import os
import threading
import time

from vlib import common, ref_resp
from vlib.common import Run, rng_for

PROP = "C18"
RULE = ("E2 cell = (worker loop, max_requests 0..6, jitter 0..3, requests per connection 1..3, keep-alive on / off); E3 cell = (pool "
        "size 1-4, number of workers leaving at the same instant, instant on / off the master's wake-up, placement of each exit: "
        "while the master sleeps or before the k-th source line of its pass over the worker table); live cell = (worker class, "
        "workers 1-2, max_requests 2-5, jitter 0-2, load shape sequential / 8 concurrent clients, keep-alive 0 / 2, bind tcp / unix "
        "/ both, timeout 30 / 0; or: a 4 s request in flight at the limit, timeout 30; a 10 s one, timeout 4; or: gthread, threads 1-3, "
        "max_requests threads+1..+3, 3-5 persistent HTTP/1.1 clients whose requests wait for a thread when the limit is reached; or: "
        "gevent / eventlet / gthread, binds tcp + unix in either order, max_requests 3-4, a request held in flight on the first / second "
        "listener at the limit, the limit reached on the same / the other listener, new clients on the other and on the same listener "
        "while it drains); "
        "E5 cell = seeded history of the scripted gthread loop, every fifth one with the limit reached while the loop polls and a "
        "late request on an earlier connection; distinct = cell tuple; every cell is non-trivial")


# ---- E2 counting rule ------------------------------------------------------------------------------

class PidApp:
    def __call__(self, environ, start_response):
        start_response("200 OK", [("Content-Length", "2")])
        return [b"ok"]


class BoomApp:
    """Every request fails inside the application (answered with 500): it has been handled all the same."""
    def __call__(self, environ, start_response):
        raise RuntimeError("scripted application failure")


def e2_failing_cell(run, e2, kind, m, j, keepalive=2):
    """max_requests counts requests handled, also those the application failed."""
    v = []
    h = e2.Harness(kind, {"max_requests": m, "max_requests_jitter": j, "keepalive": keepalive})
    h._keep_alive_flag = False
    try:
        w = h.worker
        n = 0
        pattern = [True, False, True, True]        # which requests fail
        while n < m + j + 3:
            fails = pattern[n % len(pattern)]
            out = h.connection(b"GET /r HTTP/1.1\r\nHost: h\r\n\r\n", BoomApp() if fails else PidApp())
            res = ref_resp.parse(out["received"], ["GET"], closed=out["eof"])
            if res.problem or len(res.responses) != 1 or res.responses[0].status != (500 if fails else 200):
                v.append(("response-incomplete-around-limit", "request %d (%s, application %s): problem=%s statuses=%s" % (
                    n + 1, kind, "fails" if fails else "ok", res.problem, [r.status for r in res.responses])))
                break
            n += 1
            if w.alive and n >= m + j:
                v.append(("worker-not-stopped-at-limit/failed-requests-not-counted", "%s worker still alive after %d handled requests of "
                          "which %d failed in the application (max_requests=%d, jitter=%d)" % (
                              kind, n, sum(1 for i in range(n) if pattern[i % 4]), m, j)))
                break
            if not w.alive:
                if n < m:
                    v.append(("worker-stopped-early", "%s worker stopped after %d requests (max_requests=%d)" % (kind, n, m)))
                run.count("e2_limit_reached_with_failing_requests")
                break
    finally:
        h.close()
    return v


def e5_discards(k):
    """Readable events of ACCEPTED connections that select() handed to the loop and the loop did not act upon: between that
    select() and the next one (or the closing of the poller when run() leaves its loop) the connection must have been handed to
    the pool or closed.  The unchanged loop runs the callback of every key of a select() result, whether or not a pool thread has
    meanwhile reached max_requests; a connection that has NOT been reported readable to the loop when it leaves is the known
    finding and is not judged here.  -> ([(mechanism, summary)], events seen with alive == False that were acted upon)"""
    v, acted_after_limit = [], 0
    pending = None
    for i, e in enumerate(k.log):
        if e[1] not in ("select-returned", "poller-closed"):
            continue
        if pending is not None:
            j, socks, alive = pending
            acted = set(x[2] for x in k.log[j:i] if x[1] in ("dispatch", "close"))
            for cid, nbytes, connected in socks:
                if cid in acted:
                    if not alive:
                        acted_after_limit += 1
                elif nbytes and connected:
                    v.append(("readable-event-of-accepted-connection-discarded",
                              "connection %d (accepted earlier, client connected, %d request bytes waiting) was reported readable by "
                              "select() at t=%.3f (worker.alive was %s then) and the loop neither handed it to the pool nor closed it "
                              "before %s: the request is never handled" % (
                                  cid, nbytes, k.log[j][0], alive, "leaving run()" if e[1] == "poller-closed" else "its next select()")))
        pending = (i, e[2], e[3]) if e[1] == "select-returned" else None
    return v[:1], acted_after_limit


def e5_late_request_cell(run, e5, rng):
    """The limit is reached in a pool thread WHILE the loop sits in select(), and what wakes that select() is a request arriving on
    a connection the worker accepted earlier (a pre-connected client, a slow sender): it is in the select() result, so the loop
    dispatches it and it is answered like any request in flight."""
    m = rng.randint(1, 3)
    cfg = {"threads": rng.randint(2, 4), "worker_connections": 10, "keepalive": rng.choice([0, 2]), "max_requests": m,
           "_log_selects": True}
    late = rng.randint(1, 2)                     # connections whose request comes late
    n = m + late + rng.randint(0, 1)             # (and perhaps one that never sends)
    hist = [("connect", cid, 0) for cid in range(n)] + [("time", 0.2)]
    for cid in range(m - 1):
        hist.append(("send", cid, rng.choice(["close", "ka"])))
        hist.append(("time", 0.1))
    hist += [("send", m - 1, "gated"), ("time", rng.choice([0.1, 0.4])), ("release", m - 1)]
    for cid in range(m, m + late):
        hist.append(("send", cid, rng.choice(["ka", "close"])))
    hist.append(("time", 3.0))
    case = {"cfg": cfg, "listeners": 1, "polite": True, "history": [list(x) for x in hist]}
    k = e5.run_history(cfg, [tuple(x) for x in hist], 1)
    judged = ("dispatched-request-dropped-before-handling", "request-read-then-connection-closed-unanswered",
              "closed-under-running-request")
    v = [(mm, s) for mm, s in k.violations if mm in judged]
    dv, acted = e5_discards(k)
    v += dv
    run.count("e5_histories")
    run.count("e5_late_request_histories")
    if acted:
        run.count("e5_late_request_dispatched_after_limit", acted)
        c = k.conns.get(m)
        if not v and c is not None and b"HTTP/1.1 200" not in c.sent and not k.hang:
            v.append(("late-request-dispatched-but-unanswered", "connection %d: its request was dispatched after the limit had been "
                      "reached and run() returned without a response having been written (sent %r)" % (m, c.sent[:60])))
        elif not v:
            run.count("e5_late_request_answered")
    if k.worker is not None and not k.worker.alive and getattr(k, "end", "") == "returned":
        run.count("e5_worker_left_loop_at_limit")
    return v, case, k


def e5_cell(run, e5, rng):
    """The threaded worker leaving its loop at max_requests while work is queued for its pool (scripted scheduler, engine E5):
    a request that was handed to the pool is handled, not dropped."""
    from checks import c13
    cfg = {"threads": rng.randint(1, 2), "worker_connections": rng.choice([4, 6, 10]), "keepalive": rng.choice([0, 2]),
           "max_requests": rng.randint(1, 4), "_log_selects": True}
    if rng.random() < 0.3:
        cfg["_lock_delay"] = rng.choice([0.3, 0.6])
        cfg["_lock_seed"] = rng.randrange(1 << 30)
    n = rng.randint(2, 5)
    hist = []
    for cid in range(n):
        hist.append(("connect", cid, 0))
        hist.append(("send", cid, rng.choice(["ka", "close", "ka"])))
        if rng.random() < 0.2:
            hist.append(("time", 0.3))
    hist.append(("time", 1.0))
    for cid in range(n):
        if rng.random() < 0.5:
            hist.append(("send", cid, "ka"))
    hist.append(("time", 3.0))
    case = {"cfg": cfg, "listeners": 1, "polite": True, "history": [list(x) for x in hist]}
    k = e5.run_history(cfg, [tuple(x) for x in hist], 1)
    judged = ("dispatched-request-dropped-before-handling", "request-read-then-connection-closed-unanswered",
              "closed-under-running-request")
    v = [(m, s) for m, s in k.violations if m in judged]
    dv, acted = e5_discards(k)
    v += dv
    run.count("e5_histories")
    if acted:
        run.count("e5_events_acted_upon_after_limit", acted)
    if k.worker is not None and not k.worker.alive and getattr(k, "end", "") == "returned":
        run.count("e5_worker_left_loop_at_limit")
    if k.reach.get("queued_work_cancelled_at_shutdown"):
        run.count("e5_queued_work_cancelled")
    return v, case, k


def e2_cell(run, e2, kind, m, j, per_conn, keepalive=2):
    """keepalive = 0: keep-alive switched off (every response closes its connection): the counting rule is the same."""
    v = []
    h = e2.Harness(kind, {"max_requests": m, "max_requests_jitter": j, "keepalive": keepalive})
    h._keep_alive_flag = False
    try:
        w = h.worker
        limit_real = w.max_requests
        n = 0
        stopped_at = None
        total = (m + j + 4) if m else 1000
        while n < total:
            k = per_conn if kind != "sync" else 1
            k = min(k, total - n)
            script = b"".join(b"GET /r HTTP/1.1\r\nHost: h\r\n\r\n" for _ in range(k))
            out = h.connection(script, PidApp())
            res = ref_resp.parse(out["received"], ["GET"] * k, closed=out["eof"])
            got = len(res.responses)
            if res.problem or got == 0 or any(r.status != 200 or r.body != b"ok" for r in res.responses):
                v.append(("response-incomplete-around-limit", "requests %d..%d (max_requests=%d jitter=%d %s): problem=%s, "
                          "%d responses" % (n + 1, n + k, m, j, kind, res.problem, got)))
                break
            n += got
            alive = w.alive
            if m == 0:
                if not alive:
                    v.append(("recycled-with-max-requests-unset", "worker stopped after %d requests with max_requests=0" % n))
                    break
                continue
            if alive and n >= m + j:
                v.append(("worker-not-stopped-at-limit", "%s worker still alive after %d requests (max_requests=%d, jitter=%d, "
                          "keepalive=%d)" % (kind, n, m, j, keepalive)))
                break
            if not alive and stopped_at is None:
                stopped_at = n
                last = res.responses[-1]
                if n - got + 1 <= m - 1 and n < m:
                    pass
                if n < m:
                    v.append(("worker-stopped-early", "%s worker stopped after %d requests (max_requests=%d)" % (kind, n, m)))
                if kind != "sync" and not last.announces_close():
                    v.append(("limit-response-not-marked-close", "response #%d reached the limit but announces keep-alive" % n))
                if got < k:
                    run.count("e2_connection_closed_at_limit")
                break
        if m and stopped_at is not None:
            run.count("e2_limit_reached")
            if not keepalive:
                run.count("e2_limit_reached_with_keepalive_off/" + kind)
        if m == 0:
            run.count("e2_unlimited_1000_requests")
        run.info["e2_limits_seen"] = run.info.get("e2_limits_seen", 0) + (1 if stopped_at else 0)
    finally:
        h.close()
    return v


# ---- E3: the real master loop while workers leave by themselves ----------------------------------------------

class ExitPlacement:
    """Schedule for engine E3.  The i-th worker exit that becomes possible happens either at the first opportunity ("wake":
    while the master sleeps in select(), or at the return of a system call) or just before the k-th source line that the master
    executes inside Arbiter.murder_workers() from then on (its once-per-wake-up pass over the worker table).  An exit that finds
    no such line happens when virtual time advances."""

    def __init__(self, plan, lo, hi):
        self.plan = list(plan)
        self.lo, self.hi = lo, hi
        self.order = []
        self.lines_seen = {}

    def fire(self, kernel, idx, name, pid):
        if pid not in self.order:
            self.order.append(pid)
        i = self.order.index(pid)
        place = self.plan[i] if i < len(self.plan) else "wake"
        if place == "wake":
            return True
        if isinstance(name, tuple) and name[0] == "line" and self.lo <= name[1] <= self.hi:
            n = self.lines_seen.get(pid, 0)
            self.lines_seen[pid] = n + 1
            return n >= place
        return False


def e3_murder_lines(e3):
    code = e3.arb_mod.Arbiter.murder_workers.__code__
    lines = sorted(set(ln for _, _, ln in code.co_lines() if ln is not None and ln > code.co_firstlineno))
    return lines[0], lines[-1]


def e3_cell(run, e3, workers, nexits, at, plan, timeout=30):
    """`nexits` of `workers` healthy workers leave by themselves with status 0 at the same instant (what workers that reach
    max_requests together do); each exit is placed by `plan`.  The master must stay in its loop, must not signal anybody, and the
    pool must be back at `workers` processes."""
    import signal as _signal
    lo, hi = e3_murder_lines(e3)
    sc = {"workers": workers, "timeout": timeout, "graceful_timeout": 3, "default_policy": {}, "spawn_policy": {}, "max_ticks": 200,
          "events": [{"type": "worker_exit", "which": 0, "status": 0, "at": at} for _ in range(nexits)] +
                    [{"type": "end", "at": at + 5.0}]}
    k = e3.run_history(sc, ExitPlacement(plan, lo, hi))
    v = []
    run.count("e3_histories")
    inside = [d for d in k.deliveries if d[1].startswith("('line'") and lo <= int(d[1].split(",")[1].strip(" )")) <= hi]
    if inside:
        run.count("e3_worker_exits_inside_murder_workers", len(inside))
    if any(d[1].startswith(("select", "sleep", "before-time")) for d in k.deliveries):
        run.count("e3_worker_exits_while_master_sleeps")
    if nexits > 1:
        run.count("e3_simultaneous_exits")
    if not timeout:
        run.count("e3_histories_with_timeout_0")
    exited = [p for p in k.procs.values() if p.state != "run"]
    if len(exited) < nexits:
        return v, "only %d of %d scripted exits happened" % (len(exited), nexits), k
    desc = "%d of %d workers exit with status 0 at t=%.1f, placed %s%s" % (nexits, workers, at, plan,
                                                                         "" if timeout else ", timeout = 0 (workers are never timed out)")
    if k.exit_code != "running":
        errs = [m for lvl, m in getattr(k, "log_records", []) if lvl in ("error", "exception", "critical")][:2]
        exc = [e for e in k.log if e[1] == "master_exception"][:1]
        v.append(("master-stopped-when-workers-recycled", "%s: the master left its loop (exit %s)%s%s" % (
            desc, k.exit_code, " logging %s" % errs if errs else "", " %s" % (exc,) if exc else "")))
    hard = [(p.pid, sig) for p in k.procs.values() for (_t, sig) in p.sent
            if sig in (int(_signal.SIGQUIT), int(_signal.SIGKILL), int(_signal.SIGABRT), int(_signal.SIGINT))]
    if hard:
        v.append(("master-killed-workers-when-others-recycled", "%s: the master sent %s (pid, signal) although every worker's "
                  "heartbeat is current and nobody asked it to stop" % (desc, hard[:6])))
    if k.exit_code == "running":
        live = len(k.live())
        if live < workers:
            v.append(("recycled-worker-not-replaced/simulated", "%s: %d live workers 5 s later, %d configured" % (desc, live, workers)))
        else:
            run.count("e3_pool_restored_checks")
            if not timeout:
                run.count("e3_pool_restored_checks_with_timeout_0")
    return v, None, k


def e3_plans(tier, rng, workers, nexits, nlines):
    """placements of the first two exits (the others follow the second one)"""
    places = ["wake"] + list(range(nlines))
    out = []
    for p1 in places:
        if nexits == 1:
            out.append([p1])
            continue
        seconds = places if tier != "quick" else sorted(set(["wake", 0] + [rng.randrange(nlines) for _ in range(2)]), key=str)
        for p2 in seconds:
            out.append([p1, p2] + [p2] * (nexits - 2))
    return out


# ---- E4 live -------------------------------------------------------------------------------------------

def pool_accounting(samples, events, nworkers, slack=3.0):
    """Was the pool really below `nworkers` for more than `slack` seconds on end?  `samples` = [(time, set of the master's live
    children)] as the watcher saw them, `events` = the hook log (post_fork, written by each new worker; child_exit, written by the
    master when it has reaped one).  The size of the pool is followed over time as a step function: +1 when a worker appears (its own
    post_fork record, else the first sample that shows it), -1 when it goes (the master's child_exit record, else the first sample
    in which it is missing; all on one clock).  -> None, or a description of the first stretch longer than `slack` during which the
    pool stayed below target.  Unlike 'every sample showed a short pool' this cannot be produced by sparse samples of a pool whose
    workers live for a few requests and are replaced each time."""
    if not samples:
        return None
    born, gone = {}, {}
    prev = None
    for t, pids in samples:
        for p in pids:
            born.setdefault(p, t)
        if prev is not None:
            for p in prev - pids:
                gone.setdefault(p, t)
        prev = pids
    t_end = samples[-1][0]
    for e in events:
        w = e.get("wpid")
        if w is None or e.get("t") is None or e["t"] > t_end:
            continue
        if e.get("kind") == "post_fork":
            born[w] = min(born.get(w, e["t"]), e["t"])
        elif e.get("kind") == "child_exit":
            gone[w] = min(gone.get(w, e["t"]), e["t"])
    steps = sorted([(t, 1) for t in born.values()] + [(max(t, born.get(p, t)), -1) for p, t in gone.items()], key=lambda x: (x[0], x[1]))
    size, low_since, reached = 0, None, False
    for t, d in steps + [(t_end, 0)]:
        if low_since is not None and t - low_since > slack:
            return "by the record of forks and exits the pool stayed below %d for %.1f s (from %.1f s after the first sample on; %d " \
                   "workers seen in all)" % (nworkers, t - low_since, low_since - samples[0][0], len(born))
        size += d
        if size >= nworkers:
            reached, low_since = True, None
        elif reached and low_since is None:
            low_since = t
    return None


def live_scenario(run, e4, sc):
    v = []
    info = {}
    wc, nworkers, m, j = sc["class"], sc["workers"], sc["max_requests"], sc["jitter"]
    settings = {"max_requests": m, "max_requests_jitter": j, "graceful_timeout": 5, "timeout": sc.get("timeout", 30),
                "keepalive": sc.get("keepalive", 2)}
    if wc == "gthread":
        settings["threads"] = 4
    app_source = None
    give_up = threading.Event()        # (timeout = 0 scenarios only) the pool has stayed low: the verdict is in, stop the load
    req_timeout = sc.get("request_timeout", 10)
    if sc.get("failing"):
        settings["accesslog"] = "-"
        settings["access_log_format"] = "ACCESS pid=%(p)s %(U)s %(s)s"
        app_source = e4.APP_SOURCE.replace('    if kind == "pid":', '    if kind == "boom":\n        raise RuntimeError("scripted application failure")\n    if kind == "pid":', 1)
    srv = e4.Server("c18", worker_class=wc, workers=nworkers, settings=settings, bind=sc.get("bind", "tcp"), app_source=app_source)
    try:
        srv.start()
        w0 = srv.wait_workers(nworkers, 25)
        if not w0 or not srv.wait_listening(5):
            return v, "server did not boot: %s" % srv.stderr()[-300:], info
        log = []
        conc = sc["concurrency"]
        nreq = sc["requests"]
        lock = threading.Lock()
        counter = [0]

        def client():
            while True:
                with lock:
                    if counter[0] >= nreq or give_up.is_set():
                        return
                    counter[0] += 1
                with lock:
                    k = counter[0]
                addr = srv.addr2 if sc.get("bind") == "both" and k % 2 else srv.addr
                if sc.get("failing") and k % 3 != 0:
                    # requests that fail inside the application (the usual reason for max_requests: a worker gone bad)
                    r = e4.request(addr, "/boom", timeout=req_timeout)
                    r["expected_failure"] = True
                    if r["outcome"] == "ok" or e4.status_of(r["data"]) == 500:
                        r["outcome"] = "ok-500" if e4.status_of(r["data"]) == 500 else "boom-answered-" + str(e4.status_of(r["data"]))
                else:
                    r = e4.request(addr, "/pid", timeout=req_timeout)
                log.append(r)
                if sc.get("pace"):
                    time.sleep(sc["pace"])

        threads = [threading.Thread(target=client, daemon=True) for _ in range(conc)]
        pool_low = []
        pool_samples = []
        stop = threading.Event()

        def watch_pool():
            low_since = None
            while not stop.is_set():
                pids_now = srv.worker_pids()
                n = len(pids_now)
                now = time.monotonic()
                pool_samples.append((now, frozenset(pids_now)))
                if n < nworkers:
                    low_since = low_since or now
                    if now - low_since > 3.0:
                        pool_low.append((now, n))
                        low_since = now
                        if "timeout" in sc:
                            give_up.set()
                else:
                    low_since = None
                time.sleep(0.05)

        wt = threading.Thread(target=watch_pool, daemon=True)
        wt.start()
        for t in threads:
            t.start()
        for t in threads:
            t.join(120)
        stop.set()
        wt.join(2)
        per_pid = {}
        outcomes = {}
        for r in log:
            outcomes[r["outcome"]] = outcomes.get(r["outcome"], 0) + 1
            if r["outcome"] == "ok":
                try:
                    pid = int(e4.body_of(r["data"]).split(b"pid=")[1].split()[0])
                    per_pid[pid] = per_pid.get(pid, 0) + 1
                except Exception:
                    v.append(("malformed-response", repr(r["data"][:100])))
        info.update({"outcomes": outcomes, "pids": len(per_pid), "max_per_pid": max(per_pid.values()) if per_pid else 0})
        run.count("live_requests", len(log))
        if sc.get("failing"):
            # who handled what comes from the access log (a 500 page does not name the worker)
            per_pid = {}
            for ln in srv.stderr().splitlines():
                if "ACCESS pid=" in ln:
                    try:
                        pid = int(ln.split("ACCESS pid=")[1].split()[0].strip("<>"))
                        per_pid[pid] = per_pid.get(pid, 0) + 1
                    except ValueError:
                        pass
            info["pids"], info["max_per_pid"] = len(per_pid), max(per_pid.values()) if per_pid else 0
            run.count("live_failing_requests", sum(1 for r in log if r.get("expected_failure")))
            if not per_pid:
                return v, "no access records found", info
        if sc.get("bind") == "both":
            run.count("live_two_listener_load")
        # the service itself outlives every recycling: the master is still there, and so is the name clients connect to
        master_gone = not e4.alive(srv.master_pid)
        crashed = "Unhandled exception in main loop" in srv.error_log()
        if master_gone or crashed:
            srv.reap()
            st = srv.statuses.get(srv.master_pid)
            v.append(("master-stopped-when-workers-recycled", "after %d requests with max_requests=%d on %d %s workers the master %s%s" % (
                len(log), m, nworkers, wc, "has exited (status %s)" % (None if st is None else st[0] >> 8) if master_gone else "is running",
                "; it logged 'Unhandled exception in main loop': %s" % srv.error_log().split("Unhandled exception in main loop")[1][-300:]
                if crashed else "")))
        else:
            run.count("live_master_alive_checks")
        if sc.get("bind") in ("unix", "both"):
            if not os.path.exists(srv.sockpath):
                v.append(("unix-socket-file-removed-while-master-runs", "bind unix:%s, %s: after %d requests with max_requests=%d the "
                          "socket file is gone (master alive: %s); outcomes %s" % (
                              os.path.basename(srv.sockpath), wc, len(log), m, not master_gone, outcomes)))
            else:
                run.count("live_unix_socket_file_checks")
        bad = [r for r in log if r["outcome"] not in ("ok", "ok-500")]
        if bad:
            kinds = sorted(set(r["outcome"] for r in bad))
            zero = all(not r["data"] for r in bad)
            mech = "client-request-lost-at-recycle/%s" % wc
            if wc == "gthread" and zero and set(kinds) <= {"empty", "reset"} and m:
                mech = "gthread-drops-accepted-connections-at-recycle"
            if wc == "eventlet" and zero and set(kinds) <= {"empty", "reset"} and m:
                mech = "eventlet-drops-accepted-connections-at-recycle"
            v.append((mech, "%d of %d requests failed (%s) with max_requests=%d jitter=%d, %d concurrent clients on %s" % (
                len(bad), len(log), kinds, m, j, conc, wc)))
        if m:
            allowed = m + j + (0 if wc == "sync" else conc)
            over = {p: n for p, n in per_pid.items() if n > allowed}
            if over:
                mech = "worker-exceeds-max-requests/%s" % wc
                if wc in ("gevent", "eventlet"):
                    mech = "async-worker-keeps-accepting-until-heartbeat-tick"
                v.append((mech, "pids %s answered more than max_requests+jitter%s = %d requests (%s)" % (
                    over, "" if wc == "sync" else "+concurrency", allowed, wc)))
            if len(per_pid) <= nworkers and len(log) > nworkers * (m + j + conc) * 2:
                v.append(("no-recycling-observed", "%d requests answered by %d pids only" % (len(log), len(per_pid))))
            else:
                run.count("live_recycling_observed")
                if sc.get("timeout") == 0 and not (pool_low and pool_accounting(pool_samples, srv.events(), nworkers)):
                    run.count("live_recycling_with_timeout_0")
                if not sc.get("keepalive", 2):
                    run.count("live_recycling_with_keepalive_off/" + wc)
                if sc.get("bind") == "unix":
                    run.count("live_recycling_on_unix_bind/" + wc)
            if pool_low:
                # the sampled reading (every sample for 3 s showed fewer than `workers` processes) is checked against the account of
                # forks and exits: with workers that live for a few requests a pool that IS refilled each time can be below target at
                # every instant the (possibly starved) watcher looks
                late = pool_accounting(pool_samples, srv.events(), nworkers)
                if late:
                    v.append(("recycled-worker-not-replaced", "pool below %d for more than 3 s: %s; %s" % (nworkers, pool_low[:2], late)))
                else:
                    run.count("live_pool_low_readings_refuted_by_fork_accounting")
        else:
            if set(per_pid) - set(w0):
                v.append(("recycled-with-max-requests-unset", "pids %s answered, initial workers %s" % (sorted(per_pid), w0)))
            else:
                run.count("live_unlimited_no_recycling")
        return v, None, info
    finally:
        srv.cleanup()


def keepalive_reuse_scenario(run, e4, sc):
    """A keep-alive connection whose request was in flight when another connection reached the limit: the response announced
    keep-alive, so the next request the client sends on it must be answered (gevent / eventlet)."""
    v = []
    info = {}
    wc = sc["class"]
    settings = {"max_requests": 3, "keepalive": 5, "graceful_timeout": 5, "timeout": 30}
    if wc == "gthread":
        settings["threads"] = 2         # the request in flight and the one that reaches the limit run on two handler threads
    srv = e4.Server("c18", worker_class=wc, workers=1, settings=settings, bind="tcp")
    try:
        srv.start()
        if not srv.wait_workers(1, 25) or not srv.wait_listening(5):
            return v, "server did not boot", info
        a = e4.connect(srv.addr, 5)
        r1 = e4.request(srv.addr, "/pid", sock=a, close=False, timeout=5)
        if r1["outcome"] != "ok":
            return v, "warm-up failed: %s" % r1["outcome"], info
        res = {}

        def slow():
            res["r2"] = e4.request(srv.addr, "/nap/1.0/kr", sock=a, close=False, timeout=10)
        t = threading.Thread(target=slow, daemon=True)
        t.start()
        if not srv.wait_phase("nap kr", 8):
            return v, "the slow request was not entered", info
        rb = e4.request(srv.addr, "/pid", timeout=5)          # third request: reaches max_requests on another connection
        t.join(12)
        r2 = res.get("r2")
        info["b"] = rb["outcome"]
        if not r2 or r2["outcome"] != "ok":
            v.append(("in-flight-request-lost-at-recycle", "request in flight when the limit was reached -> %s" % (r2 and r2["outcome"])))
            return v, None, info
        head = r2["data"].split(b"\r\n\r\n")[0].lower()
        info["announced"] = "keep-alive" if b"connection: keep-alive" in head else "close"
        if b"connection: keep-alive" in head:
            r3 = e4.request(srv.addr, "/pid", sock=a, close=False, timeout=6)
            info["next_on_same_connection"] = r3["outcome"]
            if r3["outcome"] != "ok":
                v.append(("keepalive-connection-dropped-at-recycle" + ("/in-flight-on-another-thread" if wc == "gthread" else ""), "%s: the response to a request in flight at the limit announced "
                          "keep-alive, the client's next request on that connection -> %s" % (wc, r3["outcome"])))
            else:
                run.count("live_keepalive_reuse_checks")
        else:
            run.count("live_keepalive_reuse_checks")
        a.close()
        return v, None, info
    finally:
        srv.cleanup()


def inflight_scenario(run, e4, sc):
    """A request that is still being processed - and will be for seconds - when ANOTHER request reaches the limit: `those in
    flight are answered in full` (within graceful_timeout, 12 s here), then the worker exits and a new one answers."""
    v = []
    info = {}
    wc, nap = sc["class"], sc.get("nap", 4.0)
    # `timeout` below the duration of the request ("beyond"): in normal operation these worker classes serve such a request (the
    # heartbeat is kept up beside it), so it must also be answered in full when it is in flight while the worker retires
    wtimeout, graceful = sc.get("timeout", 30), sc.get("graceful", 12)
    beyond = wtimeout < nap
    # the arbiter gives up on a silent worker `timeout` s after its last heartbeat (heartbeats and the arbiter's look at them are
    # both 1 s apart): the request has to be in flight for longer than that after the limit for the cell to mean anything
    latest_limit = (nap - wtimeout - 3.5) if beyond else (nap - 2.5)
    settings = {"max_requests": 2, "keepalive": 2, "graceful_timeout": graceful, "timeout": wtimeout}
    if wc == "gthread":
        settings["threads"] = 4
    srv = e4.Server("c18", worker_class=wc, workers=1, settings=settings, bind=sc.get("bind", "tcp"))
    probe = e4.LagProbe()
    probe.start()
    try:
        srv.start()
        w0 = srv.wait_workers(1, 25)
        if not w0 or not srv.wait_listening(5):
            return v, "server did not boot: %s" % srv.stderr()[-300:], info
        res = {}
        t = threading.Thread(target=lambda: res.update(r1=e4.request(srv.addr, "/nap/%s/r1" % nap, timeout=nap + 14)), daemon=True)
        t0 = time.monotonic()
        t.start()
        served = srv.wait_phase("nap r1", 8)
        if served is None:
            return v, "the long request did not reach the application", info
        r2 = e4.request(srv.addr, "/pid", timeout=6)
        info["limit_request"] = r2["outcome"]
        if r2["outcome"] != "ok" or b"pid=%d " % served not in e4.body_of(r2["data"]):
            t.join(nap + 15)
            if r2["outcome"] != "ok":
                v.append(("client-request-lost-at-recycle/" + wc, "the request that reaches max_requests=2 while another one is in flight "
                          "-> %s" % r2["outcome"]))
                return v, None, info
            return v, "the second request was not answered by the worker that holds the first", info
        if time.monotonic() - t0 > latest_limit:
            t.join(nap + 15)
            return v, "scheduling lag: the limit was reached only %.1f s after the long request began" % (time.monotonic() - t0), info
        t.join(nap + 15)
        r1 = res.get("r1")
        info["in_flight_request"] = r1 and r1["outcome"]
        info["seconds"] = r1 and round(r1["t_done"] - r1["t_call"], 2)
        if not r1 or r1["outcome"] != "ok" or b"pid=%d " % served not in e4.body_of(r1["data"]):
            if beyond:
                info["worker_timeout_logged"] = "WORKER TIMEOUT" in srv.error_log()
                lag = probe.max_lag(since=t0)
                if lag > 0.5:
                    # a worker held up for seconds by the machine misses its heartbeat too: not the worker's doing
                    return v, "scheduling lag of %.1f s while a worker with timeout=%s drained" % (lag, wtimeout), info
            v.append(("in-flight-request-lost-at-recycle/" + ("longer-than-worker-timeout/" if beyond else "long-request/") + wc,
                      "%s, max_requests=2, graceful_timeout=%s, timeout=%s: a request that takes %.1f s was in flight (application "
                      "entered, pid %d) when a second request reached the limit; the second was answered, the first -> %s after %.1f s, "
                      "%d bytes (%r); worker alive: %s%s" % (
                          wc, graceful, wtimeout, nap, served, r1 and r1["outcome"], (r1["t_done"] - r1["t_call"]) if r1 else -1,
                          len(r1["data"]) if r1 else 0, r1 and r1["data"][:40], e4.alive(served),
                          "; the master logged WORKER TIMEOUT: %s (a request of this length is served by a worker that is not "
                          "retiring)" % info["worker_timeout_logged"] if beyond else "")))
            return v, None, info
        if beyond:
            run.count("live_in_flight_request_beyond_worker_timeout_answered/" + wc)
        else:
            run.count("live_long_in_flight_request_answered")
            run.count("live_long_in_flight_request_answered/" + wc)
        # the worker then exits and is replaced
        t1 = time.monotonic()
        nxt = None
        while time.monotonic() - t1 < 8:
            srv.reap()
            w = srv.wait_workers(1, 0.3)
            if w and served not in w and not e4.alive(served):
                nxt = w[0]
                break
            time.sleep(0.05)
        if nxt is None:
            v.append(("recycled-worker-not-replaced", "%s: 8 s after the last request in flight was answered the pool is %s, recycled "
                      "worker %d alive: %s" % (wc, srv.worker_pids(), served, e4.alive(served))))
            return v, None, info
        r3 = e4.request(srv.addr, "/pid", timeout=6)
        info["after"] = r3["outcome"]
        if r3["outcome"] != "ok":
            v.append(("client-request-lost-at-recycle/" + wc, "request after the recycling -> %s" % r3["outcome"]))
        else:
            run.count("live_replacement_answers_after_long_request")
        return v, None, info
    finally:
        probe.stop_flag = True
        srv.cleanup()


def announces_keepalive(data):
    """The response head tells an HTTP/1.1 client that the connection stays open: HTTP/1.1 and no `close` among its Connection
    options."""
    head = data.split(b"\r\n\r\n", 1)[0].decode("latin-1").split("\r\n")
    if not head[0].startswith("HTTP/1.1 "):
        return False
    for line in head[1:]:
        name, _, value = line.partition(":")
        if name.strip().lower() == "connection" and "close" in [x.strip().lower() for x in value.split(",")]:
            return False
    return True


def queued_behind_limit_scenario(run, e4, sc):
    """Persistent HTTP/1.1 clients (a proxy with upstream keep-alive, a session object: the connection is used again whenever the
    last response allowed it) whose requests WAIT IN THE WORKER - more connections than threads - while the limit is reached:
    every thread is held by a request, then 1 + `queued` connections send theirs; the first of them is request number max_requests,
    the others are handled after it by the worker that is retiring.  All of them are answered in full, and a client that is told its
    connection stays open finds it open: its next request on it is answered.  (A response that says `Connection: close` sends the
    client to a new connection - nothing is lost.)  Nothing here is judged by the clock."""
    v = []
    info = {}
    wc, T, m, nq = sc["class"], sc["threads"], sc["max_requests"], 1 + sc["queued"]
    settings = {"max_requests": m, "max_requests_jitter": 0, "keepalive": sc.get("keepalive", 5), "graceful_timeout": 15, "timeout": 30,
                "threads": T}
    srv = e4.Server("c18", worker_class=wc, workers=1, settings=settings, bind=sc.get("bind", "tcp"))
    socks = []
    try:
        srv.start()
        w0 = srv.wait_workers(1, 25)
        if not w0 or not srv.wait_listening(5):
            return v, "server did not boot: %s" % srv.stderr()[-300:], info
        old = w0[0]
        # requests 1 .. m-1: some answered one after the other, the last T of them held inside the application (one per thread)
        for i in range(m - 1 - T):
            r = e4.request(srv.addr, "/pid", timeout=10)
            if r["outcome"] != "ok" or b"pid=%d " % old not in e4.body_of(r["data"]):
                return v, "warm-up request %d -> %s" % (i + 1, r["outcome"]), info
        res = {}
        holders = [threading.Thread(target=lambda i=i: res.update({("g", i): e4.request(srv.addr, "/gate/g%d" % i, timeout=60)}),
                                    daemon=True) for i in range(T)]
        for t in holders:
            t.start()
        for i in range(T):
            if srv.wait_phase("entered g%d" % i, 15) != old:
                for j in range(T):
                    srv.release("g%d" % j)
                return v, "the request that is to hold thread %d did not reach the application of the first worker" % i, info
        # the persistent clients: their requests are numbers m, m+1, ... of this worker and wait for a thread
        raw = b"GET /pid HTTP/1.1\r\nHost: t\r\n\r\n"
        for i in range(nq):
            try:
                c = e4.connect(srv.addr, 5)
                c.sendall(raw)
            except OSError as e:
                for j in range(T):
                    srv.release("g%d" % j)
                return v, "client %d could not connect and send while every thread was busy: %r" % (i, e), info
            socks.append(c)
            time.sleep(0.03)
        time.sleep(sc.get("settle", 0.6))

        def persistent_client(i):
            rec = {"first": e4.request(srv.addr, raw=b"", sock=socks[i], close=False, timeout=40)}
            res[("q", i)] = rec
            if rec["first"]["outcome"] == "ok":
                rec["keepalive"] = announces_keepalive(rec["first"]["data"])
                if rec["keepalive"]:
                    # allowed to use the connection again - and does, at once
                    rec["next"] = e4.request(srv.addr, raw=raw, sock=socks[i], close=False, timeout=20)

        clients = [threading.Thread(target=persistent_client, args=(i,), daemon=True) for i in range(nq)]
        for t in clients:
            t.start()
        for j in range(T):
            srv.release("g%d" % j)
        for t in holders + clients:
            t.join(70)
        held = [res.get(("g", i)) for i in range(T)]
        if any(r is None or r["outcome"] != "ok" for r in held):
            v.append(("client-request-lost-at-recycle/" + wc, "%s, threads=%d, max_requests=%d: the requests that held the threads while "
                      "others queued up (numbers below the limit) -> %s" % (wc, T, m, [r and r["outcome"] for r in held])))
            return v, None, info
        recs = [res.get(("q", i)) for i in range(nq)]
        if any(r is None for r in recs):
            return v, "a client thread did not finish", info
        firsts = [r["first"]["outcome"] for r in recs]
        by_old = [r for r in recs if r["first"]["outcome"] == "ok" and b"pid=%d " % old in e4.body_of(r["first"]["data"])]
        info.update({"first_requests": firsts, "answered_by_retiring_worker": len(by_old),
                     "announced": ["keep-alive" if r.get("keepalive") else "close" for r in by_old],
                     "next_on_same_connection": [r["next"]["outcome"] for r in by_old if "next" in r]})
        lost = [r["first"] for r in recs if r["first"]["outcome"] != "ok"]
        if lost:
            # sent while the worker was below its limit, and not answered
            zero = all(not r["data"] and r["outcome"] in ("empty", "reset") for r in lost)
            mech = "gthread-drops-accepted-connections-at-recycle" if (wc == "gthread" and zero) else "queued-request-lost-at-recycle/" + wc
            v.append((mech, "%s, threads=%d, max_requests=%d: %d connections sent a request each while all threads were busy with "
                      "requests %d..%d; after those were let go: %s" % (wc, T, m, nq, m - T, m - 1, firsts)))
        for r in by_old:
            if r.get("keepalive") and r["next"]["outcome"] != "ok":
                v.append(("keepalive-connection-dropped-at-recycle/queued-behind-limit",
                          "%s, threads=%d, max_requests=%d, keepalive=%s: %d requests waited in the worker while every thread was busy; they "
                          "are request numbers %d and up of that worker (pid in every body), handled after the threads were let go. "
                          "The responses announced %s; the client whose response said keep-alive sent its next request on that "
                          "connection at once -> %s (%r): the retiring worker had closed a connection it had just declared open" % (
                              wc, T, m, settings["keepalive"], nq, m, info["announced"], r["next"]["outcome"], r["next"]["err"])))
                break
        if v:
            return v, None, info
        if len(by_old) < 2:
            return v, "fewer than two of the waiting requests were answered by the first worker (%d)" % len(by_old), info
        # the worker did retire (so the limit was reached by these requests)
        t1 = time.monotonic()
        gone = False
        while time.monotonic() - t1 < 30:
            srv.reap()
            if not e4.alive(old):
                gone = True
                break
            time.sleep(0.05)
        if not gone:
            return v, "the first worker is still running 30 s after request number %d was answered" % (m + nq - 1), info
        run.count("live_queued_behind_limit_checks")
        run.count("live_queued_behind_limit_checks/" + wc)
        run.count("live_queued_requests_answered_by_retiring_worker", len(by_old))
        run.count("live_queued_responses_announcing_close", sum(1 for r in by_old if not r.get("keepalive")))
        reused = sum(1 for r in by_old if r.get("keepalive"))
        if reused:
            run.count("live_queued_connections_reused_and_answered", reused)
        return v, None, info
    finally:
        for c in socks:
            try:
                c.close()
            except OSError:
                pass
        srv.cleanup()


def listeners_held(pid, srv):
    """Which of the server's listening sockets (bind = both: "tcp", "unix") process `pid` has open right now: the listening
    sockets are found by address in /proc/net (state LISTEN), the process's descriptors in /proc/<pid>/fd.  None = the process
    cannot be read (it has gone)."""
    inodes = {}
    try:
        with open("/proc/net/tcp") as f:
            for ln in f.read().splitlines()[1:]:
                p = ln.split()
                if len(p) > 9 and p[3] == "0A" and int(p[1].rsplit(":", 1)[1], 16) == srv.port and p[1].startswith("0100007F"):
                    inodes[p[9]] = "tcp"
        with open("/proc/net/unix") as f:
            for ln in f.read().splitlines()[1:]:
                p = ln.split()
                if len(p) > 7 and p[7] == srv.sockpath and int(p[3], 16) & 0x10000:
                    inodes[p[6]] = "unix"
    except (OSError, ValueError):
        return None
    held = set()
    try:
        fds = os.listdir("/proc/%d/fd" % pid)
    except OSError:
        return None
    for fd in fds:
        try:
            t = os.readlink("/proc/%d/fd/%s" % (pid, fd))
        except OSError:
            continue
        if t.startswith("socket:[") and t[8:-1] in inodes:
            held.add(inodes[t[8:-1]])
    return held


def pid_in(rec):
    try:
        return int(e4_body(rec).split(b"pid=")[1].split()[0])
    except (IndexError, ValueError):
        return None


def e4_body(rec):
    buf = rec["data"]
    e = buf.find(b"\r\n\r\n")
    return buf[e + 4:] if e >= 0 else b""


def two_listener_drain_scenario(run, e4, sc):
    """A server with two listeners (a TCP port and a unix socket, in either order) and one concurrent worker; a request that stays
    in the application - held by a gate, for as long as the harness wants - came in through one listener when another request
    reaches max_requests.  While that request drains, new clients connect - to the OTHER listener, and to the same one.  `No worker
    keeps accepting work after the limit plus what was in flight`: none of them may be answered by the retired worker; all of them
    are answered in full by somebody (they wait in the listen queue, which the master keeps open, for the replacement); the request
    in flight is answered in full by the worker that took it, which then exits.
    Ordering is taken from evidence: the new clients connect only after the worker has logged that it reached the limit AND
    either it holds none of the listening sockets any more (/proc/<pid>/fd: it cannot accept, whatever the machine's load) or 8 s
    have passed since that log line without measurable scheduling lag (the gevent / eventlet / gthread loops look at `alive` once
    a second - the known finding async-worker-keeps-accepting-until-heartbeat-tick is not what is judged here).  Who answered is
    read from the response body (pid), never from timing."""
    v = []
    info = {}
    wc, m = sc["class"], sc["max_requests"]
    hold_on, order = sc["hold_on"], sc["order"]
    settings = {"max_requests": m, "max_requests_jitter": 0, "keepalive": 2, "graceful_timeout": 40, "timeout": 30}
    if wc == "gthread":
        settings["threads"] = 4
    srv = e4.Server("c18", worker_class=wc, workers=1, settings=settings, bind="both")
    if order == "unix-first":
        srv.bind = list(reversed(srv.bind))
        srv.write_conf()
    addr_of = {"tcp": srv.addr, "unix": srv.addr2}
    other = "unix" if hold_on == "tcp" else "tcp"
    hold_is_first = (hold_on == "tcp") == (order == "tcp-first")
    info["long_request_on"] = "%s (%s listener of the bind list)" % (hold_on, "first" if hold_is_first else "second")
    probe = e4.LagProbe()
    probe.start()
    released = [False]

    def release():
        if not released[0]:
            released[0] = True
            srv.release("h")
    try:
        srv.start()
        w0 = srv.wait_workers(1, 25)
        if not w0 or not srv.wait_listening(5):
            return v, "server did not boot: %s" % srv.stderr()[-300:], info
        try:
            e4.connect(srv.addr2, 2).close()
        except OSError as e:
            return v, "the unix listener does not accept connections: %r" % e, info
        old = w0[0]
        if listeners_held(old, srv) != {"tcp", "unix"}:
            return v, "the worker's listening sockets cannot be seen in /proc (%s)" % listeners_held(old, srv), info
        # requests 1 .. m-2: both listeners in turn, answered by the first worker
        for i in range(m - 2):
            r = e4.request(addr_of[("tcp", "unix")[i % 2]], "/pid", timeout=10)
            if r["outcome"] != "ok" or pid_in(r) != old:
                return v, "warm-up request %d -> %s from %s" % (i + 1, r["outcome"], pid_in(r)), info
        # request m-1 stays in the application
        res = {}
        holder = threading.Thread(target=lambda: res.update(h=e4.request(addr_of[hold_on], "/gate/h", timeout=100)), daemon=True)
        holder.start()
        if srv.wait_phase("entered h", 15) != old:
            return v, "the long request did not reach the application of the first worker", info
        # request m reaches the limit
        limit_on = hold_on if sc["limit_on"] == "same" else other
        rl = e4.request(addr_of[limit_on], "/pid", timeout=10)
        info["limit_request"] = rl["outcome"]
        if rl["outcome"] != "ok":
            v.append(("client-request-lost-at-recycle/" + wc, "two listeners (%s), %s: the request that reaches max_requests=%d (on the %s "
                      "listener) while another one is in flight (on the %s listener) -> %s" % (
                          order, wc, m, limit_on, hold_on, rl["outcome"])))
            return v, None, info
        if pid_in(rl) != old:
            return v, "request number %d was not answered by the first worker" % m, info
        t0 = time.monotonic()
        t_limit = None
        while time.monotonic() - t0 < 15:
            if "Autorestarting worker" in srv.error_log():
                t_limit = time.monotonic()
                break
            time.sleep(0.02)
        if t_limit is None:
            return v, "the worker answered request number max_requests=%d and did not log that it restarts" % m, info
        # the new clients come when the retired worker cannot accept any more (it holds no listening socket), or 8 s after the limit
        held = None
        while True:
            held = listeners_held(old, srv)
            if not held or time.monotonic() - t_limit >= 8.0:
                break
            time.sleep(0.05)
        info["listeners_open_in_retired_worker_when_new_clients_connect"] = sorted(held) if held is not None else None
        info["seconds_after_limit"] = round(time.monotonic() - t_limit, 2)
        if held is None and not e4.alive(old):
            # it has left with a request in flight
            release()
            holder.join(20)
            h = res.get("h")
            v.append(("in-flight-request-lost-at-recycle/two-listeners/" + wc, "two listeners (%s), %s, max_requests=%d, graceful_timeout=40: "
                      "the worker exited %.1f s after the limit while a request that had entered the application (on the %s listener) "
                      "was still in flight -> %s" % (order, wc, m, time.monotonic() - t_limit, hold_on, h and h["outcome"])))
            return v, None, info
        if held and probe.max_lag(since=t_limit) > 0.5:
            return v, "scheduling lag of %.1f s while waiting for the retired worker's next look at its `alive` flag" % (
                probe.max_lag(since=t_limit)), info
        # new clients: on the other listener, and on the one the long request came through
        probes = [(other, "p%d" % i) for i in range(sc["probes_other"])] + [(hold_on, "s%d" % i) for i in range(sc["probes_same"])]

        def client(where, tag):
            res[tag] = e4.request(addr_of[where], "/pid", timeout=90)
        pts = [threading.Thread(target=client, args=p, daemon=True) for p in probes]
        for t in pts:
            t.start()
            time.sleep(0.05)
        # the request in flight stays there a little longer: a worker that still accepts answers the new clients meanwhile
        t1 = time.monotonic()
        while time.monotonic() - t1 < sc.get("window", 1.5) and not all(tag in res for _, tag in probes):
            time.sleep(0.02)
        info["answered_while_draining"] = sorted(tag for _, tag in probes if tag in res)
        still_there = e4.alive(old)
        release()
        holder.join(60)
        for t in pts:
            t.join(100)
        h = res.get("h")
        info["in_flight_request"] = h and h["outcome"]
        if not h or h["outcome"] != "ok" or pid_in(h) != old or b"done=h" not in e4_body(h):
            v.append(("in-flight-request-lost-at-recycle/two-listeners/" + wc, "two listeners (%s), %s, max_requests=%d, graceful_timeout=40: "
                      "a request in flight on the %s listener (application entered, pid %d) when request number %d (on the %s listener) "
                      "reached the limit was let go %.1f s later (worker alive then: %s) -> %s, %d bytes (%r)" % (
                          order, wc, m, hold_on, old, m, limit_on, t1 - t_limit + sc.get("window", 1.5), still_there,
                          h and h["outcome"], len(h["data"]) if h else 0, h and h["data"][:40])))
            return v, None, info
        recs = [(where, tag, res.get(tag)) for where, tag in probes]
        if any(r is None for _, _, r in recs):
            return v, "a client thread did not finish", info
        info["new_clients"] = ["%s:%s" % (where, r["outcome"]) for where, _, r in recs]
        by_old = [(where, r) for where, _, r in recs if r["outcome"] == "ok" and pid_in(r) == old]
        lost = [(where, r) for where, _, r in recs if r["outcome"] != "ok"]
        for where, r in by_old[:1]:
            which = "other-listener" if where == other else "same-listener"
            n_old = m + len(by_old)
            v.append(("retired-worker-serves-new-connections-while-draining/%s/%s" % (which, wc),
                      "two listeners (%s), %s, max_requests=%d, no jitter: requests 1..%d were answered by the first worker, number %d (on "
                      "the %s listener, the %s of the bind list) was held in the application, number %d (on the %s listener) reached the "
                      "limit and the worker logged 'Autorestarting worker'. %.1f s after that line (listening sockets then open in the "
                      "retired worker: %s) %d new clients connected to the %s listener and %d to the %s one while the held request was "
                      "kept in flight for another %.1f s: %d of them were accepted and answered by the retired worker (%s) - it "
                      "answered %d requests, max_requests + in flight allows %d" % (
                          order, wc, m, m - 2, m - 1, hold_on, "first" if hold_is_first else "second", m, limit_on,
                          info["seconds_after_limit"], info["listeners_open_in_retired_worker_when_new_clients_connect"],
                          sc["probes_other"], other, sc["probes_same"], hold_on, sc.get("window", 1.5), len(by_old),
                          ", ".join(sorted(set("%s listener" % w for w, _ in by_old))), n_old, m)))
        if lost:
            v.append(("client-request-lost-at-recycle/two-listeners/" + wc, "two listeners (%s), %s, max_requests=%d: clients that connected "
                      "%.1f s after the limit was reached, while a request in flight on the %s listener drained: %s" % (
                          order, wc, m, info["seconds_after_limit"], hold_on, info["new_clients"])))
        if v:
            return v, None, info
        # the retired worker exits, and what answered the new clients is its replacement
        t2 = time.monotonic()
        while time.monotonic() - t2 < 20 and e4.alive(old):
            srv.reap()
            time.sleep(0.05)
        if e4.alive(old):
            v.append(("recycled-worker-not-replaced", "two listeners (%s), %s: 20 s after its last request in flight was answered the "
                      "retired worker %d is still running (pool %s)" % (order, wc, old, srv.worker_pids())))
            return v, None, info
        run.count("live_two_listener_drain_checks")
        run.count("live_two_listener_drain_checks/%s/long-request-on-%s-listener" % (wc, "first" if hold_is_first else "second"))
        run.count("live_two_listener_drain_new_clients_answered_by_replacement/other-listener", sc["probes_other"])
        run.count("live_two_listener_drain_new_clients_answered_by_replacement/same-listener", sc["probes_same"])
        if not held:
            run.count("live_two_listener_drain_ordered_by_closed_listening_sockets")
        return v, None, info
    finally:
        probe.stop_flag = True
        release()
        srv.cleanup()


def live_scenarios(tier, seed):
    rng = rng_for(seed, "c18-live")
    out = []
    reps = 1 if tier == "quick" else 4
    rng2 = rng_for(seed, "c18-live-corners")
    for rep in range(reps):
        unix_too = rng2.choice(["sync", "gevent", "eventlet"])
        for wc in ("sync", "gthread", "gevent", "eventlet"):
            out.append({"class": wc, "workers": rng.choice([1, 2]), "max_requests": rng.randint(2, 5), "jitter": rng.randint(0, 2),
                        "concurrency": 1, "requests": 60})
            # configuration corners of the sequential scenarios (one request per connection, so nothing else changes): keep-alive
            # switched off - always for the gevent / eventlet loop -, and a unix socket instead of TCP - always for gthread
            if rep == 0:
                out[-1]["keepalive"] = 0 if wc in ("gevent", "eventlet") else rng2.choice([0, 2])
                out[-1]["bind"] = "unix" if wc in ("gthread", unix_too) else "tcp"
            else:
                out[-1]["keepalive"] = rng2.choice([0, 0, 2, 5])
                out[-1]["bind"] = rng2.choice(["unix", "tcp"])
            out.append({"class": wc, "workers": 2, "max_requests": rng.randint(2, 5), "jitter": rng.randint(0, 2),
                        "concurrency": 8, "requests": 240 if tier == "quick" else 400})
        out.append({"class": rng.choice(["sync", "gthread", "gevent", "eventlet"]), "workers": 2, "max_requests": 0,
                    "jitter": rng.choice([0, 3]), "concurrency": 4, "requests": 120})
    # requests that fail inside the application are handled requests too
    for wc in (["sync", rng.choice(["gthread", "gevent"])] if tier == "quick" else ["sync", "gthread", "gevent", "eventlet"]):
        out.append({"class": wc, "workers": 1, "max_requests": rng.randint(2, 4), "jitter": 0, "concurrency": 1, "requests": 40,
                    "failing": True})
    # a sync worker with two listeners (it then polls them in a different loop), connections waiting on both
    out.append({"class": "sync", "workers": 2, "max_requests": rng.randint(2, 4), "jitter": rng.randint(0, 1), "concurrency": 10,
                "requests": 200, "bind": "both"})
    for wc in ("gevent", "eventlet", "gthread"):
        out.append({"class": wc, "kind": "keepalive-reuse", "workers": 1, "max_requests": 3, "jitter": 0, "concurrency": 2, "requests": 4})
    # a request that needs seconds is in flight when another one reaches the limit (every concurrent class)
    for wc in ("gevent", "eventlet", "gthread"):
        out.append({"class": wc, "kind": "in-flight-long", "workers": 1, "max_requests": 2, "jitter": 0, "concurrency": 2, "requests": 3,
                    "nap": 4.0, "bind": rng2.choice(["tcp", "unix"]) if tier != "quick" else "tcp"})
    # ... and needs longer than `timeout`: every one of these classes serves such a request in normal operation
    for wc in ("gevent", "eventlet", "gthread"):
        out.append({"class": wc, "kind": "in-flight-long", "workers": 1, "max_requests": 2, "jitter": 0, "concurrency": 2, "requests": 3,
                    "nap": 10.0, "timeout": 4, "graceful": 25, "bind": rng2.choice(["tcp", "unix"]) if tier != "quick" else "tcp"})
    # persistent clients whose requests wait in the threaded worker (more connections than threads) while the limit is reached
    rng3 = rng_for(seed, "c18-live-queued")
    for rep in range(1 if tier == "quick" else 6):
        T = rng3.choice([1, 1, 2, 3])
        out.append({"class": "gthread", "kind": "queued-behind-limit", "workers": 1, "threads": T, "max_requests": T + rng3.randint(1, 3),
                    "jitter": 0, "queued": rng3.randint(2, 4), "keepalive": rng3.choice([2, 5, 30]), "bind": rng3.choice(["tcp", "unix"]),
                    "requests": 8})
        out[-1]["concurrency"] = T + 1 + out[-1]["queued"]
    # two listeners, a request held in flight on one of them (the first / the second of the bind list) at the limit, new clients on
    # the other one and on the same one while it drains (every concurrent class)
    rng4 = rng_for(seed, "c18-live-two-listener-drain")
    for rep in range(1 if tier == "quick" else 3):
        for wc in ("gevent", "eventlet", "gthread"):
            for position in ("first", "second"):
                order = rng4.choice(["tcp-first", "unix-first"])
                hold_on = ("tcp" if order == "tcp-first" else "unix") if position == "first" else ("unix" if order == "tcp-first" else "tcp")
                m = rng4.choice([3, 4])
                out.append({"class": wc, "kind": "two-listener-drain", "workers": 1, "max_requests": m, "jitter": 0, "order": order,
                            "hold_on": hold_on, "limit_on": rng4.choice(["same", "other"]), "probes_other": m - 2, "probes_same": 1,
                            "requests": 2 * m - 1, "concurrency": m})
                out[-1]["bind"] = "both:%s:long-request-on-%s:limit-on-%s" % (order, hold_on, out[-1]["limit_on"])
    # timeout = 0 ("workers are never timed out"): recycled workers are replaced all the same
    classes = ["sync", "gthread", "gevent", "eventlet"]
    for wc in ([classes[seed % 4]] if tier == "quick" else classes):
        out.append({"class": wc, "workers": 2, "max_requests": rng.randint(2, 3), "jitter": 0, "concurrency": 1,
                    "requests": 48 if wc in ("gevent", "eventlet") else 24, "timeout": 0, "request_timeout": 5})
    for i, sc in enumerate(out):
        sc["idx"] = i
        if sc.get("kind") in ("keepalive-reuse", "in-flight-long", "queued-behind-limit", "two-listener-drain"):
            continue
        if sc["class"] in ("gevent", "eventlet") and sc["max_requests"]:
            # these workers look at their own `alive` flag once per second: make the load span several ticks
            sc["pace"] = 0.07 if sc["concurrency"] == 1 else 0.13
    return out


def shard(sh):
    tier = sh.get("tier", "quick")
    run = Run(PROP, tier, sh["seed"], "exploration", RULE)
    if sh["kind"] == "e2":
        from vlib import e2_worker as e2
        for cell in sh["cells"]:
            kind, m, j, pc = cell[:4]
            ka = cell[4] if len(cell) > 4 else 2
            run.case(("e2", kind, m, j, pc, ka))
            run.count("e2_cells")
            if not ka:
                run.count("e2_keepalive_off_cells")
            for mech, summary in e2_cell(run, e2, kind, m, j, pc, ka):
                run.violation(mech, summary, {"part": "e2", "cell": [kind, m, j, pc, ka]})
            if m and pc == 1:
                run.case(("e2-failing", kind, m, j, ka))
                for mech, summary in e2_failing_cell(run, e2, kind, m, j, ka):
                    run.violation(mech, summary, {"part": "e2-failing", "cell": [kind, m, j, ka]})
        run.sample({"part": "e2", "cells": sh["cells"][:3]}, cap=1)
    elif sh["kind"] == "e3":
        from vlib import e3_simkernel as e3
        rng = rng_for(sh["seed"], "c18-e3", sh["sub"])
        for cell in sh["cells"]:
            workers, nexits, at = cell[:3]
            timeout = cell[3] if len(cell) > 3 else 30
            # (with timeout = 0 the master's pass over the worker table ends at its first line: two placements inside it)
            for plan in e3_plans(tier, rng, workers, nexits, (4 + 4 * workers) if timeout else 2):
                if run.enough():
                    break
                v, reason, k = e3_cell(run, e3, workers, nexits, at, plan, timeout)
                run.case(("e3", workers, nexits, at, timeout, tuple(i for i, _ in k.deliveries)))
                if reason is not None:
                    run.inconclusive_because("simulated history (%d workers, %d exits, %s, timeout %s): %s" % (
                        workers, nexits, plan, timeout, reason))
                for mech, summary in v:
                    run.violation(mech, summary, {"part": "e3", "cell": [workers, nexits, at, plan, timeout]})
        run.sample({"part": "e3", "cells": sh["cells"][:2]}, cap=1)
    elif sh["kind"] == "e5":
        from vlib import e5_gthread as e5
        rng = rng_for(sh["seed"], "c18-e5", sh["sub"])
        for i in range(sh["n"]):
            if run.enough():
                break
            # every fifth history is the targeted one: limit reached while the loop polls, then a request on an earlier connection
            v, case, k = (e5_late_request_cell if i % 5 == 4 else e5_cell)(run, e5, rng)
            run.case(("e5", common.sha12(case)))
            if k.hang:
                run.inconclusive_because("harness watchdog: " + k.hang)
            for mech, summary in v:
                run.violation("gthread/" + mech, summary + " | cfg=%s" % case["cfg"], {"part": "e5", "case": case})
    else:
        from vlib import e4_live as e4
        sc = sh["scenario"]
        reason = None
        for attempt in range(2):
            if sc.get("kind") == "keepalive-reuse":
                v, reason, info = keepalive_reuse_scenario(run, e4, sc)
            elif sc.get("kind") == "in-flight-long":
                v, reason, info = inflight_scenario(run, e4, sc)
            elif sc.get("kind") == "queued-behind-limit":
                v, reason, info = queued_behind_limit_scenario(run, e4, sc)
            elif sc.get("kind") == "two-listener-drain":
                v, reason, info = two_listener_drain_scenario(run, e4, sc)
            else:
                v, reason, info = live_scenario(run, e4, sc)
            if reason is None or v:
                break
        run.case(("live", sc.get("kind", "load")) + tuple(sc[k] for k in ("class", "workers", "max_requests", "jitter", "concurrency")) +
                 (sc.get("keepalive", 2), sc.get("bind", "tcp"), sc.get("timeout", 30)))
        run.count("live_scenarios")
        run.count("live_class/" + sc["class"])
        for mech, summary in v:
            run.violation(mech, summary + " | info=%s" % info, {"part": "live", "scenario": sc})
        if reason is not None and not v:
            if "scheduling lag" in reason:
                run.count("cells_skipped_for_scheduling_lag")      # measured lag made the wall-clock judgement unsafe, three times
            else:
                run.inconclusive_because("live scenario %s: %s" % (sc["idx"], reason))
        run.sample({"part": "live", "scenario": sc, "observed": info}, cap=2)
    return run


def plan(tier, seed):
    cells = []
    for kind in ("sync", "gthread", "async"):
        for m in range(0, 7):
            for j in range(0, 4):
                for pc in ((1,) if kind == "sync" else (1, 2, 3)):
                    for rep in range(2 if tier == "quick" else 8):
                        cells.append((kind, m, j, pc))
                    if pc <= 2 and (m or j == 0):
                        cells.append((kind, m, j, pc, 0))          # keep-alive switched off
    # the live scenarios mostly wait on wall-clock time (a 4 s request, paced load): they are started first, the longest at the
    # front, and the in-process shards fill the remaining cores
    live = live_scenarios(tier, seed)
    live.sort(key=lambda sc: (sc.get("kind") != "in-flight-long", -sc["requests"] * (sc.get("pace") or 0.01) / sc["concurrency"]))
    shards = [{"kind": "live", "scenario": sc, "seed": seed, "tier": tier} for sc in live]
    shards += [{"kind": "e2", "cells": cells[i::12], "seed": seed, "tier": tier} for i in range(12)]
    e3_cells = [(w, x, at) for w in (1, 2, 3, 4) for x in range(1, w + 1) for at in (1.0, 1.4)]
    # the same with timeout = 0 (documented: workers are never timed out): recycled workers are replaced all the same
    e3_cells += [(w, x, at, 0) for w in (1, 2, 3) for x in range(1, w + 1) for at in (1.0, 1.4)]
    shards += [{"kind": "e3", "cells": e3_cells[i::2], "sub": i, "seed": seed, "tier": tier} for i in range(2)]
    shards += [{"kind": "e5", "n": 150 if tier == "quick" else 3000, "sub": i, "seed": seed, "tier": tier} for i in range(4)]
    return shards


def main(tier, seed):
    run = Run(PROP, tier, seed, "exploration", RULE)
    run.require("e2_cells", "e2_limit_reached", "e2_unlimited_1000_requests", "live_scenarios", "live_requests",
                "live_recycling_observed", "live_unlimited_no_recycling", "live_class/sync", "live_class/gthread",
                "live_class/gevent", "live_class/eventlet", "live_keepalive_reuse_checks", "e2_limit_reached_with_failing_requests",
                "e5_histories", "e5_worker_left_loop_at_limit", "live_failing_requests", "live_two_listener_load",
                "e2_keepalive_off_cells", "e2_limit_reached_with_keepalive_off/sync", "e2_limit_reached_with_keepalive_off/gthread",
                "e2_limit_reached_with_keepalive_off/async", "e3_histories", "e3_worker_exits_inside_murder_workers",
                "e3_worker_exits_while_master_sleeps", "e3_simultaneous_exits", "e3_pool_restored_checks", "live_master_alive_checks",
                "live_unix_socket_file_checks", "live_recycling_with_keepalive_off/gevent", "live_recycling_with_keepalive_off/eventlet",
                "live_recycling_on_unix_bind/gthread",
                # a request arriving on an earlier accepted connection while the limit is reached (scripted gthread loop)
                "e5_late_request_histories", "e5_late_request_dispatched_after_limit", "e5_late_request_answered",
                # timeout = 0
                "e3_histories_with_timeout_0", "e3_pool_restored_checks_with_timeout_0", "live_recycling_with_timeout_0",
                # a request that needs seconds, in flight at the limit
                "live_long_in_flight_request_answered/gevent", "live_long_in_flight_request_answered/eventlet",
                "live_long_in_flight_request_answered/gthread", "live_replacement_answers_after_long_request",
                # ... that needs longer than `timeout`
                "live_in_flight_request_beyond_worker_timeout_answered/gevent",
                "live_in_flight_request_beyond_worker_timeout_answered/eventlet",
                "live_in_flight_request_beyond_worker_timeout_answered/gthread",
                # persistent clients whose requests wait in the threaded worker while the limit is reached
                "live_queued_behind_limit_checks/gthread", "live_queued_requests_answered_by_retiring_worker",
                # two listeners: new clients on the other / the same listener while a request in flight at the limit drains
                "live_two_listener_drain_checks/gevent/long-request-on-first-listener",
                "live_two_listener_drain_checks/gevent/long-request-on-second-listener",
                "live_two_listener_drain_checks/eventlet/long-request-on-first-listener",
                "live_two_listener_drain_checks/eventlet/long-request-on-second-listener",
                "live_two_listener_drain_checks/gthread/long-request-on-first-listener",
                "live_two_listener_drain_checks/gthread/long-request-on-second-listener",
                "live_two_listener_drain_new_clients_answered_by_replacement/other-listener",
                "live_two_listener_drain_new_clients_answered_by_replacement/same-listener")
    shards = plan(tier, seed)
    run.assumptions = [
        "concurrent workers may finish the connections already accepted when the limit is hit: bounded by the number of concurrent client connections the harness opens",
        "E2 reads worker.alive of the in-process worker object as the 'will stop accepting' signal; the live part observes the same through answering pids",
    ]
    common.run_sharded(run, shards, timeout=900 if tier == "quick" else 3600, nproc=min(10, common.NCPU))
    return run.finish()


def replay(path):
    with open(path) as f:
        rec = json.load(f)
    c = rec["case"]
    run = Run(PROP, "quick", 0, "exploration", RULE)
    if c["part"] == "e2":
        from vlib import e2_worker as e2
        v = e2_cell(run, e2, *c["cell"])
    elif c["part"] == "e2-failing":
        from vlib import e2_worker as e2
        v = e2_failing_cell(run, e2, *c["cell"])
    elif c["part"] == "e3":
        from vlib import e3_simkernel as e3
        v, reason, k = e3_cell(run, e3, *c["cell"])
        for e in k.log:
            print("  ", e)
        print("exit:", k.exit_code, "inconclusive:", reason)
    elif c["part"] == "e5":
        from vlib import e5_gthread as e5
        k = e5.run_history(c["case"]["cfg"], [tuple(x) for x in c["case"]["history"]], 1)
        for e in k.log:
            print("  ", e)
        v = list(k.violations) + e5_discards(k)[0]
    else:
        from vlib import e4_live as e4
        fn = {"keepalive-reuse": keepalive_reuse_scenario, "in-flight-long": inflight_scenario,
              "queued-behind-limit": queued_behind_limit_scenario,
              "two-listener-drain": two_listener_drain_scenario}.get(c["scenario"].get("kind"), live_scenario)
        v, reason, info = fn(run, e4, c["scenario"])
        print("info:", info, "inconclusive:", reason)
    for mech, s in v:
        print("VIOLATION property=%s replay=%s\n  %s %s" % (PROP, path, mech, s))
    if not v:
        print("no violation on replay")
    return 1 if v else 0
