"""C16 Configuration sources are merged in the documented order of authority.

Engine E7 (vlib/e7_config.py): the real WSGIApplication loading path, one fresh application object per
cell, in a helper subprocess per shard.  This file is the *model* side and imports nothing from gunicorn:

* the value tables: for every validator class a pool of valid values, each with its rendering on a
  command-line-like source (argv tokens), its rendering as Python text (config file / framework dict) and
  its independently tabulated normal form; and one representative invalid value per way of being invalid;
* the matrix, enumerated completely (exhaustive: true):
    M  setting x every non-empty subset of the sources able to mention it x value assignments
    D  the same for subsets containing the file source, with the other ways a file reaches gunicorn
       (-c in GUNICORN_CMD_ARGS, ./gunicorn.conf.py discovery, python:MODULE, file:PATH)
    X  setting S mentioned by source A while a companion setting T is mentioned by another source B
       (a source must not disturb what another source says about a different setting)
    I  an invalid value from each source able to carry it, alone and with a valid value waiting in a
       less authoritative source (must stop loading, must not fall back); the representatives cover, per
       validator, every way of being invalid AND every exception type the validator refuses a value with
       (TypeError, ValueError, ConfigError, AttributeError - e.g. `user = "nobody",` -, and what a lazy
       worker_class / logger_class function raises: KeyError, ImportError, RuntimeError);
    R  reload histories: load, then the config file is edited (the setting is added / changed / REMOVED, or
       the discovered ./gunicorn.conf.py is deleted) and the application is reloaded the way the master does
       on SIGHUP, while nothing / the framework / GUNICORN_CMD_ARGS / the command line also mentions the
       setting and other settings are held by the file, GUNICORN_CMD_ARGS and the command line;
    RI the edit introduces a value the validator rejects, placed first / in the middle / last in the file;
    RE reload histories (no edit at all / add / change / remove) whose configuration file additionally carries
       `raw_env` entries naming VARIABLES GUNICORN READS ITSELF: GUNICORN_CMD_ARGS=<flag of the setting under test>
       <another valid value> <flag of a setting nobody mentions> <value> (some also WEB_CONCURRENCY, PORT,
       FORWARDED_ALLOW_IPS; some the same text under an unrelated variable name, as control), present from the
       start, introduced by the edit (then a second reload follows) or dropped by it; plus the plain control: such
       a file at start-up, observed on the master after it exported the variables.  `raw_env` is a SETTING (what the
       master exports for the application), not a configuration source: the model ignores what its entries say;
* the oracle: effective value == normal form of the value of the most authoritative mentioning source
  (command line > GUNICORN_CMD_ARGS > config file > framework defaults > built-in default); every setting
  nobody mentioned == its built-in default (baseline load); exactly the designated config file was executed.
  Reloads are the real Arbiter.reload() on a real Arbiter (outward effects neutralised, see vlib/e7_config.py):
  when it returns, the configuration the master runs with (arb.cfg) must be the merge of the sources AS THEY
  ARE NOW (nothing of the former file version may linger, nothing the master exported for the application may
  act as GUNICORN_CMD_ARGS); when the file now holds a rejected value the reload must not return (the master
  stops with an error status) - or, at the very least, what it returns with must still be the former merge in
  every setting.
  File values are written the ways real files write them: literals, functions / classes defined in the file,
  functions / callable objects / classes imported from a module next to the file, functools.partial objects,
  enum members of the standard library.

    N  what a configuration file may contain BESIDES settings: a module-level name that is not a setting but resembles
       one - the setting's name in another letter case (TIMEOUT, Timeout, KeepAlive, Graceful_Timeout), with an
       underscore / a prefix / a suffix (timeout_, _timeout, my_timeout, timeout_value), a helper class / function /
       import bound to the name in another case (class Bind, def User, import collections as WORKERS) - bound to a
       VALID value of that setting which differs from what the merge of the sources gives (or to the class / function /
       module), in a file that does not mention the setting at all / mentions it after / before the name, while nobody
       else / the framework / GUNICORN_CMD_ARGS / the command line mentions the setting too, for every way a file
       reaches gunicorn (-c, -c in GUNICORN_CMD_ARGS, ./gunicorn.conf.py, file:PATH, python:MODULE).  Such a name
       mentions nothing: every setting must be what the merge of the real mentions gives and loading must not fail;
    NR the same in reload histories on a real Arbiter: an edit adds / removes / rebinds such a name (and changes the
       value of another setting of the file, which shows that the reload read the edit);
    E  for a setting whose EFFECTIVE value (the derived Config property the server acts on) takes its built-in default
       from an environment variable at access time (sendfile <- SENDFILE): every subset of the sources, the empty one
       included, x every value of the pool x the variable unset / set to enabling, disabling, odd-case, meaningless
       and empty text.  Judged like M at the settings layer, and then: a source mentions it -> the effective value
       is the merged value; nobody does -> the documented environment-derived default.  The helper loads each such
       cell a second time without the variable (control), which tells "the variable outranked a source" from "the
       effective value is wrong whatever the environment";
  in every M / D / X / E cell and after every start / returned reload of a history the other side-effect-free derived
  properties (address, uid, gid, proc_name, worker_class_str, env, is_ssl, ssl_options, reuse_port,
  paste_global_conf) are compared with a reference derivation from the merged normal forms as well.

`-c PATH` is, by design, a mention of the setting `config` by the source carrying it, and the application
argument (or --paste FILE on the command line) is the built-in default of `default_proc_name`; both are
modelled as such, nothing else is exempt.
"""
import ast
import grp
import itertools
import json
import os
import pwd
import shlex
import shutil

from vlib import common
from vlib import e7_config as e7
from vlib.common import Run, rng_for
from vlib.e7_config import ser

PROP = "C16"
RULE = ("cell = (kind, setting, set of mentioning sources, value assignment, way the config file is delivered | for the "
        "setting with an environment-derived default of its effective value: the variable unset or its text | "
        "invalid representative, carrying source, fallback source | reload history: edit of the file (add, change, "
        "remove, unlink, rejected value at a position; with raw_env: none / add / change / remove, or start-up only), "
        "other source mentioning the setting, delivery, for raw_env histories the variables its entries name "
        "(GUNICORN_CMD_ARGS carrying flags for the setting under test and for an unmentioned setting | that plus "
        "WEB_CONCURRENCY, PORT, FORWARDED_ALLOW_IPS | an unrelated name) and when the file carries them (from the "
        "start | introduced by the edit | dropped by the edit) | name that is not a setting: setting it resembles, shape "
        "of the name (other letter case, underscore / prefix / suffix, class / function / import in another case), where "
        "the file mentions the real setting (not at all, before, after the name), other source mentioning the setting, "
        "delivery, for histories the edit (name added / removed / rebound)); non-trivial = "
        "the mentioning sources do not all say the same normal form (one source: it differs from the built-in "
        "default), every invalid cell, every cross-setting cell, every history whose edit changes what the merge of "
        "the sources is or leaves a more authoritative source in charge, every raw_env cell whose entries name "
        "GUNICORN_CMD_ARGS (what they say always differs from the merge of the sources in at least one setting), every "
        "cell with a name that is not a setting (what the name is bound to always differs from the merge of the sources "
        "for the setting it resembles); distinct by cell")
SOURCES = ("cli", "env", "file", "framework")          # most authoritative first
NSHARDS = 32
FLAG = True                                            # cli rendering of store_true / store_const flags


# ---- value tables (the reference normal forms; nothing here comes from gunicorn) -------------------

class NF(str):
    """An already serialised normal form (functions and classes)."""


def V(nf, py=None, cli=None, pre="", load=None, origin=None):
    """One valid value: normal form, Python text for file/framework, command-line rendering
    (str for store, list for append, FLAG for flags, None = this kind of source cannot say it).
    origin: where the object a file names comes from when it is not a literal or a def/class of the file."""
    return {"nf": str(nf) if isinstance(nf, NF) else ser(nf), "py": py if py is not None else repr(nf),
            "cli": cli, "pre": pre, "load": load, "origin": origin}


def BAD(label, py=None, cli=None, pre="", exc=None):
    """One invalid representative. exc: the exception type with which the validator is expected to reject the
    Python form (file / framework); it only names the reach counter when the helper could not watch the rejection -
    the rule is the same for every type: loading stops with an error status."""
    return {"label": label, "py": py, "cli": cli, "pre": pre, "nf": None, "load": None, "exc": exc}


def _account_ok(kind, name, ident):
    try:
        got = pwd.getpwnam(name).pw_uid if kind == "user" else grp.getgrnam(name).gr_gid
    except KeyError:
        return False
    return got == ident


def paths(home):
    p = {"home": home}
    for k in ("d1", "d2", "d3", "d4"):
        p[k] = os.path.join(home, k)
    for k in ("f1", "f2", "f3", "f4"):
        p[k] = os.path.join(home, k + ".txt")
    for k in ("p1", "p2"):
        p[k] = os.path.join(home, k + ".ini")
    p["main"] = os.path.join(home, "c16_main_conf.py")
    p["discover"] = os.path.join(home, "gunicorn.conf.py")
    p["pymod"] = os.path.join(home, "c16_cfgmod_main.py")
    for k in "ABCD":
        p["cfg" + k] = os.path.join(home, "c16_cfg%s.py" % k)
    p["cfgmodC"] = os.path.join(home, "c16_cfgmodC.py")
    return p


def _strings(*items):
    return [V(x.strip(), py=repr(x), cli=x) for x in items]


def _lists(*lists):
    out = []
    for i, items in enumerate(lists):
        nf = [x.strip() for x in items]
        if i == 2 and len(items) == 1:          # the legacy single-string form in files
            out.append(V(nf, py=repr(items[0]), cli=list(items)))
        else:
            out.append(V(nf, py=repr(list(items)), cli=list(items)))
    return out


ORIGINS = ("imported-function", "imported-callable-object", "partial", "imported-class", "enum-member", "lazy-function")


def _hooks(arity):
    """Hooks the way files give them: defined in the file; imported from a module shared between deployments
    (a function, an instance of a class with __call__); a functools.partial binding a leading argument."""
    args = ", ".join("a%d" % i for i in range(arity))
    wide = ", ".join("a%d" % i for i in range(arity + 1))
    sh = e7.SHARED
    return [V(NF("<fn c16_hook_%s>" % t), py="c16_hook_%s" % t, pre="def c16_hook_%s(%s):\n    pass" % (t, args))
            for t in "ab"] + [
        V(NF("<fn c16_shared_hook_%d>" % arity), py="c16_shared_hook_%d" % arity,
          pre="from %s import c16_shared_hook_%d" % (sh, arity), origin="imported-function"),
        V(NF("<partial <fn c16_hook_w> args=['c16']>"), py="c16_functools.partial(c16_hook_w, 'c16')",
          pre="import functools as c16_functools\ndef c16_hook_w(%s):\n    pass" % wide, origin="partial"),
        V(NF("<callable-obj C16SharedCallable%d>" % arity), py="c16_shared_obj_%d" % arity,
          pre="from %s import c16_shared_obj_%d" % (sh, arity), origin="imported-callable-object")] + [
        V(NF("<fn c16_hook_%s>" % t), py="c16_hook_%s" % t, pre="def c16_hook_%s(%s):\n    pass" % (t, args))
        for t in "cd"]


def klass(m):
    """Validator class of a setting: by name where the setting has a documented form of its own,
    otherwise by the validator it declares."""
    special = {"config": "validate_string", "chdir": "validate_chdir", "umask": "validate_pos_int",
               "cert_reqs": "validate_pos_int", "paste": "validate_string", "worker_class": "validate_class",
               "logger_class": "validate_class", "statsd_host": "validate_statsd_address",
               "bind": "validate_list_string", "raw_env": "validate_list_string",
               "raw_paste_global_conf": "validate_list_string",
               "reload_extra_files": "validate_list_of_existing_files",
               "secure_scheme_headers": "validate_dict", "logconfig_dict": "validate_dict",
               "ssl_version": "validate_ssl_version", "sendfile": "validate_bool", "user": "validate_user",
               "group": "validate_group", "post_request": "validate_post_request"}
    if m["name"] in special:
        return m["name"] if special[m["name"]] == m["validator"] else None
    generic = {"validate_pos_int": "pos_int", "validate_bool": "bool", "validate_string": "string",
               "validate_callable": "callable", "validate_string_to_list": "string_to_list",
               "validate_string_to_addr_list": "addr_list", "validate_header_map_behaviour": "header_map",
               "validate_reload_engine": "reload_engine"}
    k = generic.get(m["validator"])
    if k == "pos_int" and m["cli"] and m["cli_type"] != "int":
        return None
    if k == "bool" and m["cli"] and m["action"] != "store_true":
        return None
    return k


def pool_for(m, P):
    """Valid values of a setting, falsy ones first (a command line saying 0 / '' / False must still win)."""
    k = klass(m)
    if k == "pos_int":
        return [V(0, cli="0"), V(7, cli="7"), V(12, py="'12'", cli="12"), V(3, cli="3")]
    if k == "umask":                 # command line: int(x, 0) with 0NN read as octal; file: int or int(x, 0)
        return [V(0, cli="0"), V(18, cli="022"), V(63, py="'0o77'", cli="0o77"), V(7, cli="7")]
    if k == "cert_reqs":             # files usually say ssl.CERT_REQUIRED (an IntEnum member; normal form: the int)
        return [V(0, cli="0"), V(2, cli="2"), V(1, py="'1'", cli="1"),
                V(2, py="c16_ssl.CERT_REQUIRED", pre="import ssl as c16_ssl", origin="enum-member"),
                V(1, py="c16_ssl.CERT_OPTIONAL", pre="import ssl as c16_ssl", origin="enum-member")]
    if k == "bool":                  # a store_true flag can only say True
        return [V(True, cli=FLAG), V(False), V(True, py="'true'"), V(False, py="'false'")]
    if k == "sendfile":              # --no-sendfile is store_const False
        return [V(False, cli=FLAG), V(True), V(False, py="'false'"), V(True, py="'true'")]
    if k == "string":                # documented normalisation: strip; a file / framework may also say None explicitly
        return _strings("", "alpha", " beta ", "gamma/4") + [V(None, py="None")]
    if k == "config":                # what -c accepts: PATH, file:PATH, python:MODULE
        return [V(P["cfgA"], cli=P["cfgA"], load=P["cfgA"]),
                V("file:" + P["cfgB"], cli="file:" + P["cfgB"], load=P["cfgB"]),
                V("python:c16_cfgmodC", cli="python:c16_cfgmodC", load=P["cfgmodC"]),
                V(P["cfgD"], cli=P["cfgD"], load=P["cfgD"])]
    if k == "paste":
        return _strings(P["p1"], P["p2"], P["p1"] + "#alt", P["p2"] + "#main")
    if k == "chdir":                 # existing directory; relative paths are resolved against the cwd
        return [V(P["d1"], cli=P["d1"]), V(P["d2"], cli=P["d2"]), V(P["d3"], py="'d3'", cli="d3"),
                V(P["d4"], py=repr(" " + P["d4"] + " "), cli=P["d4"])]
    if k == "bind":
        return _lists(["127.0.0.1:8001"], ["0.0.0.0:8002", "unix:/tmp/c16.sock"], ["[::1]:8003"],
                      ["127.0.0.1:8004", " 127.0.0.1:8005 ", "127.0.0.1:8006"])
    if k == "raw_env":
        return _lists(["A=1"], ["B=two", "C=3"], ["D=d"], ["E=5", " F=6 "])
    if k == "raw_paste_global_conf":
        return _lists(["k=v"], ["a=b", "c=d"], ["e=f"], ["g=h", "i=j", "k=l"])
    if k == "reload_extra_files":
        return _lists([P["f1"]], [P["f2"], P["f3"]], [P["f4"]], [P["f1"], P["f4"]])
    if k == "string_to_list":
        return [V([], py="''", cli=""), V(["SCRIPT_NAME"], py="'SCRIPT_NAME'", cli="SCRIPT_NAME"),
                V(["SCRIPT_NAME", "REMOTE_USER"], py="'SCRIPT_NAME, REMOTE_USER'", cli="SCRIPT_NAME, REMOTE_USER"),
                V(["PATH_INFO", "X-A", "X-B"], py="'PATH_INFO,X-A,X-B'", cli="PATH_INFO,X-A,X-B")]
    if k == "addr_list":
        return [V([], py="''", cli=""), V([], py="None"), V(["10.0.0.1"], py="'10.0.0.1'", cli="10.0.0.1"),
                V(["10.0.0.1", "10.0.0.2"], py="'10.0.0.1, 10.0.0.2'", cli="10.0.0.1, 10.0.0.2"),
                V(["*"], py="'*'", cli="*"), V(["::1", "192.168.0.7"], py="'::1,192.168.0.7'", cli="::1,192.168.0.7")]
    if k == "user":                  # names or numeric ids; the normal form is the numeric id
        t = [("root", 0), ("www-data", 33), ("nobody", 65534)]
        out = [V(i, py=repr(n), cli=n) for n, i in t if _account_ok("user", n, i)]
        return out + [V(1, py="1", cli="1"), V(1000, py="'1000'", cli="1000")]
    if k == "group":
        t = [("root", 0), ("www-data", 33), ("nogroup", 65534)]
        out = [V(i, py=repr(n), cli=n) for n, i in t if _account_ok("group", n, i)]
        return out + [V(1, py="1", cli="1"), V(1000, py="'1000'", cli="1000")]
    if k == "worker_class":          # a name (stripped) or a class object
        return [V("gthread", cli="gthread"), V("sync", py="' sync '", cli=" sync "),
                V(NF("<class C16Worker>"), py="C16Worker", pre="class C16Worker:\n    pass"),
                V("gunicorn.workers.ggevent.GeventWorker", cli="gunicorn.workers.ggevent.GeventWorker"),
                V(NF("<class C16SharedWorker>"), py="C16SharedWorker",
                  pre="from %s import C16SharedWorker" % e7.SHARED, origin="imported-class"),
                # the lazy form: a function of no arguments that returns the class (called by the validator)
                V(NF("<class C16SharedWorker>"), py="c16_lazy_worker", origin="lazy-function",
                  pre="def c16_lazy_worker():\n    from %s import C16SharedWorker\n    return C16SharedWorker" % e7.SHARED)]
    if k == "logger_class":
        return [V("gunicorn.instrument.statsd.Statsd", cli="gunicorn.instrument.statsd.Statsd"),
                V("gunicorn.glogging.Logger", cli="gunicorn.glogging.Logger"),
                V(NF("<class C16Logger>"), py="C16Logger", pre="class C16Logger:\n    pass"),
                V("simple", cli="simple"),
                V(NF("<class C16SharedLogger>"), py="C16SharedLogger",
                  pre="from %s import C16SharedLogger" % e7.SHARED, origin="imported-class"),
                V(NF("<class C16SharedLogger>"), py="c16_lazy_logger", origin="lazy-function",
                  pre="def c16_lazy_logger():\n    from %s import C16SharedLogger\n    return C16SharedLogger" % e7.SHARED)]
    if k == "callable":
        return _hooks(m["arity"])
    if k == "post_request":          # (worker, req, environ, resp); shorter legacy forms are wrapped, not used here
        return _hooks(4)
    if k == "secure_scheme_headers":
        return [V({}), V({"X-FORWARDED-PROTO": "https"}), V({"X-A": "b", "X-C": "d"}), V({"X-FORWARDED-SSL": "on"})]
    if k == "logconfig_dict":
        return [V({"version": 1}), V({"version": 1, "disable_existing_loggers": False}),
                V({"version": 1, "formatters": {}}), V({"version": 1, "root": {"level": "INFO"}})]
    if k == "header_map":
        return [V(x, cli=x) for x in ("refuse", "dangerous", "drop")]
    if k == "reload_engine":
        return [V(x, cli=x) for x in ("poll", "inotify", "auto")]
    if k == "ssl_version":           # deprecated and ignored: stored as given
        return [V("TLSv1_2", cli="TLSv1_2"), V("TLS_SERVER", cli="TLS_SERVER"), V(5), V("SSLv23", cli="SSLv23")]
    if k == "statsd_host":           # 'HOST:PORT' -> (host, port); 'unix://PATH' -> PATH
        return [V(("localhost", 8125), py="'localhost:8125'", cli="localhost:8125"),
                V(("10.0.0.1", 9125), py="'10.0.0.1:9125'", cli="10.0.0.1:9125"),
                V("/tmp/c16-statsd.sock", py="'unix:///tmp/c16-statsd.sock'", cli="unix:///tmp/c16-statsd.sock"),
                V(("127.0.0.1", 8126), py="' 127.0.0.1:8126 '", cli=" 127.0.0.1:8126 ")]
    return None


def _lazy_bad(label, body, exc, args=""):
    """A worker_class / logger_class given in the lazy form whose function fails (or returns something useless)."""
    return BAD(label, py="c16_lazy_bad", pre="def c16_lazy_bad(%s):\n    %s" % (args, body), exc=exc)


def invalids_for(m, P):
    """Representatives per way of being invalid (what the validator documents as an error) AND per exception type
    the validator can reject a value with - found by walking every validator of gunicorn/config.py over non-strings,
    containers, bytes, NUL bytes, functions that fail ...: TypeError / ValueError nearly everywhere, ConfigError
    (user, group, chdir, reload_engine), AttributeError (user / group: anything that is neither int nor str, e.g. the
    tuple a trailing comma makes; lazy class functions), and whatever a lazy worker_class / logger_class function
    raises (KeyError, ImportError, RuntimeError ...).  Whatever the type: the value must stop loading."""
    k = klass(m)
    missing = os.path.join(P["home"], "c16-missing")
    T, VE, CE, AE = "TypeError", "ValueError", "ConfigError", "AttributeError"
    if k in ("pos_int", "umask"):
        return [BAD("negative", py="-1", cli="-1", exc=VE), BAD("non-numeric", py="'abc'", cli="abc", exc=VE),
                BAD("float", py="7.5", cli="7.5", exc=T), BAD("none", py="None", exc=T)]
    if k == "cert_reqs":
        return [BAD("negative", py="-1", cli="-1", exc=VE), BAD("non-numeric", py="'x'", cli="x", exc=VE),
                BAD("float", py="2.0", cli="2.0", exc=T)]
    if k in ("bool", "sendfile"):
        return [BAD("maybe", py="'maybe'", exc=VE), BAD("non-bool", py="5", exc=T)]
    if k in ("string", "config", "paste"):
        return [BAD("non-string", py="123", exc=T)]
    if k in ("bind", "raw_env", "raw_paste_global_conf"):
        return [BAD("non-string-item", py="[5]", exc=T), BAD("non-iterable", py="5", exc=T)]
    if k == "reload_extra_files":
        return [BAD("missing-file", py=repr([missing]), cli=[missing], exc=VE), BAD("non-string-item", py="[5]", exc=T)]
    if k == "string_to_list":
        return [BAD("list-for-string", py="['SCRIPT_NAME']", exc=T)]
    if k == "addr_list":
        return [BAD("bad-ip", py="'10.0.0.999'", cli="10.0.0.999", exc=VE),
                BAD("list-for-string", py="['127.0.0.1']", exc=T)]
    if k in ("user", "group"):
        name = "nobody" if k == "user" else "nogroup"
        return [BAD("unknown-name", py="'c16-no-such-account'", cli="c16-no-such-account", exc=CE),
                # `user = "nobody",` - the trailing comma makes a tuple
                BAD("tuple-by-trailing-comma", py="(%r,)" % name, exc=AE),
                BAD("list-of-names", py="[%r]" % name, exc=AE), BAD("float-id", py="65534.0", exc=AE),
                BAD("bytes-name", py="b%r" % name, exc=T), BAD("nul-in-name", py="'no\\x00body'", exc=VE)]
    if k == "chdir":
        return [BAD("missing-directory", py=repr(missing), cli=missing, exc=CE), BAD("non-string", py="5", exc=T)]
    if k in ("worker_class", "logger_class"):
        return [BAD("non-string", py="123", exc=T),
                BAD("imported-object-neither-class-nor-string", py="c16_shared_obj_1",
                    pre="from %s import c16_shared_obj_1" % e7.SHARED, exc=T),
                # the lazy form gone wrong: the function names a class its module does not have, imports a module
                # that is not installed, looks the class up in a registry, gives up, returns no class, wants arguments
                _lazy_bad("lazy-names-missing-class", "import %s as c16_m\n    return c16_m.C16NoSuchClass" % e7.SHARED, AE),
                _lazy_bad("lazy-imports-missing-module", "import c16_no_such_module\n    return c16_no_such_module.W",
                          "ModuleNotFoundError"),
                _lazy_bad("lazy-registry-lookup-fails", "return {}['C16Worker']", "KeyError"),
                _lazy_bad("lazy-raises", "raise RuntimeError('c16: no class today')", "RuntimeError"),
                _lazy_bad("lazy-returns-no-class", "return 5", T),
                _lazy_bad("lazy-wants-argument", "return a0", T, args="a0")]
    if k in ("callable", "post_request"):
        wrong = (m["arity"] + 1) if k == "callable" else 5
        args = ", ".join("a%d" % i for i in range(wrong))
        return [BAD("wrong-arity", py="c16_bad_hook", pre="def c16_bad_hook(%s):\n    pass" % args, exc=T),
                BAD("not-callable", py="5", exc=T), BAD("bad-import-string", py="'c16_no_such_module.fn'", exc=T),
                BAD("wrong-arity-imported", py="c16_shared_hook_%d" % wrong,
                    pre="from %s import c16_shared_hook_%d" % (e7.SHARED, wrong), exc=T),
                # rejected with ValueError: an import string without a module; a partial binding more than the function takes
                BAD("import-string-without-module", py="'.c16_hook'", exc=VE),
                BAD("partial-binds-too-much", py="c16_functools.partial(c16_hook_z, 'c16')",
                    pre="import functools as c16_functools\ndef c16_hook_z():\n    pass", exc=VE)]
    if k in ("secure_scheme_headers", "logconfig_dict"):
        return [BAD("list-for-dict", py="[('a', 'b')]", exc=T), BAD("string-for-dict", py="'a=b'", exc=T),
                BAD("none", py="None", exc=T)]
    if k == "header_map":
        return [BAD("unknown", py="'bogus'", cli="bogus", exc=VE), BAD("non-string", py="5", exc=T)]
    if k == "reload_engine":
        return [BAD("unknown", py="'bogus'", cli="bogus", exc=CE), BAD("list-of-names", py="['poll']", exc=T)]
    if k == "statsd_host":
        return [BAD("bad-port", py="'localhost:notaport'", cli="localhost:notaport", exc=T),
                BAD("non-string", py="5", exc=T)]
    return []                        # ssl_version: documented as ignored, nothing is invalid


# ---- the matrix ------------------------------------------------------------------------------------

def sources_of(m):
    return [s for s in SOURCES if m["cli"] or s in ("file", "framework")]


def can_say(src, v):
    return v["cli"] is not None if src in ("cli", "env") else v["py"] is not None


def pick(pool, src, k):
    """pool[k] if the source can express it, otherwise the next value it can express."""
    for d in range(len(pool)):
        v = pool[(k + d) % len(pool)]
        if can_say(src, v):
            return (k + d) % len(pool)
    return None


def assignments(n, tier, seed):
    """(offset, step): source number i of the subset (in order of authority) says pool[offset + step*i].
    quick: two assignments (the second one seed-dependent) - with a pool of two that is the v1/v2 swap;
    thorough: every offset in both directions."""
    if tier == "quick":
        return [(0, 1), (1 + seed % max(1, n - 1), 1)] if n > 1 else [(0, 1)]
    return [(o, st) for o in range(min(n, 4)) for st in (1, -1)]


def companion(name):
    return "proc_name" if name == "backlog" else "backlog"


def enumerate_cells(meta, tier, seed):
    P = paths("/H")
    cells = []
    for m in meta:
        pool = pool_for(m, P)
        if pool is None:
            cells.append({"kind": "?", "s": m["name"]})
            continue
        srcs = sources_of(m)
        asg = assignments(len(pool), tier, seed)
        for r in range(1, len(srcs) + 1):
            for subset in itertools.combinations(srcs, r):
                # one source alone: every value of the pool (each normal form is seen winning from each source)
                for off, step in (asg if r > 1 else [(o, 1) for o in range(len(pool))]):
                    cells.append({"kind": "M", "s": m["name"], "subset": list(subset), "off": off, "step": step})
                if "file" in subset and m["name"] != "config" and (tier != "quick" or subset == ("file",)):
                    for dl in ("env-c", "discover", "python", "fileprefix"):
                        cells.append({"kind": "D", "s": m["name"], "subset": list(subset), "off": asg[-1][0],
                                      "step": 1, "delivery": dl})
        for a in srcs:
            for b in SOURCES:
                if a != b:
                    cells.append({"kind": "X", "s": m["name"], "a": a, "b": b, "off": 0})
                    if tier != "quick":
                        cells.append({"kind": "X", "s": m["name"], "a": a, "b": b, "off": 1})
        if m["name"] in ENV_DEFAULTS:
            # E: the environment variable the derived, effective value consults, next to EVERY subset of the sources
            # (the empty one included: then, and only then, the variable decides)
            for r in range(0, len(srcs) + 1):
                for subset in itertools.combinations(srcs, r):
                    for off, step in ([(o, 1) for o in range(len(pool))] if tier == "quick" else
                                      [(o, st) for o in range(len(pool)) for st in (1, -1)]) if r else [(0, 1)]:
                        for envv in ENV_DEFAULTS[m["name"]]["values"]:
                            cells.append({"kind": "E", "s": m["name"], "subset": list(subset), "off": off,
                                          "step": step, "envv": envv})
        for bad in invalids_for(m, P):
            for src in srcs:
                if not can_say(src, bad):
                    continue
                cells.append({"kind": "I", "s": m["name"], "src": src, "bad": bad["label"], "fallback": None})
                lower = [s for s in srcs[srcs.index(src) + 1:] if pick(pool, s, 1) is not None]
                if lower:
                    cells.append({"kind": "I", "s": m["name"], "src": src, "bad": bad["label"],
                                  "fallback": lower[0]})
                # ... and with a valid value for the same setting in a MORE authoritative source: the refused value is still refused
                upper = [s for s in srcs[:srcs.index(src)] if pick(pool, s, 1) is not None]
                if upper:
                    cells.append({"kind": "I", "s": m["name"], "src": src, "bad": bad["label"], "fallback": upper[-1], "stronger": True})
                    if tier != "quick" and len(upper) > 1:
                        cells.append({"kind": "I", "s": m["name"], "src": src, "bad": bad["label"], "fallback": upper[0], "stronger": True})
    cells.extend(enumerate_histories(meta, tier, seed, P))
    cells.extend(enumerate_names(meta, tier, seed, P))
    return cells


R_DELIVERIES = ("cli-c", "env-c", "discover", "fileprefix")     # the file is read again on reload in all of these
R_OPS = ("add", "change", "remove")
R_POSITIONS = ("first", "middle", "last")
RE_OPS = ("same", "add", "change", "remove")
RE_VARS = ("cmd-args", "cmd-args+defaults", "unrelated")        # what the raw_env entries of the file name
RE_WHEN = ("initial", "later", "dropped")                       # when the file carries them
RE_UNRELATED = "C16_HELPER_OPTIONS"
RE_DEFAULTS = ["WEB_CONCURRENCY=3", "PORT=8123", "FORWARDED_ALLOW_IPS=10.9.9.9"]


def enumerate_histories(meta, tier, seed, P):
    """Reload histories. quick: the delivery (and for RI the position) rotates from cell to cell, starting at the
    seed, so that each is used by a quarter (a third) of the cells; thorough: every delivery, every position,
    two value offsets."""
    cells = []
    n = seed
    for m in meta:
        pool = pool_for(m, P)
        if pool is None or m["name"] == "config":       # `config` itself: the D cells; here it is the delivery
            continue
        ctxs = ["none", "framework"] + (["env", "cli"] if m["cli"] else [])
        offs = (seed % len(pool),) if tier == "quick" else (0, 1)
        for off in offs:
            for op in R_OPS:
                for ctx in ctxs:
                    for dl in ([R_DELIVERIES[n % 4]] if tier == "quick" else R_DELIVERIES):
                        cells.append({"kind": "R", "s": m["name"], "op": op, "ctx": ctx, "delivery": dl, "off": off})
                    n += 1
            for ctx in ("none", "framework"):
                cells.append({"kind": "R", "s": m["name"], "op": "unlink", "ctx": ctx, "delivery": "discover",
                              "off": off})
        for bad in invalids_for(m, P):
            if bad["py"] is None:
                continue
            for pos in ([R_POSITIONS[n % 3]] if tier == "quick" else R_POSITIONS):
                for dl in ([R_DELIVERIES[n % 4]] if tier == "quick" else R_DELIVERIES):
                    cells.append({"kind": "RI", "s": m["name"], "bad": bad["label"], "pos": pos, "delivery": dl,
                                  "off": offs[0]})
            n += 1
    cells.extend(enumerate_raw_env_histories(meta, tier, seed, P))
    return cells


def enumerate_raw_env_histories(meta, tier, seed, P):
    """RE cells, for every setting with a command line flag (only those can be named in a GUNICORN_CMD_ARGS text)
    except `config` (the delivery) and `raw_env` (the carrier).  quick: delivery, variables and timing rotate from
    cell to cell, starting at the seed; {none, GUNICORN_CMD_ARGS also mentions it} x every edit, {framework, command
    line} x no edit.  thorough: every edit x every other source x every delivery x every timing, variables rotating."""
    cells = []
    n = seed
    for m in meta:
        pool = pool_for(m, P)
        if pool is None or not m["cli"] or m["name"] in ("config", "raw_env"):
            continue
        off = seed % len(pool)
        combos = [(op, ctx) for op in RE_OPS for ctx in ("none", "framework", "env", "cli")
                  if tier != "quick" or ctx in ("none", "env") or op == "same"]
        for op, ctx in combos:
            for dl in ([R_DELIVERIES[n % 4]] if tier == "quick" else R_DELIVERIES):
                for when in ([RE_WHEN[(n // 4) % 3]] if tier == "quick" else RE_WHEN):
                    k = n // 12 + (0 if tier == "quick" else R_DELIVERIES.index(dl) + RE_WHEN.index(when))
                    # the server's own environment: with a GUNICORN_CMD_ARGS (holding another setting), or without any
                    # (possible when neither the file's path nor the setting under test travels in it)
                    bare = ctx != "env" and dl != "env-c" and (tier != "quick" or n % 3 != 0)
                    for genv in (("unset",) if bare and tier == "quick" else ("set", "unset") if bare else ("set",)):
                        cells.append({"kind": "RE", "s": m["name"], "op": op, "ctx": ctx, "delivery": dl, "off": off,
                                      "var": RE_VARS[k % 3], "when": when, "genv": genv})
            n += 1
        # the plain control: start-up only, observed on the master after it exported the variables
        for ctx in ("none", "env"):
            dl = R_DELIVERIES[n % 4]
            cells.append({"kind": "RE", "s": m["name"], "op": "start", "ctx": ctx, "delivery": dl,
                          "off": off, "var": RE_VARS[(n // 4) % 3], "when": "initial",
                          "genv": "unset" if ctx != "env" and dl != "env-c" else "set"})
            n += 1
        n += 1                                  # the rotation must not fall into step with the cells per setting
    return cells


def signature(c):
    return "|".join(str(c.get(k, "")) for k in ("kind", "s", "subset", "off", "step", "delivery", "a", "b", "src",
                                                "bad", "fallback", "op", "ctx", "pos", "var", "when", "genv")) + (
                                                    "|envv=%r" % c["envv"] if "envv" in c else "") + (
                                                        "|%s|%s" % (c["shape"], c["place"]) if "shape" in c else "")


# ---- from a symbolic cell to a concrete recipe + what the model expects ---------------------------------

def cli_tokens(m, v, src):
    flag = m["cli"][0] if src == "cli" else m["cli"][-1]      # both spellings of a flag get used
    if v["cli"] is FLAG:
        return [flag]
    if m["action"] == "append":
        return [t for item in v["cli"] for t in (flag, item)]
    return [flag, v["cli"]]


def resolve(cell, MB, P):
    """-> list of (setting, source, value, is_invalid)."""
    m = MB[cell["s"]]
    pool = pool_for(m, P)
    out = []
    if cell["kind"] in ("M", "D", "E"):
        for i, src in enumerate(cell["subset"]):
            out.append((m["name"], src, pool[pick(pool, src, (cell["off"] + cell["step"] * i) % len(pool))], False))
    elif cell["kind"] == "X":
        t = MB[companion(m["name"])]
        tpool = pool_for(t, P)
        out.append((m["name"], cell["a"], pool[pick(pool, cell["a"], cell["off"])], False))
        out.append((t["name"], cell["b"], tpool[pick(tpool, cell["b"], 1)], False))
    else:
        bad = [b for b in invalids_for(m, P) if b["label"] == cell["bad"]][0]
        out.append((m["name"], cell["src"], bad, True))
        if cell["fallback"]:
            out.append((m["name"], cell["fallback"], pool[pick(pool, cell["fallback"], 1)], False))
    return out


def build(cell, MB, P):
    ment = resolve(cell, MB, P)
    argv, envt = [], []
    text = {"file": ([], []), "framework": ([], [])}
    mentions = {}
    for s, src, v, bad in ment:
        if src in ("cli", "env"):
            (argv if src == "cli" else envt).extend(cli_tokens(MB[s], v, src))
        else:
            if v["pre"] and v["pre"] not in text[src][0]:
                text[src][0].append(v["pre"])
            text[src][1].append((s, v["py"]))
        mentions.setdefault(s, {})[src] = v["nf"]
    active = {src for _, src, _, _ in ment}
    files = {}
    load = None
    cfg_by = {src: v for s, src, v, bad in ment if s == "config" and src in ("cli", "env") and not bad}
    if cell["s"] == "config":
        # `config` is under test: its own mentions decide what is loaded; all candidates exist
        for v in pool_for(MB["config"], P):
            files[v["load"]] = e7.FILE_HEADER
        w = cfg_by.get("cli") or cfg_by.get("env")
        if w:
            load = w["load"]
        elif "file" in active:
            load = P["discover"]
    elif "file" in active:
        dl = cell.get("delivery", "cli-c")
        if dl == "cli-c":
            argv += ["-c", P["main"]]
            mentions.setdefault("config", {})["cli"] = ser(P["main"])
            load = P["main"]
        elif dl == "env-c":
            envt += ["-c", P["main"]]
            active.add("env")
            mentions.setdefault("config", {})["env"] = ser(P["main"])
            load = P["main"]
        elif dl == "fileprefix":
            argv += ["--config", "file:" + P["main"]]
            mentions.setdefault("config", {})["cli"] = ser("file:" + P["main"])
            load = P["main"]
        elif dl == "python":
            argv += ["--config=python:c16_cfgmod_main"]
            mentions.setdefault("config", {})["cli"] = ser("python:c16_cfgmod_main")
            load = P["pymod"]
        else:
            load = P["discover"]
    if load:
        pre, lines = text["file"]
        files[load] = e7.FILE_HEADER + "".join(x + "\n" for x in pre) + "".join("%s = %s\n" % kv for kv in lines)
    recipe = {"argv": argv + ["app:app"], "files": files}
    if cell["kind"] == "E":
        recipe["environ"] = {ENV_DEFAULTS[cell["s"]]["var"]: cell["envv"]}
    if "env" in active:
        recipe["env"] = shlex.join(envt)
    if text["framework"][1]:
        pre, items = text["framework"]
        recipe["framework"] = "".join(x + "\n" for x in pre) + "FRAMEWORK = {%s}\n" % ", ".join(
            "%r: %s" % kv for kv in items)
    # built-in default of default_proc_name: the application argument, or the --paste file of the command line
    dpn = ser("app:app")
    for s, src, v, bad in ment:
        if s == "paste" and src == "cli" and not bad:
            dpn = ser(os.path.abspath(v["cli"]).split("#")[0])
    model = {"mentions": mentions, "load": [load] if load else [], "dpn": dpn, "ment": ment}
    return recipe, model


# ---- reload histories: recipe with steps + the model's merge per version of the sources -----------------

R_COMPANIONS = ("backlog", "proc_name", "keepalive", "max_requests", "graceful_timeout")


def _deliver(dl, P, argv, envt, mentions):
    """How the file reaches gunicorn -> path that will be executed (the mention of `config` is recorded)."""
    if dl == "cli-c":
        argv += ["-c", P["main"]]
        mentions.setdefault("config", {})["cli"] = ser(P["main"])
    elif dl == "env-c":
        envt += ["-c", P["main"]]
        mentions.setdefault("config", {})["env"] = ser(P["main"])
    elif dl == "fileprefix":
        argv += ["--config", "file:" + P["main"]]
        mentions.setdefault("config", {})["cli"] = ser("file:" + P["main"])
    else:
        return P["discover"]
    return P["main"]


def _file_text(lines):
    """lines: [(setting, value)] in file order."""
    pre = []
    for _, v in lines:
        if v["pre"] and v["pre"] not in pre:
            pre.append(v["pre"])
    return e7.FILE_HEADER + "".join(x + "\n" for x in pre) + "".join("%s = %s\n" % (k, v["py"]) for k, v in lines)


def _choose(pool, src, start, avoid, prefer_not=()):
    """First value from `start` on that `src` can say and whose normal form is not in `avoid`
    (if possible also not in `prefer_not`)."""
    cands = [pool[(start + d) % len(pool)] for d in range(len(pool))]
    cands = [v for v in cands if can_say(src, v) and v["nf"] not in avoid]
    best = [v for v in cands if v["nf"] not in prefer_not]
    return (best or cands or [None])[0]


def build_history(cell, MB, P, baseline):
    """-> recipe (with steps), model {"versions": [{"mentions", "load", "invalid", "lines"}, ...], ...}.
    Version 0 is what the server starts with; every later version is one edit of the file + one reload.
    All the while the command line holds a setting U, GUNICORN_CMD_ARGS a setting W and the file a setting T
    (RI: T and T2, whose values the edit changes too), none of them the setting under test."""
    m = MB[cell["s"]]
    name = m["name"]
    pool = pool_for(m, P)
    others = [c for c in R_COMPANIONS if c != name]
    T, U, W, T2 = others[0], others[1], others[2], others[3]
    argv, envt, fixed = [], [], {}

    def say(src, sname, v):
        if src in ("cli", "env"):
            (argv if src == "cli" else envt).extend(cli_tokens(MB[sname], v, src))
        fixed.setdefault(sname, {})[src] = v["nf"]

    u = pool_for(MB[U], P)
    w = pool_for(MB[W], P)
    say("cli", U, u[pick(u, "cli", 1)])
    bare = cell.get("genv") == "unset"          # RE cells: a server without any GUNICORN_CMD_ARGS in its environment
    if not bare:
        say("env", W, w[pick(w, "env", 2)])
    load = _deliver(cell["delivery"], P, argv, envt, fixed)
    tp, t2p = pool_for(MB[T], P), pool_for(MB[T2], P)
    t_a, t_b = tp[pick(tp, "file", 1)], tp[pick(tp, "file", 2)]
    t2_a, t2_b = t2p[pick(t2p, "file", 1)], t2p[pick(t2p, "file", 3)]
    fw = None
    dpn = ser("app:app")
    default = baseline[name]
    claims, raw_text = {}, None
    if cell["kind"] in ("R", "RE"):
        ctx = cell["ctx"]
        c = None
        if ctx != "none":
            c = _choose(pool, ctx, cell["off"], ())
            if ctx == "framework":
                fw = c
                fixed.setdefault(name, {})["framework"] = c["nf"]
            else:
                say(ctx, name, c)
                if name == "paste" and ctx == "cli":
                    dpn = ser(os.path.abspath(c["cli"]).split("#")[0])
        away = (c["nf"],) if c else ()
        a = _choose(pool, "file", cell["off"], away, (default,)) or _choose(pool, "file", cell["off"], ())
        b = _choose(pool, "file", cell["off"] + 1, away + (a["nf"],), (default,)) \
            or _choose(pool, "file", cell["off"] + 1, (a["nf"],)) or a
        with_a = [(name, a), (T, t_a)] if cell["off"] % 2 == 0 else [(T, t_a), (name, a)]
        with_b = [(T, t_a), (name, b)] if cell["off"] % 2 == 0 else [(name, b), (T, t_a)]
        without = [(T, t_a)]
        versions = {"add": [without, with_a], "change": [with_a, with_b], "remove": [with_a, without],
                    "unlink": [with_a, None], "same": [with_a, with_a], "start": [with_a]}[cell["op"]]
        if cell["kind"] == "RE":
            # what the raw_env entries say - to the application; as configuration they say nothing.  The text is a
            # GUNICORN_CMD_ARGS value: the setting under test with a value no source gives it, and T2 (mentioned by nobody)
            avoid = tuple(x["nf"] for x in (a, b, c) if x)
            r = _choose(pool, "env", cell["off"] + 2, avoid, (default,)) or _choose(pool, "env", cell["off"] + 2, ())
            t2v = t2p[pick(t2p, "env", 1)]
            tokens = cli_tokens(MB[T2], t2v, "env")
            claims = {T2: t2v["nf"]}
            if r is not None:
                tokens = cli_tokens(m, r, "env") + tokens
                claims[name] = r["nf"]
            raw_text = shlex.join(tokens)
            if cell["var"] == "unrelated":
                entries, claims = [RE_UNRELATED + "=" + raw_text], {}
            elif cell["var"] == "cmd-args":
                entries = ["GUNICORN_CMD_ARGS=" + raw_text]
            else:
                entries = RE_DEFAULTS[:1] + ["GUNICORN_CMD_ARGS=" + raw_text] + RE_DEFAULTS[1:]
            raw = ("raw_env", V(entries))

            def carry(lines):
                return lines + [raw] if cell["off"] % 2 == 0 else [raw] + lines

            if cell["when"] == "initial":
                versions = [carry(ls) for ls in versions]
            elif cell["when"] == "later":       # exported by the reload that reads the edit: a further reload shows it
                versions = [versions[0], carry(versions[1]), carry(versions[1])]
            else:                               # dropped by the edit; the reload after that must not see it either
                versions = [carry(versions[0]), versions[1], versions[1]]
        invalid = [False] * len(versions)
    else:
        bad = [x for x in invalids_for(m, P) if x["label"] == cell["bad"]][0]
        a = _choose(pool, "file", cell["off"], (), (default,))
        v0 = [(T, t_a), (name, a), (T2, t2_a)]
        rest = [(T, t_b), (T2, t2_b)]
        at = {"first": 0, "middle": 1, "last": 2}[cell["pos"]]
        versions = [v0, rest[:at] + [(name, bad)] + rest[at:]]
        invalid = [False, True]
    out = []
    for lines, inv in zip(versions, invalid):
        ment = {k: dict(v) for k, v in fixed.items()}
        if lines is None:                       # the discovered default file is gone
            ment.pop("config", None)
        else:
            for sname, v in lines:
                ment.setdefault(sname, {})["file"] = v["nf"]
        out.append({"mentions": ment, "load": [load] if lines is not None else [], "invalid": inv,
                    "text": _file_text(lines)[len(e7.FILE_HEADER):] if lines is not None else None,
                    "origins": [v.get("origin") for sname, v in (lines or []) if sname == name],
                    "raw_env": bool([1 for sname, _ in (lines or []) if sname == "raw_env"]) and cell["kind"] == "RE"})
    if bare and envt:
        raise AssertionError("cell %s: GUNICORN_CMD_ARGS was to stay unset" % signature(cell))
    recipe = {"argv": argv + ["app:app"], "env": None if bare else shlex.join(envt),
              "files": {load: _file_text(versions[0])},
              "steps": [{"files": {load: _file_text(ls) if ls is not None else None}} for ls in versions[1:]]}
    if fw is not None:
        recipe["framework"] = (fw["pre"] + "\n" if fw["pre"] else "") + "FRAMEWORK = {%r: %s}\n" % (name, fw["py"])
    if cell["kind"] == "RE":
        recipe["master"] = True                 # also without steps: observe the master, after it exported raw_env
        recipe["watch"] = [RE_UNRELATED]
    model = {"versions": out, "mentions": out[0]["mentions"], "load": out[0]["load"], "dpn": dpn, "ment": [],
             "companions": {"file": T, "cli": U, "env": None if bare else W}, "raw_env_claims": claims, "raw_env_text": raw_text,
             "unmentioned": T2}
    return recipe, model


# ---- names that are not settings: what a configuration file may contain besides settings ----------------
#
# gunicorn copies those module-level names of the executed file / module into the configuration that ARE settings;
# every other name - the application's own constants, helper classes and functions, imports - is documented as
# ignored.  A name that merely resembles a setting mentions nothing: cells N / NR put one next to (before, after,
# instead of) a real mention of that setting and expect exactly the model's merge of the real mentions.

N_SHAPES = (
    # label, family (part of the mechanism name), what the name is bound to
    ("upper-case-constant", "other-letter-case", "value"),
    ("capitalised-constant", "other-letter-case", "value"),
    ("mixed-case-constant", "other-letter-case", "value"),
    ("trailing-underscore", "affixed", "value"),
    ("leading-underscore", "affixed", "value"),
    ("prefixed", "affixed", "value"),
    ("suffixed", "affixed", "value"),
    ("class-in-other-case", "other-letter-case", "class"),
    ("function-in-other-case", "other-letter-case", "def"),
    ("import-in-other-case", "other-letter-case", "import"),
)
N_SHAPE = {label: (family, binding) for label, family, binding in N_SHAPES}
N_PLACES = ("only", "before", "after")          # the file does not mention the real setting / does so after / before the name
N_DELIVERIES = ("cli-c", "env-c", "discover", "fileprefix", "python")
N_CTX = ("none", "framework", "none", "env", "framework", "cli", "none")      # rotation of "who else mentions the setting"
#                                                 (seven entries: in step with neither the places, the deliveries nor the edits)
N_OPS = ("name-added", "name-removed", "name-rebound")
N_END = "#end"                                  # the generated file records that its last line ran, and with which name bound


def near_name(label, name):
    """The name that is NOT the setting `name` but resembles it."""
    if label in ("upper-case-constant", "import-in-other-case"):
        return name.upper()
    if label in ("capitalised-constant", "class-in-other-case", "function-in-other-case"):
        return name.capitalize()
    if label == "mixed-case-constant":          # Graceful_Timeout, KeepAlive, TimEout
        parts = name.split("_")
        if len(parts) > 1:
            return "_".join(p.capitalize() for p in parts)
        half = max(1, len(name) // 2)
        return name[:half].capitalize() + name[half:].capitalize()
    return {"trailing-underscore": name + "_", "leading-underscore": "_" + name, "prefixed": "my_" + name,
            "suffixed": name + "_value"}[label]


def enumerate_names(meta, tier, seed, P):
    """N / NR cells.  quick: per setting every shape once (the two plain other-case constants in every place), place,
    delivery and the other mentioning source rotating from cell to cell, starting at the seed; three histories (one
    per edit) with the shape rotating.  thorough: every shape x place x delivery, every shape x edit x place as a
    history.  `config`: the file never mentions it itself (that is a delivery: cells M / D), nobody else either."""
    cells = []
    known = {m["name"] for m in meta}
    n = seed
    for m in meta:
        pool = pool_for(m, P)
        if pool is None:
            continue
        name = m["name"]
        places = N_PLACES if name != "config" else ("only",)
        off = seed % len(pool)

        def ctx_at(k):
            c = N_CTX[k % len(N_CTX)] if name != "config" else "none"
            return c if m["cli"] or c in ("none", "framework") else ("none", "framework")[k % 2]

        shapes = [label for label, _, _ in N_SHAPES
                  if near_name(label, name) not in known and near_name(label, name).isidentifier()]
        for label in shapes:
            if tier == "quick":
                pls = places if label in ("upper-case-constant", "capitalised-constant") else (places[n % len(places)],)
                for pl in pls:
                    cells.append({"kind": "N", "s": name, "shape": label, "place": pl, "ctx": ctx_at(n),
                                  "delivery": N_DELIVERIES[n % 5], "off": off})
                    n += 1
            else:
                for pl in places:
                    for dl in N_DELIVERIES:
                        cells.append({"kind": "N", "s": name, "shape": label, "place": pl, "ctx": ctx_at(n),
                                      "delivery": dl, "off": off})
                        n += 1
        for op in N_OPS:
            for label in ([shapes[n % len(shapes)]] if tier == "quick" else shapes) if shapes else []:
                for pl in ((places[n % len(places)],) if tier == "quick" else places):
                    cells.append({"kind": "NR", "s": name, "shape": label, "place": pl, "op": op, "ctx": ctx_at(n),
                                  "delivery": R_DELIVERIES[n % 4], "off": off})
                    n += 1
        n += 1                                  # the rotation must not fall into step with the cells per setting
    return cells


def _names_text(items, ident):
    """items: ("set", name, value) | ("raw", python text) in file order.  The last line records in the list the
    header created that the whole file ran, and whether `ident` was bound in it then."""
    pre = []
    for it in items:
        if it[0] == "set" and it[2]["pre"] and it[2]["pre"] not in pre:
            pre.append(it[2]["pre"])
    body = "".join("%s = %s\n" % (it[1], it[2]["py"]) if it[0] == "set" else it[1] + "\n" for it in items)
    end = "_c16_sys.%s.append(__file__ + %r + (' with ' if %r in globals() else ' without ') + %r)\n" % (
        e7.MARK, N_END, ident, ident)
    return e7.FILE_HEADER + "".join(x + "\n" for x in pre) + body + end


def build_names(cell, MB, P, baseline):
    """-> recipe (N: one load; NR: with steps), model with one entry of "versions" per version of the file.
    As in the other histories the command line holds a setting U, GUNICORN_CMD_ARGS a setting W and the file a
    setting T (whose value every edit changes), none of them the setting the name resembles."""
    m = MB[cell["s"]]
    name = m["name"]
    pool = pool_for(m, P)
    family, binding = N_SHAPE[cell["shape"]]
    ident = near_name(cell["shape"], name)
    others = [c for c in R_COMPANIONS if c != name]
    T, U, W = others[0], others[1], others[2]
    argv, envt, fixed = [], [], {}

    def say(src, sname, v):
        (argv if src == "cli" else envt).extend(cli_tokens(MB[sname], v, src))
        fixed.setdefault(sname, {})[src] = v["nf"]

    u, w, tp = pool_for(MB[U], P), pool_for(MB[W], P), pool_for(MB[T], P)
    say("cli", U, u[pick(u, "cli", 1)])
    say("env", W, w[pick(w, "env", 2)])
    if cell["delivery"] == "python":
        argv += ["--config=python:c16_cfgmod_main"]
        fixed.setdefault("config", {})["cli"] = ser("python:c16_cfgmod_main")
        load = P["pymod"]
    else:
        load = _deliver(cell["delivery"], P, argv, envt, fixed)
    t_a, t_b = tp[pick(tp, "file", 1)], tp[pick(tp, "file", 2)]
    fw, dpn, c = None, ser("app:app"), None
    ctx = cell["ctx"]
    if ctx != "none":
        c = _choose(pool, ctx, cell["off"], ())
        if ctx == "framework":
            fw = c
            fixed.setdefault(name, {})["framework"] = c["nf"]
        else:
            say(ctx, name, c)
            if name == "paste" and ctx == "cli":
                dpn = ser(os.path.abspath(c["cli"]).split("#")[0])
    default = baseline[name]
    a = None
    if cell["place"] != "only":
        away = (c["nf"],) if c else ()
        a = _choose(pool, "file", cell["off"], away, (default,)) or _choose(pool, "file", cell["off"], ())
    real = {k: dict(v) for k, v in fixed.items()}
    if a is not None:
        real.setdefault(name, {})["file"] = a["nf"]
    merged = expected(name, {"mentions": real, "dpn": dpn}, baseline)[0]
    # what the name is bound to: never what the merge of the real mentions gives for the setting it resembles
    said = tuple(x["nf"] for x in (a, c) if x) + (default,)
    d1 = _choose(pool, "file", cell["off"] + 1, (merged,), said)
    d2 = _choose(pool, "file", cell["off"] + 2, (merged, d1["nf"] if d1 else merged), said)
    objects = {"class": ("class %s:\n    pass" % ident, "<class %s>" % ident),
               "def": ("def %s():\n    pass" % ident, "<fn %s>" % ident),
               "import": ("import collections as %s" % ident, "<obj module>")}

    def bound(kind, v=None):
        """-> (file item, normal form of what the name is bound to)"""
        if kind == "value":
            return ("set", ident, v), v["nf"]
        return ("raw", objects[kind][0]), objects[kind][1]

    if binding == "value":
        if d1 is None:
            raise AssertionError("cell %s: no value for the name" % signature(cell))
        first = bound("value", d1)
        second = bound("value", d2) if d2 is not None else bound("class")
    else:
        first = bound(binding)
        second = bound("value", d1) if d1 is not None else bound("def" if binding != "def" else "class")

    def lines(t, decoy):
        mention = [("set", name, a)] if a is not None else []
        comp = [("set", T, t)]
        if decoy is None:
            return mention + comp if cell["off"] % 2 == 0 else comp + mention
        if cell["place"] == "before":
            return [decoy[0]] + comp + mention
        if cell["place"] == "after":
            return mention + comp + [decoy[0]]
        return comp + [decoy[0]] if cell["off"] % 2 == 0 else [decoy[0]] + comp

    if cell["kind"] == "N":
        plan = [(t_a, first)]
    else:
        plan = {"name-added": [(t_a, None), (t_b, first)], "name-removed": [(t_a, first), (t_b, None)],
                "name-rebound": [(t_a, first), (t_b, second)]}[cell["op"]]
    versions, texts = [], []
    for t, decoy in plan:
        ment = {k: dict(v) for k, v in real.items()}
        ment.setdefault(T, {})["file"] = t["nf"]
        text = _names_text(lines(t, decoy), ident)
        texts.append(text)
        versions.append({"mentions": ment, "load": [load, load + N_END + (" with " if decoy else " without ") + ident],
                         "text": text[len(e7.FILE_HEADER):], "name_bound_to": decoy[1] if decoy else None})
    recipe = {"argv": argv + ["app:app"], "env": shlex.join(envt), "files": {load: texts[0]}}
    if len(texts) > 1:
        recipe["steps"] = [{"files": {load: x}} for x in texts[1:]]
    if fw is not None:
        recipe["framework"] = (fw["pre"] + "\n" if fw["pre"] else "") + "FRAMEWORK = {%r: %s}\n" % (name, fw["py"])
    model = {"versions": versions, "mentions": versions[0]["mentions"], "load": versions[0]["load"], "dpn": dpn, "ment": [],
             "name": ident, "family": family, "companions": {"file": T, "cli": U, "env": W}}
    return recipe, model


# ---- the oracle --------------------------------------------------------------------------------------

def expected(name, model, baseline):
    by = model["mentions"].get(name, {})
    for src in SOURCES:
        if src in by:
            return by[src], src
    if name == "default_proc_name":
        return model["dpn"], "default"
    return baseline[name], "default"


def is_nontrivial(cell, model, baseline):
    if cell["kind"] in ("I", "X", "E"):
        return True
    nfs = [v["nf"] for s, _, v, _ in model["ment"] if s == cell["s"]]
    if len(nfs) == 1:
        return nfs[0] != baseline[cell["s"]]
    return len(set(nfs)) > 1


EXC_FAMILIES = ("AttributeError", "TypeError", "ValueError", "ConfigError", "other")


def rejection_type(name, rejected, bad, src):
    """With which exception type was the value of `name` refused: what the helper saw at Setting.set; for a file /
    framework value it did not see refused (the refusal came from elsewhere), the type tabulated with the
    representative; a command-line-like source may be refused by the option parser before any validator runs."""
    seen = [t for n, t in rejected or [] if n == name]
    if seen:
        return seen[0]
    return bad.get("exc") if src in ("file", "framework") else "option-parser"


def exc_family(t):
    return t if t in EXC_FAMILIES else "other" if t and t != "option-parser" else None


# ---- derived, effective values: what the server acts on ---------------------------------------------
#
# For some settings the server does not use the stored value but a derived `Config` property.  The statement speaks
# of "the effective value": when a source mentions the setting the derived value has to follow the merged setting
# (after normalisation); when nobody does, the documented default applies - for `sendfile` that is "the value of the
# SENDFILE environment variable", else enabled.  The tables below are the reference; nothing comes from gunicorn.

ENV_TRUE = ("1", "y", "yes", "true")            # any case; what the variable's documented switch reads as "enable"
ENV_FALSE = ("0", "n", "no", "false")           # ... as "disable"; anything else: the default is not judged


def _env_switch(text):
    """True / False for a recognised spelling, None for text whose meaning is not documented."""
    t = text.lower()
    return True if t in ENV_TRUE else False if t in ENV_FALSE else None


ENV_DEFAULTS = {
    # setting: the variable its built-in default comes from AT ACCESS TIME, and the values it is given in E cells
    # (None: the variable is absent)
    "sendfile": {"var": "SENDFILE", "values": [None, "1", "0", "yes", "false", "TRUE", "n", "garbage", ""],
                 "unset": True},
}

DERIVED = {
    # derived property: the settings it is made of
    "sendfile": ("sendfile",), "address": ("bind",), "uid": ("user",), "gid": ("group",),
    "proc_name": ("proc_name", "default_proc_name"), "worker_class_str": ("worker_class", "threads"),
    "env": ("raw_env",), "is_ssl": ("certfile", "keyfile"), "ssl_options": None,     # None: every setting of section SSL
    "reuse_port": ("reuse_port",), "paste_global_conf": ("raw_paste_global_conf",),
}


def _lit(nf):
    try:
        return ast.literal_eval(nf)
    except (ValueError, SyntaxError):
        return NF(nf)


def _ref_address(b):
    """Documented forms of a bind address: unix:PATH, [IPV6]:PORT, HOST:PORT, HOST (port 8000).  None: not modelled."""
    if b.startswith("unix:"):
        b = b[5:]
        return b[2:] if b.startswith("//") else b
    if b.startswith("["):
        host, _, rest = b[1:].partition("]")
        if rest == "":
            return (host.lower(), 8000)
        return (host.lower(), int(rest[1:])) if rest.startswith(":") and rest[1:].isdigit() else None
    if b.count(":") == 1:
        host, port = b.split(":")
        return (host.lower(), int(port)) if port.isdigit() else None
    return (b.lower(), 8000) if b and ":" not in b and "/" not in b else None


def _ref_pairs(items):
    out = {}
    for e in items:
        if not isinstance(e, str) or "=" not in e or "\\" in e:
            return None
        k, v = e.split("=", 1)
        out[k] = v
    return out


def derive(merged, environ, MB):
    """merged: {setting: normal form the merge of the sources gives}; environ: the variables of the cell's environment
    that derived values consult ({name: text}, absent = unset).  -> {property: expected ser() text | None = not judged}."""
    out = {}
    sf = merged["sendfile"]
    if sf in ("True", "False"):                 # somebody mentions it: that value, whatever the environment says
        out["sendfile"] = sf
    elif ENV_DEFAULTS["sendfile"]["var"] in environ:
        sw = _env_switch(environ[ENV_DEFAULTS["sendfile"]["var"]])
        out["sendfile"] = None if sw is None else ser(sw)
    else:
        out["sendfile"] = ser(ENV_DEFAULTS["sendfile"]["unset"])
    binds = _lit(merged["bind"])
    addrs = [_ref_address(b) for b in binds] if isinstance(binds, list) and all(isinstance(b, str) for b in binds) else [None]
    out["address"] = None if None in addrs else ser(addrs)
    out["uid"], out["gid"] = merged["user"], merged["group"]
    out["proc_name"] = merged["proc_name"] if merged["proc_name"] != "None" else merged["default_proc_name"]
    wc, threads = _lit(merged["worker_class"]), _lit(merged["threads"])
    if isinstance(wc, NF):
        out["worker_class_str"] = ser(wc[len("<class "):-1].split(".")[-1]) if wc.startswith("<class ") else None
    elif isinstance(wc, str) and isinstance(threads, int):
        out["worker_class_str"] = ser("gthread" if (wc == "sync" or wc.endswith("SyncWorker")) and threads > 1 else wc)
    else:
        out["worker_class_str"] = None
    raw = _lit(merged["raw_env"])
    pairs = _ref_pairs(raw) if isinstance(raw, list) else None
    out["env"] = None if pairs is None else ser(pairs)
    out["is_ssl"] = ser(bool(_lit(merged["certfile"]) or _lit(merged["keyfile"])))
    ssl_names = sorted((n for n, m in MB.items() if m.get("section") == "SSL"), key=repr)
    out["ssl_options"] = "{" + ", ".join("%s: %s" % (ser(n), merged[n]) for n in ssl_names) + "}" if ssl_names else None
    out["reuse_port"] = merged["reuse_port"]
    rp = _lit(merged["raw_paste_global_conf"])
    pairs = _ref_pairs(rp) if isinstance(rp, list) else None
    out["paste_global_conf"] = "None" if rp is None else None if pairs is None else ser(pairs)
    return out


def _derived_from(prop, MB):
    return DERIVED[prop] if DERIVED[prop] is not None else tuple(n for n, m in MB.items() if m.get("section") == "SSL")


def judge_effective(run, prefix, when, cell, shown, mentions, model, baseline, obs, MB, environ=None):
    """Compare every derived property the helper reports with what the model's merge of the sources implies.
    Called only after every stored setting was found equal to the merge.  -> True if a violation was filed."""
    eff = obs.get("effective")
    if not isinstance(eff, dict) or set(eff) != set(DERIVED):
        run.inconclusive_because("cell %s: the helper reported no / other derived values (%s)" % (
            signature(cell), sorted(eff) if isinstance(eff, dict) else eff))
        return True
    environ = {k: v for k, v in (environ or {}).items() if v is not None}
    vm = dict(model, mentions=mentions)
    merged = {s: expected(s, vm, baseline)[0] for s in baseline}
    want = derive(merged, environ, MB)
    plain = derive(baseline, {}, MB)
    ctl = obs.get("control")
    if environ and not (isinstance(ctl, dict) and ctl.get("ok") and ctl.get("values") == obs["values"]
                        and isinstance(ctl.get("effective"), dict)):
        run.inconclusive_because("cell %s: no usable control load without %s (%s)" % (
            signature(cell), sorted(environ), json.dumps(ctl)[:200]))
        return True
    for prop in sorted(DERIVED):
        exp, got = want[prop], eff[prop]
        parts = _derived_from(prop, MB)
        said = [s for s in parts if s in mentions]
        if exp is None:
            run.count("effective_values_not_modelled")
            continue
        run.count("effective_values_compared")
        if got == exp:
            if said and exp != plain[prop]:
                run.count("effective_follows_merge_" + prop)
            continue
        var = ENV_DEFAULTS.get(prop, {}).get("var")
        facts = "merged setting%s %s; derived cfg.%s expected %s, is %s; mentions %s; sources %s" % (
            "s" if len(parts) > 1 else "", json.dumps({s: merged[s] for s in (parts if len(parts) <= 3 else said)},
                                                      sort_keys=True), prop, exp, got,
            json.dumps({s: mentions[s] for s in said}, sort_keys=True), json.dumps(shown))
        if said and var in environ and ctl["effective"].get(prop) == exp:
            # the same sources WITHOUT the variable give the right value: the variable, which only supplies the
            # built-in default, overrode a source that mentions the setting
            wsrc = expected(said[0], vm, baseline)[1]
            run.violation(prefix + "environment-default-outranks-source/" + prop,
                          "%s: %s the server acts on cfg.%s = %s although %s says %s: %s=%r in the environment, which only "
                          "supplies the built-in default, decided (the same sources loaded without the variable give %s); %s"
                          % (prop, when, prop, got, SRC_WORDS[wsrc], exp, var, environ[var], ctl["effective"][prop], facts),
                          cell)
        elif not said and var is not None:
            run.violation(prefix + "environment-derived-default-wrong/" + prop,
                          "%s: %s no source mentions it and the environment has %s; documented default %s, the server "
                          "acts on %s; %s" % (prop, when, "%s=%r" % (var, environ[var]) if var in environ else
                                              "no " + var, exp, got, facts), cell)
        else:
            run.violation(prefix + "effective-value-differs-from-merged-setting/" + prop,
                          "%s: %s the value the server acts on (cfg.%s) is %s; the merge of the sources gives %s%s; %s" % (
                              prop, when, prop, got, exp, "" if var not in environ else
                              " (environment: %s=%r; without it the same sources give %s)" % (
                                  var, environ[var], ctl["effective"].get(prop)), facts), cell)
        return True
    return False


def _env_cell_reach(run, cell, model, baseline, obs):
    """Reach of a judged E cell (everything stored and everything derived was as the model says)."""
    name, var = cell["s"], ENV_DEFAULTS[cell["s"]]["var"]
    run.count("env_default_cells")
    envv = cell["envv"]
    sw = None if envv is None else _env_switch(envv)
    if cell["subset"]:
        exp, wsrc = expected(name, model, baseline)
        run.count("env_default_cells_%d_sources" % len(cell["subset"]))
        if envv is None:
            run.count("effective_follows_source_variable_unset")
        elif sw is not None and ser(sw) != exp:
            run.count("effective_source_overrides_environment_variable")
            run.count("effective_%s_overrides_environment_variable" % wsrc)
        elif sw is None:
            run.count("effective_follows_source_variable_unrecognised")
        else:
            run.count("effective_source_and_environment_variable_agree")
    elif envv is None:
        run.count("environment_default_variable_unset")
    elif sw is None:
        run.count("environment_default_unrecognised_value_not_judged")
    else:
        run.count("environment_default_applies_" + ("true" if sw else "false"))
        if ser(sw) != ser(ENV_DEFAULTS[name]["unset"]):
            run.count("environment_default_differs_from_unset_default")
        if envv.lower() != envv:
            run.count("environment_default_case_insensitive")


def judge(run, cell, recipe, model, baseline, obs, MB):
    """Decide one cell. Records at most one violation per cell (the mentioned setting first)."""
    name = cell["s"]
    vname = MB[name]["validator"]
    shown = {"argv": recipe["argv"], "GUNICORN_CMD_ARGS": recipe.get("env"),
             "file": recipe["files"].get(model["load"][0], "")[len(e7.FILE_HEADER):] if model["load"] else None,
             "framework": recipe.get("framework")}
    if cell["kind"] == "I":
        src = cell["src"]
        run.count("invalid_cells")
        bad = [v for s, _, v, isbad in model["ment"] if isbad][0]
        how = rejection_type(name, obs.get("rejected"), bad, src)
        if obs["ok"]:
            run.violation("invalid-value-accepted/" + vname,
                          "%s: invalid value (%s) from the %s source%s did not stop loading; effective value %s "
                          "(built-in default %s); the validator refuses this value with %s%s; sources %s" % (
                              name, cell["bad"], src, " with a valid value in " + cell["fallback"] if cell["fallback"]
                              else "", obs["values"].get(name), baseline[name], how,
                              " (seen while loading)" if [1 for n, _ in obs.get("rejected") or [] if n == name] else "",
                              json.dumps(shown)), cell)
        elif obs["code"] in (0, None):
            run.violation("invalid-value-no-error-status/" + vname,
                          "%s: invalid value (%s) from %s ended loading with exit status %r" % (
                              name, cell["bad"], src, obs["code"]), cell)
        else:
            run.count("invalid_rejected")
            run.count("invalid_rejected_from_" + src)
            if cell["fallback"]:
                run.count("invalid_rejected_despite_stronger_source" if cell.get("stronger") else "invalid_rejected_despite_fallback")
            fam = exc_family(how)
            if fam and src in ("file", "framework"):
                # the ways a validator says no: each of them, from each of these sources, must stop loading
                run.count("invalid_rejected_from_%s_by_%s" % (src, fam))
                if how not in EXC_FAMILIES:
                    run.count("invalid_rejected_by_" + how)
            if [1 for n, _ in obs.get("rejected") or [] if n == name]:
                run.count("rejecting_exception_type_observed")
                if src in ("file", "framework") and how != bad.get("exc"):      # noted only: the table is a description
                    run.info["rejection_type_not_as_tabulated"] = run.info.get("rejection_type_not_as_tabulated", 0) + 1
                    run.info.setdefault("rejection_type_not_as_tabulated#sample", "%s %s: %s, table says %s" % (
                        name, cell["bad"], how, bad.get("exc")))
        return
    if not obs["ok"]:
        run.violation("valid-configuration-rejected/" + vname,
                      "%s: loading failed (%s code=%s %s) for valid values; sources %s" % (
                          name, obs["exc"], obs["code"], obs["stderr"].strip()[-160:], json.dumps(shown)), cell)
        return
    if set(obs["values"]) != set(baseline):
        run.inconclusive_because("set of settings changed between baseline and cell")
        return
    wrong_mentioned, wrong_other = [], []
    for sname in baseline:
        exp, wsrc = expected(sname, model, baseline)
        got = obs["values"][sname]
        if sname in model["mentions"]:
            run.count("mentioned_settings_compared")
            if got != exp:
                wrong_mentioned.append((sname, exp, wsrc, got))
        else:
            run.count("unmentioned_settings_compared")
            if got != exp:
                wrong_other.append((sname, exp, got))
    if wrong_mentioned:
        sname, exp, wsrc, got = wrong_mentioned[0]
        by = model["mentions"][sname]
        actual = [s for s in SOURCES if s != wsrc and by.get(s) == got]
        if actual:
            mech = "wrong-precedence/%s-lost-to-%s" % (wsrc, actual[0])
        elif got == baseline[sname] or (sname == "default_proc_name" and got == model["dpn"]):
            mech = "wrong-precedence/%s-lost-to-default" % wsrc
        else:
            mech = "value-not-normalised/" + MB[sname]["validator"]
        run.violation(mech, "%s: effective value %s, but the most authoritative source mentioning it (%s) said %s; "
                      "all mentions %s; built-in default %s; sources %s" % (
                          sname, got, wsrc, exp, json.dumps(by, sort_keys=True), baseline[sname], json.dumps(shown)),
                      cell)
        return
    if wrong_other:
        sname, exp, got = wrong_other[0]
        run.violation("unmentioned-setting-changed",
                      "%s was mentioned by no source but is %s instead of its built-in default %s (%d such settings); "
                      "cell setting %s; sources %s" % (sname, got, exp, len(wrong_other), name, json.dumps(shown)),
                      cell)
        return
    if obs["loaded"] != model["load"]:
        run.violation("wrong-config-file-loaded",
                      "config files executed %s, expected %s; sources %s" % (
                          [os.path.basename(x) for x in obs["loaded"]], [os.path.basename(x) for x in model["load"]],
                          json.dumps(shown)), cell)
        return
    if recipe.get("environ"):
        shown["environment"] = recipe["environ"]
    if judge_effective(run, "", "after loading", cell, shown, model["mentions"], model, baseline, obs, MB,
                       recipe.get("environ")):
        return
    if cell["kind"] == "E":
        _env_cell_reach(run, cell, model, baseline, obs)
        return
    # reach counters: which clause did this cell actually exercise
    exp, wsrc = expected(name, model, baseline)
    by = model["mentions"][name]
    k = len([1 for s, _, _, _ in model["ment"] if s == name])
    run.count("cells_%d_sources" % k)
    if cell["kind"] == "X":
        run.count("cross_setting_cells")
        return
    if cell["kind"] == "D":
        run.count("delivery_" + cell["delivery"])
    if k == 1:
        if exp != baseline[name]:
            run.count("single_source_changes_default_" + wsrc)
    else:
        losers = [s for s in by if s != wsrc and by[s] != exp]
        for s in losers:
            run.count("decided_%s_over_%s" % (wsrc, s))
    for s, src, v, _ in model["ment"]:
        if s == name and src == "cli" and v["nf"] in ("0", "''", "False", "[]") and wsrc == "cli" \
                and exp != baseline[name]:
            run.count("falsy_command_line_value_wins")
        if s == name and v["cli"] not in (None, FLAG) and src in ("cli", "env") and ser(v["cli"]) != v["nf"]:
            run.count("normalisation_observed")
        if s == name and src == wsrc and v.get("origin") and exp != baseline[name]:
            run.count("%s_value_%s_in_effect" % (src, v["origin"]))


def deviations(values, mentions, model, baseline):
    """Settings whose observed value is not what the merge of `mentions` gives: (mentioned ones, the others)."""
    vm = dict(model, mentions=mentions)
    wrong_mentioned, wrong_other = [], []
    for sname in baseline:
        exp, wsrc = expected(sname, vm, baseline)
        got = values[sname]
        if got != exp:
            (wrong_mentioned if sname in mentions else wrong_other).append((sname, exp, wsrc, got))
    return wrong_mentioned, wrong_other


def _precedence_mechanism(sname, exp, wsrc, got, by, model, baseline, MB):
    actual = [s for s in SOURCES if s != wsrc and by.get(s) == got]
    if actual:
        return "wrong-precedence/%s-lost-to-%s" % (wsrc, actual[0])
    if got == baseline[sname] or (sname == "default_proc_name" and got == model["dpn"]):
        return "wrong-precedence/%s-lost-to-default" % wsrc
    return "value-not-normalised/" + MB[sname]["validator"]


SRC_WORDS = {"cli": "the command line", "env": "GUNICORN_CMD_ARGS", "file": "the file", "framework": "the framework",
             "default": "the built-in default"}


def _raw_env_acted(run, prefix, when, devs, claims, cell, shown, obs, model, baseline, o=None):
    """A deviating setting has exactly the value that ONLY the file's raw_env entry GUNICORN_CMD_ARGS=... names (no
    source says it in any version of the history, nor is it the built-in default): what the master exports for the
    application was read back as a configuration source.  -> True if a violation was filed."""
    def said_elsewhere(sname):
        return {nf for ver in model["versions"] for nf in ver["mentions"].get(sname, {}).values()} | {baseline[sname]}
    hit = [d for d in devs if claims.get(d[0]) == d[3] and d[3] not in said_elsewhere(d[0])]
    if not hit:
        return False
    sname, exp, wsrc, got = sorted(hit, key=lambda d: (SOURCES + ("default",)).index(d[2]))[0]
    run.violation(prefix + "raw-env-variable-acted-as-configuration-source",
                  "%s: %s the effective value is %s - the value only the raw_env entry of the configuration file gives, "
                  "in the GUNICORN_CMD_ARGS it sets for the application; raw_env is a setting, not a source: the most "
                  "authoritative source mentioning %s (%s) says %s; GUNICORN_CMD_ARGS of the server's environment: %r, "
                  "in os.environ when the reload began: %r; %d settings deviate from the merge of the sources (%s); "
                  "sources %s" % (
                      sname, when, got, sname, SRC_WORDS[wsrc], exp, (obs.get("server_env") or {}).get("GUNICORN_CMD_ARGS"),
                      ((o or {}).get("env_before") or {}).get("GUNICORN_CMD_ARGS"), len(devs),
                      ", ".join(sorted(d[0] for d in devs))[:160], json.dumps(shown)), cell)
    return True


def _reexec_env_changed(run, prefix, when, reexec_env, cell, shown, obs):
    """cfg.env_orig is "the original environment" reexec() starts the next master with; of the variables gunicorn
    reads itself (GUNICORN_CMD_ARGS, and those its built-in defaults come from) it must hold what the server's
    environment held, whatever the master exported for the application.  -> True if a violation was filed."""
    if reexec_env is None:
        run.inconclusive_because("history %s: no env_orig observation %s" % (signature(cell), when))
        return True
    if reexec_env == obs["server_env"]:
        return False
    diff = sorted(k for k in set(reexec_env) | set(obs["server_env"]) if reexec_env.get(k) != obs["server_env"].get(k))
    run.violation(prefix + "raw-env-variable-in-environment-kept-for-next-master",
                  "%s the environment the master keeps as the original one (cfg.env_orig: what GUNICORN_CMD_ARGS is read "
                  "from on the next reload, and what the master started by SIGUSR2 gets) differs from the server's "
                  "environment in %s: %s instead of %s - no source changed, these are what raw_env exports for the "
                  "application; sources %s" % (when, diff, json.dumps({k: reexec_env.get(k) for k in diff}),
                                               json.dumps({k: obs["server_env"].get(k) for k in diff}),
                                               json.dumps(shown)), cell)
    return True


def _raw_env_reach(run, cell, model, prev, ver, i, nreloads, o, obs, vm, baseline):
    """Reach of one returned, fully compared reload of an RE cell."""
    claims = model["raw_env_claims"]
    before = o.get("env_before") or {}
    if i == nreloads:
        run.count("raw_env_histories")
        run.count("raw_env_when_" + cell["when"])
        run.count("raw_env_edit_" + cell["op"])
    if not claims:
        if prev["raw_env"] and before.get(RE_UNRELATED) == model["raw_env_text"]:
            run.count("raw_env_unrelated_variable_control_reloads")
        return
    exported = "GUNICORN_CMD_ARGS=" + model["raw_env_text"]
    if prev["raw_env"] and before.get("GUNICORN_CMD_ARGS") == model["raw_env_text"]:
        # the master had exported the variable when Arbiter.reload() began (seen in os.environ), and the
        # configuration it then adopted is the merge of the four sources in every setting
        run.count("raw_env_cmd_args_exported_when_reload_began")
        run.count("raw_env_cmd_args_exported_delivery_" + cell["delivery"])
        run.count("raw_env_cmd_args_exported_ctx_" + cell["ctx"])
        if "GUNICORN_CMD_ARGS" in obs["server_env"]:
            run.count("raw_env_cmd_args_exported_over_the_servers_own")
        else:
            run.count("raw_env_cmd_args_exported_server_has_none")
        if claims.get(cell["s"]) is not None and claims[cell["s"]] != expected(cell["s"], vm, baseline)[0]:
            run.count("raw_env_says_otherwise_about_setting_under_test")
        if claims[model["unmentioned"]] != expected(model["unmentioned"], vm, baseline)[0]:
            run.count("raw_env_says_otherwise_about_unmentioned_setting")
        if cell["var"] == "cmd-args+defaults" and all(before.get(e.split("=")[0]) == e.split("=", 1)[1] for e in RE_DEFAULTS):
            run.count("raw_env_default_variables_exported_not_kept_for_next_master")
    elif prev["raw_env"]:
        run.inconclusive_because("history %s: the master did not export %s before reload %d (os.environ had %r)" % (
            signature(cell), exported[:60], i, before.get("GUNICORN_CMD_ARGS")))
    elif not prev["raw_env"] and before.get("GUNICORN_CMD_ARGS") == obs["server_env"].get("GUNICORN_CMD_ARGS"):
        run.count("raw_env_cmd_args_not_exported_when_reload_began")


def judge_history(run, cell, recipe, model, baseline, obs, MB):
    """Decide one reload history; at most one violation per history."""
    name = cell["s"]
    vname = MB[name]["validator"]
    vers = model["versions"]
    shown = {"argv": recipe["argv"], "GUNICORN_CMD_ARGS": recipe.get("env"), "framework": recipe.get("framework"),
             "file_versions": [v["text"] for v in vers]}
    run.count("reload_histories")
    claims = model.get("raw_env_claims") or {}
    if claims:
        shown["raw_env_says"] = "GUNICORN_CMD_ARGS=" + model["raw_env_text"]
    if obs.get("harness"):
        run.inconclusive_because("history %s: %s" % (signature(cell), obs["harness"]))
        return
    # -- the start
    if not obs["ok"]:
        run.violation("valid-configuration-rejected/" + vname,
                      "%s: loading failed (%s code=%s %s) for valid values at the start of a reload history; "
                      "sources %s" % (name, obs["exc"], obs["code"], obs["stderr"].strip()[-160:], json.dumps(shown)),
                      cell)
        return
    if set(obs["values"]) != set(baseline):
        run.inconclusive_because("set of settings changed between baseline and cell")
        return
    wm, wo = deviations(obs["values"], vers[0]["mentions"], model, baseline)
    if _raw_env_acted(run, "", "at start-up (observed on the master, after it exported raw_env)", wm + wo, claims,
                      cell, shown, obs, model, baseline):
        return
    if wm or wo:
        sname, exp, wsrc, got = (wm or wo)[0]
        mech = _precedence_mechanism(sname, exp, wsrc, got, vers[0]["mentions"].get(sname, {}), model, baseline, MB) \
            if wm else "unmentioned-setting-changed"
        run.violation(mech, "%s: effective value %s at the start of a reload history, expected %s (from %s); "
                      "sources %s" % (sname, got, exp, wsrc, json.dumps(shown)), cell)
        return
    if obs["loaded"] != vers[0]["load"]:
        run.violation("wrong-config-file-loaded", "config files executed %s, expected %s; sources %s" % (
            obs["loaded"], vers[0]["load"], json.dumps(shown)), cell)
        return
    if "server_env" not in obs:
        run.inconclusive_because("history %s: the helper did not observe a master" % signature(cell))
        return
    if _reexec_env_changed(run, "", "at start-up", obs["reexec_env"], cell, shown, obs):
        return
    if judge_effective(run, "", "at the start of a reload history", cell, shown, vers[0]["mentions"], model, baseline,
                       obs, MB):
        return
    if cell["kind"] == "RE" and cell["op"] == "start":
        # the plain control: the first Config exists before anything is exported
        run.count("raw_env_startup_cells")
        if claims:
            run.count("raw_env_naming_cmd_args_at_startup_changes_nothing")
            run.count("raw_env_startup_delivery_" + cell["delivery"])
        else:
            run.count("raw_env_unrelated_variable_at_startup_control")
        return
    # -- the reloads
    steps = obs.get("steps", [])
    for i, ver in enumerate(vers[1:], 1):
        if i > len(steps):
            run.inconclusive_because("history %s: reload %d was not executed" % (signature(cell), i))
            return
        o, prev = steps[i - 1], vers[i - 1]
        if ver["invalid"]:
            if not o["returned"]:
                if o["code"] in (0, None):
                    run.violation("reload/invalid-value-no-error-status/" + vname,
                                  "%s: value rejected on reload (%s) but the exit status is %r" % (
                                      name, cell["bad"], o["code"]), cell)
                    return
                run.count("reload_invalid_rejected")
                bad = [x for x in invalids_for(MB[name], paths("/H")) if x["label"] == cell["bad"]][0]
                fam = exc_family(rejection_type(name, o.get("rejected"), bad, "file"))
                if fam:
                    run.count("reload_invalid_rejected_by_" + fam)
                run.count("reload_invalid_position_" + cell["pos"])
                run.count("reload_delivery_" + cell["delivery"])
                return                      # the master is gone
            # the master goes on with app.cfg: tolerable only if that still is the former merge, entirely
            wm, wo = deviations(o["values"], prev["mentions"], model, baseline)
            if wm or wo:
                # the most authoritative loser first: that is the telling one
                sname, exp, wsrc, got = sorted(wm + wo, key=lambda d: (SOURCES + ("default",)).index(d[2]))[0]
                run.violation("reload/invalid-value-adopted/" + vname,
                              "%s: the edited file gives the rejected value %s (%s, placed %s); app.reload() returned "
                              "and the configuration the master adopts is neither an error nor the former one: "
                              "%d settings deviate from what was in effect, e.g. %s is now %s although %s gave %s; "
                              "all mentions of it before the edit %s; sources %s" % (
                                  name, [x for x in invalids_for(MB[name], paths("/H")) if x["label"] == cell["bad"]][0]["py"],
                                  cell["bad"], cell["pos"], len(wm) + len(wo), sname, got,
                                  {"cli": "the command line", "env": "GUNICORN_CMD_ARGS", "file": "the file",
                                   "framework": "the framework", "default": "the built-in default"}[wsrc], exp,
                                  json.dumps(prev["mentions"].get(sname, {}), sort_keys=True), json.dumps(shown)), cell)
                return
            run.count("reload_invalid_kept_previous")
            vers[i]["mentions"] = prev["mentions"]         # what is in effect from here on
            continue
        if not o["returned"]:
            run.violation("reload/valid-configuration-rejected/" + vname,
                          "%s: reload %d failed (%s code=%s) although every source is valid; sources %s; stderr %s" % (
                              name, i, o.get("exc"), o.get("code"), json.dumps(shown),
                              obs.get("stderr_all", "").strip()[-200:]), cell)
            return
        wm, wo = deviations(o["values"], ver["mentions"], model, baseline)
        if _raw_env_acted(run, "reload/", "after reload %d" % i, wm + wo, claims, cell, shown, obs, model,
                          baseline, o):
            return
        for sname, exp, wsrc, got in wm + wo:
            before = expected(sname, dict(model, mentions=prev["mentions"]), baseline)[0]
            was_file = "file" in prev["mentions"].get(sname, {}) and "file" not in ver["mentions"].get(sname, {})
            if was_file and got == prev["mentions"][sname]["file"]:
                run.violation("reload/removed-setting-still-in-effect",
                              "%s: after the reload the value %s of the FORMER file version is in effect, but the "
                              "file no longer mentions it (%s); the merge of the current sources gives %s (from %s); "
                              "current mentions %s; %d settings deviate; sources %s" % (
                                  sname, got, "file deleted" if ver["text"] is None else "line removed", exp, wsrc,
                                  json.dumps(ver["mentions"].get(sname, {}), sort_keys=True), len(wm) + len(wo),
                                  json.dumps(shown)), cell)
                return
            if got == before:
                run.violation("reload/edit-not-in-effect",
                              "%s: after the reload still %s as before the edit; the merge of the current sources "
                              "gives %s (from %s); current mentions %s; sources %s" % (
                                  sname, got, exp, wsrc, json.dumps(ver["mentions"].get(sname, {}), sort_keys=True),
                                  json.dumps(shown)), cell)
                return
        if wm:
            sname, exp, wsrc, got = wm[0]
            by = ver["mentions"][sname]
            run.violation("reload/" + _precedence_mechanism(sname, exp, wsrc, got, by, model, baseline, MB),
                          "%s: effective value %s after reload %d, but the most authoritative source mentioning it "
                          "(%s) says %s; all mentions %s; built-in default %s; sources %s" % (
                              sname, got, i, wsrc, exp, json.dumps(by, sort_keys=True), baseline[sname],
                              json.dumps(shown)), cell)
            return
        if wo:
            sname, exp, wsrc, got = wo[0]
            run.violation("reload/unmentioned-setting-changed",
                          "%s is mentioned by no source after the edit but is %s instead of its built-in default %s "
                          "(%d such settings); cell setting %s; sources %s" % (
                              sname, got, exp, len(wo), name, json.dumps(shown)), cell)
            return
        if o["loaded"] != ver["load"]:
            run.violation("reload/wrong-config-file-loaded",
                          "config files executed on reload %s, expected %s; sources %s" % (
                              [os.path.basename(x) for x in o["loaded"]], [os.path.basename(x) for x in ver["load"]],
                              json.dumps(shown)), cell)
            return
        if _reexec_env_changed(run, "reload/", "after reload %d" % i, o.get("reexec_env"), cell, shown, obs):
            return
        if judge_effective(run, "reload/", "after reload %d" % i, cell, shown, ver["mentions"], model, baseline,
                           dict(o, control=None), MB):
            return
        # reach: what this reload showed
        run.count("reload_settings_compared", len(baseline))
        run.count("reload_delivery_" + cell["delivery"])
        vm = dict(model, mentions=ver["mentions"])
        exp, wsrc = expected(name, vm, baseline)
        before = expected(name, dict(model, mentions=prev["mentions"]), baseline)[0]
        op = cell["op"]
        if cell["kind"] == "RE":
            _raw_env_reach(run, cell, model, prev, ver, i, len(vers) - 1, o, obs, vm, baseline)
            if i > 1:
                continue                    # the edit was counted with the first reload
        if op in ("add", "change") and wsrc == "file" and exp != before:
            run.count("reload_%s_takes_effect" % op)
            for org in ver["origins"]:
                if org:
                    run.count("reload_brings_in_" + org)
        elif op in ("remove", "unlink") and wsrc in ("framework", "default") and exp != before:
            run.count("reload_%s_falls_back_to_%s" % (op, wsrc))
        elif wsrc in ("cli", "env"):
            run.count("reload_%s_keeps_winning_over_edited_file" % wsrc)
        comp = model["companions"]
        if all(expected(comp[k], vm, baseline)[1] == k for k in ("cli", "env") if comp[k]) and \
                (ver["text"] is None or expected(comp["file"], vm, baseline)[1] == "file"):
            run.count("reload_other_sources_settings_intact")


def judge_names(run, cell, recipe, model, baseline, obs, MB):
    """Decide one N / NR cell: at start-up and after every reload every setting is what the merge of the REAL mentions
    gives (the name that merely resembles a setting mentions nothing) and loading does not fail.  At most one violation."""
    name, ident, family = cell["s"], model["name"], model["family"]
    vers = model["versions"]
    shown = {"argv": recipe["argv"], "GUNICORN_CMD_ARGS": recipe.get("env"), "framework": recipe.get("framework"),
             "file_versions" if len(vers) > 1 else "file": [v["text"] for v in vers] if len(vers) > 1 else vers[0]["text"]}
    if obs.get("harness"):
        run.inconclusive_because("cell %s: %s" % (signature(cell), obs["harness"]))
        return
    if cell["kind"] == "NR":
        run.count("reload_histories")
    steps = obs.get("steps") or []
    for i, ver in enumerate(vers):
        if i == 0:
            o, prefix, failed = obs, "", not obs["ok"]
            when = "after loading" if len(vers) == 1 else "at the start of a reload history"
        else:
            if i > len(steps):
                run.inconclusive_because("history %s: reload %d was not executed" % (signature(cell), i))
                return
            o, prefix, when, failed = steps[i - 1], "reload/", "after reload %d" % i, not steps[i - 1]["returned"]
        bound = ver["name_bound_to"]
        ran = ver["load"][-1] in (o.get("loaded") or [])
        what = "the file binds %s (%s, not a setting) to %s" % (ident, cell["shape"], bound) if bound else \
            "the file no longer binds %s" % ident
        if failed:
            if not ran:
                # the generated file did not run to its last line: nothing was established about gunicorn
                run.inconclusive_because("cell %s: the generated configuration file was not executed to its end %s (%s %s)" % (
                    signature(cell), when, o.get("exc"), (o.get("stderr") or obs.get("stderr_all") or "").strip()[-160:]))
                return
            err = obs.get("stderr_all") or obs.get("stderr") or ""
            if " %s:" % ident not in err:
                # the refusal does not name the name: some real mention was refused - the general mechanism, not this one
                run.violation(prefix + "valid-configuration-rejected/" + MB[name]["validator"],
                              "%s: %s loading failed (%s code=%s %s) for valid values (%s); sources %s" % (
                                  name, when, o.get("exc"), o.get("code"), (err or o.get("msg") or "").strip()[-160:], what,
                                  json.dumps(shown)), cell)
                return
            run.violation(prefix + "name-that-is-not-a-setting-stopped-loading/" + family,
                          "%s: %s loading failed (%s code=%s %s) although every setting the sources mention is valid: %s, "
                          "a name gunicorn has to ignore - the refusal names it; sources %s" % (
                              name, when, o.get("exc"), o.get("code"), (err or o.get("msg") or "").strip()[-160:], what,
                              json.dumps(shown)), cell)
            return
        if set(o["values"]) != set(baseline):
            run.inconclusive_because("set of settings changed between baseline and cell")
            return
        wm, wo = deviations(o["values"], ver["mentions"], model, baseline)
        acted = [d for d in wm + wo if d[0] == name and bound is not None and d[3] == bound]
        if not acted and i > 0:
            # the name is gone / rebound, yet what the FORMER version bound it to is in effect
            former = vers[i - 1]["name_bound_to"]
            acted = [d for d in wm + wo if d[0] == name and former is not None and d[3] == former]
            if acted:
                what = "the former version of the file bound %s (%s, not a setting) to %s" % (ident, cell["shape"], former)
        if acted:
            sname, exp, wsrc, got = acted[0]
            run.violation(prefix + "name-that-is-not-a-setting-acted-as-one/" + family,
                          "%s: %s the effective value is %s: %s; no source mentions that value - the most authoritative "
                          "source mentioning %s (%s) says %s; all mentions %s; %d settings deviate from the merge of the "
                          "sources; sources %s" % (
                              name, when, got, what, name, SRC_WORDS[wsrc], exp,
                              json.dumps(ver["mentions"].get(name, {}), sort_keys=True), len(wm) + len(wo),
                              json.dumps(shown)), cell)
            return
        if wm:
            sname, exp, wsrc, got = wm[0]
            by = ver["mentions"][sname]
            run.violation(prefix + _precedence_mechanism(sname, exp, wsrc, got, by, model, baseline, MB),
                          "%s: effective value %s %s, but the most authoritative source mentioning it (%s) says %s; all "
                          "mentions %s; built-in default %s; %s; sources %s" % (
                              sname, got, when, wsrc, exp, json.dumps(by, sort_keys=True), baseline[sname], what,
                              json.dumps(shown)), cell)
            return
        if wo:
            sname, exp, wsrc, got = wo[0]
            run.violation(prefix + "unmentioned-setting-changed",
                          "%s is mentioned by no source but is %s %s instead of its built-in default %s (%d such settings); "
                          "%s; sources %s" % (sname, got, when, exp, len(wo), what, json.dumps(shown)), cell)
            return
        if o["loaded"] != ver["load"]:
            if o["loaded"][:1] == ver["load"][:1] and len(o["loaded"]) == 2 and o["loaded"][1].startswith(ver["load"][0] + N_END):
                run.inconclusive_because("cell %s: the generated file ended with %r, expected %r" % (
                    signature(cell), o["loaded"][1][len(ver["load"][0]):], ver["load"][1][len(ver["load"][0]):]))
                return
            run.violation(prefix + "wrong-config-file-loaded", "config files executed %s %s, expected %s; sources %s" % (
                [os.path.basename(x) for x in o["loaded"]], when, [os.path.basename(x) for x in ver["load"]],
                json.dumps(shown)), cell)
            return
        if judge_effective(run, prefix, when, cell, shown, ver["mentions"], model, baseline, dict(o, control=None), MB):
            return
        # reach: the file ran to its end with the name bound (seen), and every setting is the merge of the real mentions
        vm = dict(model, mentions=ver["mentions"])
        exp, wsrc = expected(name, vm, baseline)
        if bound is not None:
            run.count("names_not_settings_ignored")
            run.count("names_not_settings_ignored_" + family)
            run.count("names_not_settings_shape_" + cell["shape"])
            run.count("names_not_settings_place_" + cell["place"])
            if wsrc == "file" and exp != baseline[name]:
                run.count("names_not_settings_file_value_in_effect_%s_the_name" % (
                    "before" if cell["place"] == "after" else "after"))
            elif wsrc == "default":
                run.count("names_not_settings_default_in_effect_beside_the_name")
            elif wsrc != "file":
                run.count("names_not_settings_%s_in_effect_beside_the_name" % wsrc)
            if i == 0 and len(vers) == 1:
                run.count("names_not_settings_delivery_" + cell["delivery"])
                run.count("names_not_settings_ctx_" + cell["ctx"])
        if i > 0:
            run.count("reload_settings_compared", len(baseline))
            comp = model["companions"]["file"]
            if expected(comp, vm, baseline)[0] != expected(comp, dict(model, mentions=vers[i - 1]["mentions"]), baseline)[0]:
                run.count("names_not_settings_reload_read_the_edit")
            run.count("names_not_settings_history_" + cell["op"])
            run.count("names_not_settings_reload_delivery_" + cell["delivery"])
            run.count("names_not_settings_reload_ctx_" + cell["ctx"])
    if len(vers) == 1:
        run.count("names_not_settings_cells")
    else:
        run.count("names_not_settings_histories")


def history_nontrivial(cell, model, baseline):
    if cell["kind"] == "RI" or cell["ctx"] in ("cli", "env") or model.get("raw_env_claims"):
        return True
    if len(model["versions"]) < 2:
        return False
    a, b = (expected(cell["s"], dict(model, mentions=v["mentions"]), baseline)[0] for v in model["versions"][:2])
    return a != b


# ---- shard / main / replay ---------------------------------------------------------------------------

BASE_RECIPE = {"argv": ["app:app"], "files": {}}


def same_obs(a, b):
    keys = ("ok", "values", "loaded", "code", "exc")
    strip = lambda st: None if st is None else [{k: v for k, v in x.items() if k != "msg"} for x in st]  # noqa: E731
    return all(a.get(k) == b.get(k) for k in keys) and strip(a.get("steps")) == strip(b.get("steps"))


def run_cells(run, cells, seed, tier, isolate):
    """Execute `cells` in one helper process (plus `isolate` of them again, each in a process of its own)."""
    home = common.scratch_dir("c16")
    try:
        e7.make_home(home)
        P = paths(home)
        meta = e7.describe(home)
        MB = {m["name"]: m for m in meta}
        built = []
        pre = None
        if any(c["kind"] in ("R", "RI", "RE", "N", "NR") for c in cells):
            # histories choose values that differ from the built-in default: one baseline load ahead of the batch
            pre = e7.run_recipes(home, [BASE_RECIPE], timeout=120)[0]
            if not pre["ok"]:
                run.inconclusive_because("baseline load failed: %s" % json.dumps(pre)[:300])
                return
        for c in cells:
            if c["kind"] == "?" or c["s"] not in MB or klass(MB[c["s"]]) is None:
                run.inconclusive_because("no value table for setting %s (validator %s)" % (
                    c["s"], MB.get(c["s"], {}).get("validator")))
                continue
            if c["kind"] in ("N", "NR"):
                built.append((c,) + build_names(c, MB, P, pre["values"]))
            elif c["kind"] in ("R", "RI", "RE"):
                built.append((c,) + build_history(c, MB, P, pre["values"]))
            else:
                built.append((c,) + build(c, MB, P))
        base_c = {"argv": ["-c", P["main"], "app:app"], "files": {P["main"]: e7.FILE_HEADER}}
        recipes = [BASE_RECIPE, base_c] + [r for _, r, _ in built] + [BASE_RECIPE]
        obs = e7.run_recipes(home, recipes, timeout=600 if tier == "quick" else 3600)
        b0, b1, blast = obs[0], obs[1], obs[-1]
        if not (b0["ok"] and b1["ok"] and blast["ok"]):
            run.inconclusive_because("baseline load failed: %s" % json.dumps([b0, b1, blast])[:300])
            return
        baseline = b0["values"]
        diff = [k for k in baseline if b1["values"][k] != baseline[k]]
        if diff != ["config"] or b1["values"]["config"] != ser(P["main"]) or baseline["default_proc_name"] != ser("app:app"):
            run.inconclusive_because("baselines with and without an empty -c file differ in %s" % diff)
            return
        if blast["values"] != baseline:
            run.inconclusive_because("state leaked between loads in one helper process (baseline changed)")
            return
        if pre is not None and pre["values"] != baseline:
            run.inconclusive_because("baseline load ahead of the batch differs from the one inside it")
            return
        run.count("baselines_agree")
        for (c, recipe, model), o in zip(built, obs[2:-1]):
            if o.get("harness") and c["kind"] not in ("R", "RI", "RE", "NR"):
                run.inconclusive_because("cell %s: %s" % (signature(c), o["harness"]))
            if c["kind"] in ("N", "NR"):
                run.case(signature(c), nontrivial=True)
                judge_names(run, c, recipe, model, baseline, o, MB)
                continue
            if c["kind"] in ("R", "RI", "RE"):
                run.case(signature(c), nontrivial=history_nontrivial(c, model, baseline))
                judge_history(run, c, recipe, model, baseline, o, MB)
                continue
            run.case(signature(c), nontrivial=is_nontrivial(c, model, baseline))
            judge(run, c, recipe, model, baseline, o, MB)
        # in-process repetition must not matter: a few cells again, each in a process of its own
        rng = rng_for(seed, "c16-isolate", signature(cells[0]) if cells else "")
        for i in (rng.sample(range(len(built)), min(isolate, len(built))) if built else []):
            alone = e7.run_recipes(home, [built[i][1]], timeout=120)[0]
            if same_obs(alone, obs[2 + i]):
                run.count("fresh_process_agrees")
            else:
                run.inconclusive_because("cell %s observed differently in a fresh process" % signature(built[i][0]))
        for c, recipe, model in built:
            if c["kind"] == "R" and c["op"] in ("remove", "unlink") or c["kind"] == "RI":
                last = model["versions"][-1]
                run.sample({"cell": c, "argv": recipe["argv"], "GUNICORN_CMD_ARGS": recipe.get("env"),
                            "framework": recipe.get("framework"),
                            "config_file_versions": [v["text"] for v in model["versions"]],
                            "expected_after_reload": "the master stops with an error (or keeps the former "
                            "configuration entirely)" if last["invalid"] else
                            expected(c["s"], dict(model, mentions=last["mentions"]), baseline)[0]}, cap=2)
            if c["kind"] == "RE" and model["raw_env_claims"] and c["ctx"] == "none":
                last = model["versions"][-1]
                run.sample({"cell": c, "argv": recipe["argv"], "GUNICORN_CMD_ARGS": recipe.get("env"),
                            "config_file_versions": [v["text"] for v in model["versions"]],
                            "expected_after_every_reload": "the merge of command line, GUNICORN_CMD_ARGS of the server's "
                            "environment, file and framework; for %s finally %s, for %s its built-in default" % (
                                c["s"], expected(c["s"], dict(model, mentions=last["mentions"]), baseline)[0],
                                model["unmentioned"])}, cap=4)
            if c["kind"] in ("N", "NR") and c["place"] == "after" and c["ctx"] == "none":
                run.sample({"cell": c, "argv": recipe["argv"], "GUNICORN_CMD_ARGS": recipe.get("env"),
                            "config_file_versions": [v["text"] for v in model["versions"]],
                            "expected": "%s is not a setting: %s = %s, every other setting as the real mentions say" % (
                                model["name"], c["s"], expected(c["s"], model, baseline)[0])}, cap=6)
            if c["kind"] == "M" and len(c["subset"]) >= 3 or c["kind"] == "I" and c["fallback"]:
                exp = None if c["kind"] == "I" else expected(c["s"], model, baseline)[0]
                run.sample({"cell": c, "argv": recipe["argv"], "GUNICORN_CMD_ARGS": recipe.get("env"),
                            "config_file": {os.path.basename(k): v[len(e7.FILE_HEADER):] for k, v in
                                            recipe["files"].items() if len(v) > len(e7.FILE_HEADER)},
                            "framework": recipe.get("framework"),
                            "expected": exp if exp is not None else "loading stops with an error"}, cap=2)
        return MB
    finally:
        shutil.rmtree(home, ignore_errors=True)


def _meta_once():
    home = common.scratch_dir("c16")
    try:
        e7.make_home(home)
        return e7.describe(home)
    finally:
        shutil.rmtree(home, ignore_errors=True)


def shard(sh):
    tier = sh.get("tier", "quick")
    run = Run(PROP, tier, sh["seed"], "exploration", RULE)
    cells = enumerate_cells(_meta_once(), tier, sh["seed"])[sh["sub"]::sh["of"]]
    run_cells(run, cells, sh["seed"], tier, isolate=2 if tier == "quick" else 20)
    return run


def main(tier, seed):
    run = Run(PROP, tier, seed, "exploration", RULE)
    run.require("baselines_agree", "cells_1_sources", "cells_2_sources", "cells_3_sources", "cells_4_sources",
                "decided_cli_over_env", "decided_cli_over_file", "decided_cli_over_framework",
                "decided_env_over_file", "decided_env_over_framework", "decided_file_over_framework",
                "single_source_changes_default_cli", "single_source_changes_default_env",
                "single_source_changes_default_file", "single_source_changes_default_framework",
                "falsy_command_line_value_wins", "normalisation_observed", "cross_setting_cells",
                "delivery_env-c", "delivery_discover", "delivery_python", "delivery_fileprefix",
                "invalid_cells", "invalid_rejected", "invalid_rejected_from_cli", "invalid_rejected_from_env",
                "invalid_rejected_from_file", "invalid_rejected_from_framework", "invalid_rejected_despite_fallback", "invalid_rejected_despite_stronger_source",
                # every way a validator refuses a value (exception type), from the sources that carry Python objects
                *["invalid_rejected_from_%s_by_%s" % (src, fam) for src in ("file", "framework") for fam in EXC_FAMILIES],
                *["reload_invalid_rejected_by_" + fam for fam in EXC_FAMILIES], "rejecting_exception_type_observed",
                "unmentioned_settings_compared", "mentioned_settings_compared", "fresh_process_agrees",
                # how files name objects that are not literals
                *["file_value_%s_in_effect" % o for o in ORIGINS],
                # reload histories
                "reload_histories", "reload_settings_compared", "reload_add_takes_effect", "reload_change_takes_effect",
                "reload_remove_falls_back_to_default", "reload_remove_falls_back_to_framework",
                "reload_unlink_falls_back_to_default", "reload_unlink_falls_back_to_framework",
                "reload_cli_keeps_winning_over_edited_file", "reload_env_keeps_winning_over_edited_file",
                "reload_other_sources_settings_intact", "reload_invalid_rejected",
                *["reload_invalid_position_" + x for x in R_POSITIONS],
                *["reload_delivery_" + x for x in R_DELIVERIES],
                # raw_env entries naming variables gunicorn reads itself: reloads that BEGAN with the variable exported
                # by the master (seen in os.environ) and ended with the merge of the four sources in every setting
                "raw_env_histories", "raw_env_cmd_args_exported_when_reload_began",
                "raw_env_cmd_args_exported_server_has_none", "raw_env_cmd_args_exported_over_the_servers_own",
                "raw_env_says_otherwise_about_setting_under_test", "raw_env_says_otherwise_about_unmentioned_setting",
                "raw_env_default_variables_exported_not_kept_for_next_master",
                "raw_env_cmd_args_not_exported_when_reload_began", "raw_env_unrelated_variable_control_reloads",
                *["raw_env_cmd_args_exported_delivery_" + x for x in R_DELIVERIES],
                *["raw_env_cmd_args_exported_ctx_" + x for x in ("none", "framework", "env", "cli")],
                *["raw_env_when_" + x for x in RE_WHEN], *["raw_env_edit_" + x for x in RE_OPS],
                "raw_env_naming_cmd_args_at_startup_changes_nothing", "raw_env_unrelated_variable_at_startup_control",
                *["raw_env_startup_delivery_" + x for x in R_DELIVERIES],
                # derived, effective values (what the server acts on) against the merge of the sources; the variable an
                # effective value consults for its built-in default next to every subset of the sources
                "effective_values_compared", *["effective_follows_merge_" + p for p in sorted(DERIVED)],
                "env_default_cells", *["env_default_cells_%d_sources" % k for k in (1, 2, 3, 4)],
                "effective_source_overrides_environment_variable",
                *["effective_%s_overrides_environment_variable" % x for x in SOURCES],
                "effective_follows_source_variable_unset", "effective_follows_source_variable_unrecognised",
                "environment_default_variable_unset", "environment_default_applies_true",
                "environment_default_applies_false", "environment_default_differs_from_unset_default",
                "environment_default_case_insensitive", "environment_default_unrecognised_value_not_judged",
                # names of a configuration file that are NOT settings but resemble one: the file ran to its end with the
                # name bound (seen) and every setting was the merge of the real mentions
                "names_not_settings_cells", "names_not_settings_histories", "names_not_settings_ignored",
                "names_not_settings_ignored_other-letter-case", "names_not_settings_ignored_affixed",
                *["names_not_settings_shape_" + x for x, _, _ in N_SHAPES],
                *["names_not_settings_place_" + x for x in N_PLACES],
                *["names_not_settings_delivery_" + x for x in N_DELIVERIES],
                *["names_not_settings_ctx_" + x for x in sorted(set(N_CTX))],
                "names_not_settings_file_value_in_effect_before_the_name",
                "names_not_settings_file_value_in_effect_after_the_name",
                "names_not_settings_default_in_effect_beside_the_name",
                *["names_not_settings_%s_in_effect_beside_the_name" % x for x in ("cli", "env", "framework")],
                "names_not_settings_reload_read_the_edit", *["names_not_settings_history_" + x for x in N_OPS],
                *["names_not_settings_reload_delivery_" + x for x in R_DELIVERIES],
                *["names_not_settings_reload_ctx_" + x for x in sorted(set(N_CTX))])
    meta = _meta_once()
    cells = enumerate_cells(meta, tier, seed)
    run.info["settings"] = len(meta)
    run.info["settings_with_cli_flag"] = len([m for m in meta if m["cli"]])
    run.info["matrix_cells"] = len(cells)
    for k in ("M", "D", "X", "E", "I", "R", "RI", "RE", "N", "NR"):
        run.info["matrix_cells_" + k] = len([c for c in cells if c["kind"] == k])
    run.extra_cov["exhaustive"] = True
    run.extra_cov["matrix"] = ("every setting of make_settings() x every non-empty subset of the sources able to "
                               "mention it x %d value assignments; plus delivery, cross-setting and invalid-value "
                               "cells; plus, per setting, reload histories {add, change, remove} x {nobody else, "
                               "framework, GUNICORN_CMD_ARGS, command line also mentions it}, deletion of the "
                               "discovered file, and every file-expressible invalid representative introduced by an "
                               "edit; plus, per setting with a command line flag, reload histories {no edit, add, "
                               "change, remove} whose file carries raw_env entries naming GUNICORN_CMD_ARGS (and "
                               "WEB_CONCURRENCY, PORT, FORWARDED_ALLOW_IPS, or an unrelated variable) from the start / "
                               "from the edit on / until the edit, with and without a GUNICORN_CMD_ARGS in the server's "
                               "own environment, and the start-up-only control (see rule); plus, for the setting whose "
                               "effective value has an environment-derived default (sendfile / SENDFILE), every subset of the "
                               "sources (the empty one included) x every value of the pool x the variable unset / 1 / 0 / yes / "
                               "false / TRUE / n / garbage / empty; plus, per setting, configuration files holding a name "
                               "that is not a setting but resembles it (other letter case, underscore / prefix / suffix, "
                               "class / function / import in another case; %d shapes) bound to another valid value of it, in "
                               "a file that does not mention the setting / mentions it before / after the name, every delivery "
                               "(python:MODULE included), the other sources rotating, and reload histories in which an edit "
                               "adds / removes / rebinds such a name" % (len(assignments(4, tier, seed)), len(N_SHAPES)))
    run.assumptions = [
        "judged at the settings layer (cfg.settings[name].get() after Application.load_config) AND, once every stored "
        "setting equals the merge, at the derived Config properties the server acts on where reading them has no outward "
        "effect: cfg.sendfile, address, uid, gid, proc_name, worker_class_str, env, is_ssl (truth value), ssl_options, "
        "reuse_port, paste_global_conf - each compared with a reference derivation from the MERGED normal forms "
        "(effective-value-differs-from-merged-setting/<property>); cfg.worker_class / cfg.logger_class import modules and "
        "call setup() / install(): not evaluated",
        "sendfile: when a source mentions it the effective value is that merged value whatever SENDFILE says "
        "(environment-default-outranks-source/sendfile when the same sources loaded WITHOUT the variable - the control "
        "load the helper adds - give the right value); when nobody mentions it the documented default applies: SENDFILE "
        "read as a switch (1 / y / yes / true enable, 0 / n / no / false disable, any case), enabled when the variable is "
        "absent; a value of the variable outside those spellings has no documented meaning: the default is then not judged "
        "(counted), a mentioning source still has to win",
        "WEB_CONCURRENCY, PORT and FORWARDED_ALLOW_IPS become built-in defaults when gunicorn.config is imported, once "
        "per helper process: not varied per cell",
        "`-c X` counts as the carrying source mentioning config=X, and the application argument (or the command line's "
        "--paste FILE) is the built-in default of default_proc_name - both by design",
        "loads run in-process in one helper per shard with sys.argv, os.environ, cwd, sys.path and config modules reset "
        "per cell; baseline stability and re-execution of sampled cells in fresh processes guard that",
        "a stub paste.deploy module stands in for PasteDeploy (not installed) so that --paste FILE can be parsed; the "
        "paste files have no [loggers] section (which would by design also set logconfig)",
        "an invalid value in a less authoritative source that a more authoritative valid value would override is not "
        "judged (the statement does not say whether it must still stop startup); invalid + less authoritative valid is",
        "accounts root/www-data/nobody/nogroup are used only if the local databases map them to 0/33/65534",
        "reload histories execute the real Arbiter.reload() on a real Arbiter created from the loaded application "
        "(Arbiter.__init__ -> setup() adopts app.cfg and exports raw_env as a real master does); only outward effects are "
        "switched off in the helper process: Config.logger_class / Config.worker_class return inert classes, "
        "sock.create_sockets / close_sockets, Pidfile, util._setproctitle, gunicorn.debug.spew, app.wsgi, spawn_worker / "
        "manage_workers / kill_workers do nothing; Arbiter.start() / run() are not called (no signal handlers, no fork); "
        "hooks of the configuration (nworkers_changed, on_reload) run as they are.  The configuration judged after a "
        "reload is arb.cfg, what the master runs with; an exception escaping Arbiter.reload(), SystemExit included, ends "
        "the master, so nothing is judged after a failed reload.  If the Arbiter cannot be constructed from a loaded "
        "application the run is inconclusive (no fallback)",
        "raw_env is a setting (variables the master exports for the application), not a configuration source: in raw_env "
        "cells the expected values are the merge of command line, GUNICORN_CMD_ARGS of the server's own environment, "
        "file and framework, whatever the entries say; the text given to GUNICORN_CMD_ARGS by raw_env names the setting "
        "under test with a value no source gives it and a setting nobody mentions with a non-default value, so a read-back "
        "shows in at least one setting; that the master had exported the variable when the reload began is observed in "
        "os.environ (reach raw_env_cmd_args_exported_when_reload_began), not assumed",
        "next to the settings, raw_env cells (and every other history) compare cfg.env_orig - the environment "
        "get_cmd_args_from_env() reads on the next reload and reexec() starts the next master with - with the server's "
        "environment in GUNICORN_CMD_ARGS, WEB_CONCURRENCY, PORT, FORWARDED_ALLOW_IPS (the variables gunicorn's sources "
        "and built-in defaults come from); the re-execution itself (SIGUSR2) is not performed here",
        "os.environ is snapshotted at the start of every cell and restored at its end",
        "the exception type with which a validator refuses a value is observed by wrapping Setting.set in the helper "
        "(the exception passes through unchanged); it only names reach counters (invalid_rejected_from_<source>_by_<type>) "
        "and falls back to the type tabulated with the representative; the rule is the same for every type",
        "a reload with a rejected value in the file may either not return (error status) or return with the former "
        "merge intact in every setting; anything else counts as the rejected value having been silently replaced",
        "module-level names of a configuration file / python: module that are not setting names (setting names are the "
        "lower-case keys of make_settings(), enumerated at run time) mention nothing, whatever they resemble and whatever "
        "they are bound to: cells N / NR expect the merge of the real mentions in every setting and a load that does not "
        "fail (name-that-is-not-a-setting-acted-as-one/<family> when the setting the name resembles has exactly the value "
        "the name is - or, after an edit, was - bound to; name-that-is-not-a-setting-stopped-loading/<family> when loading "
        "fails, the generated file ran to its last line - which the file itself records - and the refusal on stderr names "
        "the name (otherwise valid-configuration-rejected/<validator>, as everywhere); a generated file that did "
        "not run to its end is inconclusive).  The framework-defaults dict is a different interface (Application.load_config "
        "lower-cases its keys and refuses unknown ones by design): such names are not put there",
        "histories deliver the file by path (-c PATH on the command line or in GUNICORN_CMD_ARGS, file:PATH, discovered "
        "./gunicorn.conf.py); python:MODULE is left out of histories: the module stays in sys.modules, so an edit of "
        "its file is by construction of the import system not seen by a reload; the `config` setting itself has no "
        "history cells (it is the delivery)",
    ]
    shards = [{"sub": i, "of": NSHARDS, "seed": seed, "tier": tier} for i in range(NSHARDS)]
    common.run_sharded(run, shards, timeout=600 if tier == "quick" else 3600)
    if not run.inconclusive and run.evaluations != len(cells):
        run.inconclusive_because("matrix not executed completely: %d of %d cells" % (run.evaluations, len(cells)))
    return run.finish()


def replay(path):
    with open(path) as f:
        rec = json.load(f)
    run = Run(PROP, "quick", 0, "exploration", RULE)
    run_cells(run, [rec["case"]], 0, "quick", isolate=0)
    for mech, s, _ in run.violations:
        print("VIOLATION property=%s replay=%s\n  %s %s" % (PROP, path, mech, s))
    for r in run.inconclusive:
        print("INCONCLUSIVE property=%s reason=%s" % (PROP, r))
    if not run.violations:
        print("no violation on replay")
    return 1 if run.violations else 2 if run.inconclusive else 0
