"""C17 The pid file names the running master, exclusively and atomically.

Engine E6 (vlib/e6_pidfile.py), plus a live part on engine E4 (checks/c17_live.py).  Six parts:

H  histories   2-3 real helper processes, each owning a real gunicorn.pidfile.Pidfile, execute
               sequences over {create, validate, rename, unlink} x instance, harness events {foreign
               overwrite (pid of a live helper / dead pid / garbage / empty) on either path, owner
               death (SIGKILL + reap), respawn}.  After every operation both paths are read and
               compared with an independent symbolic reference model (below; imports nothing from
               gunicorn).
M  matrix      single-instance create / rename / unlink / validate over odd file contents (no
               newline, CRLF, blanks, undecodable bytes, 0, negative, overflowing numbers ...); permission
               cells: an unprivileged starter on the private (0600) pid file of another user's live master in a
               directory it may write to - it cannot read whom the file names and must not replace it.
S  spellings   one pid file under several names (absolute, relative, "./", "//", "x/../x", through a symlinked
               directory, through a symbolic link to the file): a real Arbiter.reload() after the `pidfile` setting
               was re-spelled (two Pidfile objects of one process mean one file), the same by hand on two Pidfile
               objects, and two processes using two spellings; every ordered pair of spellings (run_spellings).
K  crashes     create() / rename() / unlink() in a forked child whose os / tempfile / open are
               counting proxies; the child is killed (os._exit(137)) immediately before and
               immediately after EVERY call, plus short-write variants; the parent inspects the target, and then
               ANOTHER instance (a fresh process) runs create() on the path the dead one left behind: it must take
               over (absent / names the dead process / previous stale content), must still refuse a file naming a
               live process, and must come back within seconds (a later start that waits or gives up because of
               anything the dead process left in the directory is reported, not waited for).
               "Restricted deployment" cells: the pid directory belongs to root (0755), the child drops
               to uid nobody and owns only the pre-existing pid file (nothing can be created next to it).
R  races       the operations of two or three helper processes run CONCURRENTLY: every call Pidfile makes
               into os / tempfile / open is a scheduling point at which the helper parks until the
               harness lets it perform that one call.  Schedules are enumerated depth-first (all of them
               for the short scenarios, all with at most N preemptions for the longer ones) and sampled
               with the seed; after every single call both paths are read and judged (see ASSUMPTIONS).
L  live        real masters with a pid file (sync, gthread; thorough: gevent, eventlet) taken through
               boot / TTOU / TTIN / HUP / max_requests recycling / worker abort on timeout / SIGKILL of a
               worker / a second instance on the same file / TERM, and a restart over the stale file of
               a SIGKILLed server; upgrade histories: SIGUSR2 while the directory the server was started
               from is gone (the forked re-exec child fails - the pid file and the workers of the running
               master are not its to touch), and SIGUSR2, SIGHUP to the NEW master while the old one lives,
               TERM / QUIT to the new master: "<pidfile>" names the old master for as long as it runs,
               "<pidfile>.2" never does; re-spelling histories: the `pidfile` setting is edited to another name
               of the same file, SIGHUP, along a chain of names - after every completed reload the file exists
               under the configured name and names the master, and a second server on yet another spelling
               is refused (checks/c17_live.py).

Tiers.  quick: every sequence up to length 3 (length 4 without model-no-ops for the plain two-instance
layout) for 2 instances x {both on one path, second on "<path>.2"} x {root/root, root/nobody,
nobody/root, nobody/www-data, nobody/nobody} x both pid orders, 3 instances up to length 2-3, plus a
seeded sample of lengths 4-8 in every configuration; thorough: ALL sequences up to length 5 for the
plain two-instance layout (instances interchangeable, so only sequences that mention A first, run in
both pid orders), up to length 4 plus length 5 without model-no-ops for the uid / ".2" layouts, 3
instances up to length 3-4, larger samples.  Parts M and K are complete in both tiers.
A sequence must end in a Pidfile operation (a trailing harness event has nothing to judge).

Reference model.  Contents are symbolic tokens: None (absent) | "pid:<slot><generation>" |
"dead:<k>" | "garbage" | "empty" | "raw:<hex>" (anything else that is observed).  Relative to a
calling instance a content is  absent / self / live (names another live process) / stale (names a
dead process) / garbage / empty.  For every operation the model gives the set of allowed contents per
path for the two outcomes "returned" and "raised" and says whether raising is required, forbidden or
open (EITHER).  The model follows the implementation wherever it answered EITHER.
"""
import json
import os
import re
import shutil
import time

from vlib import common
from vlib.common import Run, rng_for

PROP = "C17"
LEVEL = "fault_enumeration"
RULE = ("H: case = (instance count, path layout, uid assignment, pid order, operation sequence); every sequence up to "
        "the tier's full length over the enabled alphabet that ends in a Pidfile operation, longer ones without "
        "model-no-ops before the last operation, plus a seeded sample of lengths 4-8; non-trivial = the judged last "
        "operation is create/rename/unlink or a validate on an existing file. M: case = (odd content, operation, uid). "
        "K: case = (operation, pre-state of the target, relative/absolute name, call index k, before/after/short "
        "write) enumerated completely from a counting run, incl. the restricted-deployment cells, each followed by a create() "
        "of another instance on the state left behind; U: case = (starter uid, file owner, live/dead content, operation) on an "
        "unreadable pid file; "
        "S: case = (family reload|objects|start, spelling before, spelling after / of the second process), all ordered pairs; "
        "R: case = (scenario = operations of 2-3 instances + pre-state of the paths, schedule = which instance makes the "
        "next call), all schedules up to the preemption bound + seeded samples; L: case = (worker class, event list); "
        "distinct by case")

SLOTS = ("A", "B", "C")
PATHS = ("P", "Q")
FNAME = {"P": "gunicorn.pid", "Q": "gunicorn.pid.2"}
GARBAGE = b"not-a-pid\n"
NOBODY, WWW = 65534, 33
INST_OPS = ("create", "validate", "unlink", "rename")
PIDLIKE = re.compile(rb"^[0-9]+\n$")

ASSUMPTIONS = [
    "rename() is only issued by an instance whose last create()/rename() returned normally (the arbiter never renames "
    "a pid file it did not create); unlink()/create()/validate() are issued in any state",
    "create() on a file that already names the caller itself may return or raise (EITHER); the file must then read "
    "'<pid>\\n'; if it returned, the instance counts as holding that file from then on",
    "rename(new) while `new` names another live process: raising is not required (EITHER) but `new` must be untouched; "
    "the caller's OLD file may be gone afterwards if it contained the caller's own pid (the property only forbids "
    "removing a file that does not contain the caller's pid) - gunicorn unlinks first, then fails in create()",
    "unlink() by an instance that does not hold the file (never created, create() raised, already unlinked) but whose "
    "pid is in it: removing or leaving are both accepted; unlink() raising is counted, not judged",
    "validate() is judged only for leaving every file untouched; its return value is compared with the model as an "
    "auxiliary agreement counter (info.aux_validate_disagree)",
    "'names a live process' = the whole content is the decimal pid (optionally followed by one newline) of a process "
    "for which kill(pid,0) does not say ESRCH; odd spellings (CRLF, blanks, sign, leading zeros, extra lines) and the "
    "numbers 0, negative and > 2^31 are EITHER: refusing must leave the file untouched, taking over must leave exactly "
    "'<pid>\\n' (what gunicorn did is listed in info.matrix_either_outcomes)",
    "any exception type counts as 'refuses to start'",
    "after a crash the target may be absent, the complete previous content or the complete new content; a target that "
    "named another live process must still hold exactly that; leftover temporary files are counted "
    "(reach.info_leftover_tempfiles) and not judged",
    "after every crash point a later create() by another process on the same path is run un-injected: it must return with "
    "the file holding exactly its pid unless the file names a live process (then it must raise and leave the file); in the "
    "restricted deployment PermissionError with the file untouched is accepted; a create() that has not returned after 3 s "
    "is reported as blocked (takeover-blocked-after-crash); a crash-matrix shard stops after 6 witnesses",
    "permission cells: pid file mode 0600 owned by root / www-data, starter nobody / www-data, directory 0777 without sticky "
    "bit: naming a live process -> create() must raise and leave the very same file (content and inode), rename() onto it "
    "must leave it alone; naming a dead process -> refusing and taking over are both accepted "
    "(info.unreadable_stale_outcomes)",
    "part R gives up on a schedule in which one instance repeats the very same call 13 times in a row (an implementation that "
    "waits for a lock held by a parked rival): not judged, the run is then inconclusive unless another part reports",
    "crash points are the calls Pidfile makes through its module globals os.*, tempfile.* and open() (and the methods "
    "of the file object open() returned); os.getpid and os.path.* are passed through uncounted",
    "two instances that start on the same path with the same uid are interchangeable: only sequences that mention A "
    "before B are run, each with pid(A) < pid(B) and with pid(A) > pid(B) (helpers are re-forked until the order holds)",
    "histories (part H) are sequential (one operation at a time, as the quantifier says). Part R interleaves the calls "
    "of two or three instances; there only the clauses that speak about every instant are judged: a call may change a "
    "path only to 'absent' (if the file held the caller's own pid, or held no live process and the caller is creating "
    "there) or to the caller's own complete '<pid>\\n' (on the path it is creating); content naming another live "
    "process may be replaced only if the path showed something else at some instant of the caller's operation (the "
    "validate-then-rename window is inherent in the file protocol and not judged); at the end a file that names a "
    "participant must name one whose create()/rename() returned, and if some instance returned from create() on a path "
    "the file must name one of those; an instance that fails is accepted whenever a rival was starting on the same path "
    "or the path named another live process at some instant",
    "two starters that both pass validate() before either renames BOTH return from create(); the later rename wins and "
    "the file names only that one. This is counted (info.race_two_instances_returned_from_create_on_one_path, "
    "info.race_later_rename_won), not judged: the property's first clause is about a file that already names a live "
    "process when the starter looks at it",
    "scheduling points of part R are the calls Pidfile makes through os.*, tempfile.* and open() (same proxies as the "
    "crash lab): tempfile.mkstemp is one step; the observer reads both paths after every step",
    "restricted deployment (crash part): when the process may not create files next to the target, create() failing "
    "with PermissionError and leaving the target untouched is accepted (counted in reach.crash_restricted_refused_eperm)",
    "live part: between events the pid file may be absent for a moment (reload() unlinks and re-creates it); whenever it "
    "is read it must be absent or hold exactly the master's pid, at the quiescent point after every event it must exist",
    "live part, upgrade histories: while the old master runs, <pidfile> is its file (same rule as above) and "
    "'<pidfile>.2' must never hold the old master's pid; what becomes of a new master that is sent SIGHUP before its "
    "promotion is not judged (the unchanged one gives up: the file it wants names another live process), nor is a "
    "'<pidfile>.2' left behind by a new master that has gone; after a re-exec attempt that fails in the forked child "
    "(start directory gone) the running master must still have its pid file AND its workers - a child that stops "
    "them has run the master's exit path, the same path that removes the pid file",
    "spellings (part S, live re-spelling histories): a name configured for the pid file means the file it resolves to from the "
    "master's working directory at that moment; after a reload the file is looked for under the name now configured. "
    "Arbiter.reload() is driven on a real Arbiter with a real Config (workers = 0, no listeners, spawning disabled) in a helper "
    "process; if that cannot be done in the tree under test the run is inconclusive. reload() raising RuntimeError (the master "
    "would give up) is counted (info.respell_reload_raised), not judged here. Pidfile alone cannot know that two names are one "
    "file: 'create under the new name, then unlink under the old one' on two Pidfile objects leaves no file on the unchanged "
    "tree (info.respell_create_then_unlink_left_no_file) - that order is judged only where an arbiter uses it (reload family, "
    "live histories)",
    "a deviation is reported only if it reproduces in two further executions of the same history with fresh processes "
    "(pid_max is 32768 here, so a 'dead' pid may be reused by an unrelated process); a non-reproducing one is counted in "
    "info.transient_deviation, a partly reproducing one makes the run inconclusive",
]


def other(p):
    return "Q" if p == "P" else "P"


# ---- reference model (symbolic, independent of gunicorn) ---------------------------------------

def init_name(cfg, X):
    if cfg["layout"] == "usr2" and X == "B":
        return "Q"
    return "P"


class M:
    def __init__(self, cfg=None):
        self.files = {"P": None, "Q": None}
        self.inst = {}
        self.ndead = 0
        if cfg is not None:
            for X in SLOTS[:cfg["n"]]:
                self.inst[X] = {"gen": 0, "alive": True, "fname": init_name(cfg, X), "holds": False,
                                "adopted": False}

    def copy(self):
        m = M()
        m.files = dict(self.files)
        m.inst = {k: dict(v) for k, v in self.inst.items()}
        m.ndead = self.ndead
        return m

    def key(self):
        return (self.files["P"], self.files["Q"],
                tuple((k, v["gen"], v["alive"], v["fname"], v["holds"], v["adopted"])
                      for k, v in sorted(self.inst.items())))

    def me(self, X):
        return "pid:%s%d" % (X, self.inst[X]["gen"])

    def tok_alive(self, tok):
        X, gen = tok[4], int(tok[5:])
        return self.inst[X]["gen"] == gen and self.inst[X]["alive"]

    def cls(self, tok, X):
        if tok is None:
            return "absent"
        if tok == self.me(X):
            return "self"
        if tok.startswith("pid:"):
            return "live" if self.tok_alive(tok) else "stale"
        if tok.startswith("dead:"):
            return "stale"
        if tok in ("garbage", "empty"):
            return tok
        return "raw"


def enabled(cfg, st):
    ops = []
    for X in SLOTS[:cfg["n"]]:
        I = st.inst[X]
        if I["alive"]:
            ops += [X + ".create", X + ".validate", X + ".unlink"]
            if I["holds"]:
                ops.append(X + ".rename")
            ops.append(X + ".kill")
        else:
            ops.append(X + ".respawn")
    for p in PATHS:
        for kind in SLOTS[:cfg["n"]] + ("dead", "garbage", "empty"):
            ops.append("F.%s.%s" % (p, kind))
    return ops


def is_inst_op(op):
    return op.split(".")[1] in INST_OPS


def expect(st, op):
    """Expectation for an instance operation: dict(kind, X, path, cls, raise in must|mustnot|either,
    ok={path: allowed tokens if it returned}, raised={path: allowed tokens if it raised}, tags).
    Paths not listed must be unchanged."""
    X, kind = op.split(".")
    I = st.inst[X]
    f = I["fname"]
    cur = st.files[f]
    c = st.cls(cur, X)
    me = st.me(X)
    e = {"kind": kind, "X": X, "path": f, "cls": c, "tags": []}
    if kind == "create":
        if c == "live":
            e.update({"raise": "must", "ok": {f: [cur]}, "raised": {f: [cur]}})
            e["tags"] = ["create_refused_live_owner"]
        elif c == "self":
            e.update({"raise": "either", "ok": {f: [me]}, "raised": {f: [me]}})
            e["tags"] = ["create_own_file_again"]
        else:
            e.update({"raise": "mustnot", "ok": {f: [me]}, "raised": {f: [cur, me]}})
            e["tags"] = [{"absent": "create_fresh", "stale": "create_took_over_stale",
                          "garbage": "create_took_over_garbage", "empty": "create_took_over_empty",
                          "raw": "create_took_over_garbage"}[c]]
    elif kind == "validate":
        e.update({"raise": "either", "ok": {f: [cur]}, "raised": {f: [cur]}})
        e["tags"] = ["validate_calls"]
    elif kind == "unlink":
        if c == "self" and I["holds"]:
            allowed = [None]
            e["tags"] = ["unlink_removed_own"]
        elif c == "self":
            allowed = [None, cur]
            e["tags"] = ["unlink_own_pid_not_holding"]
        else:
            allowed = [cur]
            e["tags"] = ["unlink_absent" if c == "absent" else "unlink_skipped_foreign", "unlink_skipped_" + c]
        e.update({"raise": "either", "ok": {f: allowed}, "raised": {f: allowed}})
    elif kind == "rename":
        new = other(f)
        curn = st.files[new]
        cn = st.cls(curn, X)
        e["new"] = new
        e["cls_new"] = cn
        e["cls_old"] = c
        if c == "self":
            old_ok, old_raised = [None], [None, cur]
        else:
            old_ok = old_raised = [cur]
        if cn == "live":
            e.update({"raise": "either", "ok": {f: old_ok, new: [curn]}, "raised": {f: old_raised, new: [curn]}})
            e["tags"] = ["rename_refused_live_instance"]
        elif cn == "self":
            e.update({"raise": "either", "ok": {f: old_ok, new: [me]}, "raised": {f: old_raised, new: [me]}})
            e["tags"] = ["rename_onto_own_pid"]
        else:
            e.update({"raise": "mustnot", "ok": {f: old_ok, new: [me]}, "raised": {f: old_raised, new: [curn, me]}})
            e["tags"] = ["rename_done"] + (["rename_took_over_stale"] if cn == "stale" else []) + \
                (["rename_old_was_foreign"] if c != "self" else [])
    return e


def predict(st, op):
    """Reference outcome of an instance operation, used only to enumerate histories (which operations are enabled
    later, which are model-no-ops): (raised, {path: token}, fname afterwards)."""
    e = expect(st, op)
    f = e["path"]
    files = {}
    kind = e["kind"]
    if kind == "create":
        raised = e["raise"] == "must"
        files[f] = e["raised" if raised else "ok"][f][0]
        return raised, files, f
    if kind == "validate":
        return False, files, f
    if kind == "unlink":
        files[f] = e["ok"][f][-1]
        return False, files, f
    new = e["new"]
    raised = e["cls_new"] == "live"
    files[f] = e["ok"][f][0]
    files[new] = e["ok"][new][0]
    return raised, files, new


def apply_inst(st, op, e, raised, files, fname):
    """Advance the model by the OBSERVED (or predicted) outcome of an instance operation."""
    X, kind = op.split(".")
    I = st.inst[X]
    for p, t in files.items():
        st.files[p] = t
    if kind == "create":
        if raised:
            I["holds"] = False
        else:
            if e["cls"] == "self":
                if not I["holds"]:
                    I["adopted"] = True
            else:
                I["adopted"] = False
            I["holds"] = e["cls"] != "live"
    elif kind == "unlink":
        I["holds"] = False
        I["adopted"] = False
    elif kind == "rename":
        I["fname"] = fname
        if raised or e["cls_new"] == "live":
            I["holds"] = False
        else:
            I["holds"] = True
            if e["cls_new"] == "self":
                I["adopted"] = True
    if kind != "rename" and fname is not None:
        I["fname"] = fname


def apply_harness(st, cfg, op):
    """kill / respawn / foreign overwrite: returns the token written (foreign) or None."""
    parts = op.split(".")
    if parts[0] == "F":
        _, p, kind = parts
        if kind in SLOTS:
            tok = st.me(kind)
        elif kind == "dead":
            tok = "dead:%d" % st.ndead
            st.ndead += 1
        else:
            tok = kind
        st.files[p] = tok
        return tok
    X, kind = parts
    I = st.inst[X]
    if kind == "kill":
        I["alive"] = False
        I["holds"] = False
        I["adopted"] = False
    elif kind == "respawn":
        I.update({"gen": I["gen"] + 1, "alive": True, "fname": init_name(cfg, X), "holds": False, "adopted": False})
    return None


def step_predicted(st, cfg, op):
    st2 = st.copy()
    if is_inst_op(op):
        e = expect(st2, op)
        raised, files, fname = predict(st2, op)
        apply_inst(st2, op, e, raised, files, fname)
    else:
        apply_harness(st2, cfg, op)
    return st2


# ---- history enumeration -----------------------------------------------------------------------

def symmetric(cfg):
    return cfg["n"] == 2 and cfg["layout"] == "contend" and len(set(cfg["uids"])) == 1


def mentions(op):
    a = op.split(".")
    if a[0] == "F":
        return a[2] if a[2] in SLOTS else None
    return a[0]


def canonical(ops):
    """Slots are first mentioned in the order A, B, C (used for layouts where instances are interchangeable; both
    pid orders are run separately)."""
    nxt = 0
    for op in ops:
        s = mentions(op)
        if s is None:
            continue
        i = SLOTS.index(s)
        if i > nxt:
            return False
        if i == nxt:
            nxt += 1
    return True


def stable_hash(ops):
    return int(common.sha12(list(ops)), 16)


def enum_histories(cfg, l_full, l_max, sub=0, of=1):
    """Every enabled sequence of length <= l_full ending in an instance operation, and those of length
    <= l_max in which no operation before the last is a no-op of the model; split over `of` shards by the
    first two operations."""
    sym = symmetric(cfg)

    def rec(st, hist, clean):
        for op in enabled(cfg, st):
            h2 = hist + [op]
            if sym and not canonical(h2):
                continue
            mine = True
            if len(h2) <= 2:
                mine = stable_hash(h2) % of == sub
            if is_inst_op(op) and mine:
                yield h2
            if len(h2) == 2 and not mine:
                continue
            if len(h2) >= l_max:
                continue
            st2 = step_predicted(st, cfg, op)
            clean2 = clean and st2.key() != st.key()
            if len(h2) < l_full or clean2:
                yield from rec(st2, h2, clean2)
    yield from rec(M(cfg), [], True)


def sample_histories(cfg, rng, count, lo=4, hi=8):
    out = []
    for _ in range(count):
        n = rng.randint(lo, hi)
        st = M(cfg)
        h = []
        for i in range(n):
            ops = enabled(cfg, st)
            inst = [o for o in ops if is_inst_op(o)]
            if inst and (i == n - 1 or rng.random() < 0.6):
                op = rng.choice(inst)
            else:
                op = rng.choice(ops)
            h.append(op)
            st = step_predicted(st, cfg, op)
        if h and is_inst_op(h[-1]):
            out.append(h)
    return out


# ---- executing one history on real processes ---------------------------------------------------

class PidReuse(Exception):
    pass


class Ctx:
    """Per shard: the lab and the helper currently sitting in each slot (kept alive across histories)."""

    def __init__(self):
        from vlib import e6_pidfile as e6
        self.e6 = e6
        self.lab = e6.Lab("c17")
        self.slot = {}

    def close(self):
        self.lab.close()

    def ensure(self, X, uid):
        h = self.slot.get(X)
        if h is None or not h.alive or h.uid != uid:
            if h is not None:
                self.lab.retire(h)
            h = self.lab.spawn(uid)
            self.slot[X] = h
        return h

    def respawn(self, X, uid):
        h = self.slot.get(X)
        if h is not None:
            self.lab.retire(h)
        self.slot[X] = self.lab.spawn(uid)
        return self.slot[X]

    def setup(self, cfg):
        for X in list(self.slot):
            if X not in SLOTS[:cfg["n"]]:
                self.lab.retire(self.slot.pop(X))
        for i, X in enumerate(SLOTS[:cfg["n"]]):
            self.ensure(X, cfg["uids"][i])
        if cfg["n"] == 2 and cfg.get("order") in ("fwd", "rev"):
            for _ in range(6):
                a, b = self.slot["A"].pid, self.slot["B"].pid
                if (a < b) == (cfg["order"] == "fwd"):
                    break
                # the newest process normally has the highest pid
                if cfg["order"] == "fwd":
                    self.respawn("B", cfg["uids"][1])
                else:
                    self.respawn("A", cfg["uids"][0])
        self.lab.clean()
        for X in SLOTS[:cfg["n"]]:
            self.slot[X].call(op="new", fname=self.lab.path(FNAME[init_name(cfg, X)]))


def exec_history(ctx, cfg, ops):
    """Run one history.  Returns dict(viol=[(mechanism, text)], reach={..}, info={..}, trace=[..], abort=None|reason,
    nontrivial=bool)."""
    lab, e6 = ctx.lab, ctx.e6
    res = {"viol": [], "reach": {}, "info": {}, "trace": [], "abort": None, "nontrivial": False, "executed": 0}

    def cnt(k, n=1, where="reach"):
        res[where][k] = res[where].get(k, 0) + n

    try:
        ctx.setup(cfg)
    except (e6.HelperTimeout, e6.HelperDied, OSError) as ex:
        res["abort"] = "setup failed: %r" % (ex,)
        return res
    st = M(cfg)
    tok2b, b2tok = {"garbage": GARBAGE, "empty": b""}, {GARBAGE: "garbage", b"": "empty"}
    dead_pids = []
    uid_of = {}

    def register(tok, data):
        if data in b2tok and b2tok[data] != tok:
            raise PidReuse("%r stands for both %s and %s" % (data, b2tok[data], tok))
        tok2b[tok] = data
        b2tok[data] = tok

    for i, X in enumerate(SLOTS[:cfg["n"]]):
        register(st.me(X), b"%d\n" % ctx.slot[X].pid)
        uid_of[st.me(X)] = cfg["uids"][i]

    def observe():
        out = {}
        for p in PATHS:
            d = lab.read(FNAME[p])
            out[p] = None if d is None else b2tok.get(d, "raw:" + d[:64].hex())
        return out

    def show(tok):
        if tok is None:
            return "absent"
        if tok.startswith("raw:"):
            return "%r" % bytes.fromhex(tok[4:])
        return "%s=%r" % (tok, tok2b.get(tok))

    def all_dead_still_dead():
        for pid in dead_pids:
            if not e6.pid_is_dead(pid):
                return False
        return True

    try:
        for idx, op in enumerate(ops):
            if op not in enabled(cfg, st):
                cnt("history_truncated_disabled_op", where="info")
                break
            if not is_inst_op(op):
                parts = op.split(".")
                if parts[0] == "F":
                    kind = parts[2]
                    if kind == "dead":
                        pid = lab.fresh_dead_pid(exclude=[int(b) for b in b2tok if b[:1].isdigit()])
                        dead_pids.append(pid)
                        register("dead:%d" % st.ndead, b"%d\n" % pid)
                    tok = apply_harness(st, cfg, op)
                    lab.write(FNAME[parts[1]], tok2b[tok])
                    cnt("foreign_overwrites")
                elif parts[1] == "kill":
                    h = ctx.slot[parts[0]]
                    h.kill()
                    lab.bury(h.pid)
                    if not e6.pid_is_dead(h.pid):
                        raise PidReuse("killed helper %d is not ESRCH" % h.pid)
                    dead_pids.append(h.pid)
                    apply_harness(st, cfg, op)
                    cnt("owner_deaths")
                else:
                    X = parts[0]
                    uid = cfg["uids"][SLOTS.index(X)]
                    h = ctx.respawn(X, uid)
                    apply_harness(st, cfg, op)
                    register(st.me(X), b"%d\n" % h.pid)
                    uid_of[st.me(X)] = uid
                    h.call(op="new", fname=lab.path(FNAME[init_name(cfg, X)]))
                    cnt("respawns")
                res["trace"].append({"op": op})
                after = observe()
                if after != st.files:
                    res["abort"] = "harness event %s did not produce the modelled files: %s" % (op, after)
                    break
                continue

            # ---- an operation of the implementation under test
            X, kind = op.split(".")
            e = expect(st, op)
            before = dict(st.files)
            h = ctx.slot[X]
            if kind == "rename":
                rep = h.call(op="rename", path=lab.path(FNAME[e["new"]]))
            else:
                rep = h.call(op=kind)
            res["executed"] += 1
            raised = not rep["ok"]
            after = observe()
            res["trace"].append({"op": op, "pid": h.pid, "cls": e["cls"], "cls_new": e.get("cls_new"),
                                 "raised": rep.get("exc") if raised else None, "ret": rep.get("ret"),
                                 "files": {p: show(after[p]) for p in PATHS}})
            v = judge(st, op, e, raised, rep, before, after, show)
            if v:
                if not all_dead_still_dead():
                    raise PidReuse("a pid the model holds dead answers kill(0) again")
                res["viol"] = v
                break
            if kind != "validate" or e["cls"] != "absent":
                res["nontrivial"] = True
            for t in e["tags"]:
                cnt(t)
            if kind == "create" and e["cls"] == "live":
                owner = before[e["path"]]
                opid = int(tok2b[owner])
                cnt("create_refused_live_owner_%s_pid" % ("higher" if opid > h.pid else "lower"))
                if h.uid != 0 and uid_of.get(owner) != h.uid:
                    cnt("create_refused_live_owner_eperm")
            if raised:
                cnt("exc_" + str(rep.get("exc")), where="info")
                if kind in ("unlink", "validate"):
                    cnt(kind + "_raised", where="info")
            if kind == "validate":
                want = {"live": "other", "self": "self"}.get(e["cls"], "none")
                got = rep.get("ret")
                cur = before[e["path"]]
                agree = (not got) if want == "none" else (not raised and cur in tok2b and got == int(tok2b[cur]))
                cnt("aux_validate_agree" if agree else "aux_validate_disagree", where="info")
            # follow the implementation
            fname = None
            rf = rep.get("fname")
            for p in PATHS:
                if rf == lab.path(FNAME[p]):
                    fname = p
            if fname is None:
                res["abort"] = "helper reports unknown fname %r" % (rf,)
                break
            apply_inst(st, op, e, raised, {p: after[p] for p in PATHS}, fname)
        left = [n for n in lab.listing() if n not in FNAME.values()]
        if left:
            cnt("info_leftover_tempfiles", len(left))
    except PidReuse as ex:
        res["abort"] = "pid-reuse: %s" % ex
    except (e6.HelperTimeout, e6.HelperDied) as ex:
        res["abort"] = "helper: %s" % ex
    return res


def judge(st, op, e, raised, rep, before, after, show):
    """Compare the observed outcome of one instance operation with the expectation. -> [(mechanism, text)]"""
    kind, X, f = e["kind"], e["X"], e["path"]
    me = st.me(X)
    allowed = e["raised" if raised else "ok"]
    adopted = "/after-adopting-existing-file" if st.inst[X]["adopted"] else ""
    out = []

    def bad(mech, text):
        out.append((mech, "%s: %s" % (op, text)))

    for p in PATHS:
        a, b = after[p], before[p]
        if p not in allowed:
            if a != b:
                bad(kind + "-touched-unrelated-path", "%s changed from %s to %s" % (FNAME[p], show(b), show(a)))
            continue
        if a in allowed[p]:
            continue
        role = "new" if (kind == "rename" and p == e["new"]) else "own"
        c = e["cls_new"] if role == "new" else e["cls"]
        desc = "%s (%s, %s) was %s, now %s" % (FNAME[p], role, c, show(b), show(a))
        if kind == "create":
            if c == "live":
                bad("create-overwrote-live-owner", desc)
            elif raised:
                pass        # reported below as refusal
            else:
                bad("create-wrong-content/" + c, desc)
        elif kind == "unlink":
            if c == "self":
                bad("unlink-left-own-file" + adopted, desc)
            elif a is None:
                bad("unlink-removed-foreign-file", desc)
            else:
                bad("unlink-changed-foreign-file", desc)
        elif kind == "validate":
            bad("validate-changed-file", desc)
        elif kind == "rename":
            if role == "new":
                if c == "live":
                    bad("rename-clobbered-live-instance", desc)
                elif raised:
                    pass
                else:
                    bad("rename-wrong-content" + (adopted or "/" + c), desc)
            else:
                if c != "self":
                    bad("rename-removed-foreign-file" if a is None else "rename-changed-foreign-file", desc)
                elif a == b:
                    bad("rename-left-old-name" + adopted, desc + " after a successful rename")
                else:
                    bad("rename-wrong-content-at-old-name", desc)
    # raising discipline
    if e["raise"] == "must" and not raised:
        if not any(m.startswith("create-overwrote") for m, _ in out):
            bad("create-accepted-live-owner", "returned normally although %s names live %s" % (FNAME[f], show(before[f])))
    if e["raise"] == "mustnot" and raised:
        c = e["cls_new"] if kind == "rename" else e["cls"]
        bad("%s-refused-takeover/%s" % (kind, c), "raised %s: %s although the file was %s" % (
            rep.get("exc"), rep.get("msg"), c))
    # completeness of whatever is on disk (content the harness wrote itself is exempt)
    if not out:
        for p in PATHS:
            a = after[p]
            if a is not None and a.startswith("raw:") and a != before[p]:
                bad("incomplete-content-observed", "%s holds %s" % (FNAME[p], show(a)))
    return out


def run_history(ctx, run, cfg, ops, count=True):
    """exec_history + pid-reuse retry + confirmation of deviations. Returns the list of confirmed violations."""
    res = None
    for _ in range(4):
        res = exec_history(ctx, cfg, ops)
        if res["abort"] and res["abort"].startswith("pid-reuse"):
            run.info["pid_reuse_retries"] = run.info.get("pid_reuse_retries", 0) + 1
            continue
        break
    if res["abort"]:
        run.inconclusive_because("history %s %s: %s" % (json.dumps(cfg, sort_keys=True), ops, res["abort"]))
        return []
    sig = ("H", cfg["n"], cfg["layout"], tuple(cfg["uids"]), cfg.get("order"), tuple(ops))
    if count:
        run.case(sig, nontrivial=res["nontrivial"] or bool(res["viol"]))
        run.count("histories_run")
        run.count("ops_executed", res["executed"])
        for k, v in res["reach"].items():
            run.count(k, v)
        for k, v in res["info"].items():
            run.info[k] = run.info.get(k, 0) + v
    if not res["viol"]:
        return []
    mechs = sorted(m for m, _ in res["viol"])
    same = 0
    for _ in range(2):
        r2 = exec_history(ctx, cfg, ops)
        if not r2["abort"] and sorted(m for m, _ in r2["viol"]) == mechs:
            same += 1
    if same == 0:
        run.info["transient_deviation"] = run.info.get("transient_deviation", 0) + 1
        return []
    if same == 1:
        run.inconclusive_because("deviation %s in history %s reproduced only once in two re-runs" % (mechs, ops))
        return []
    case = {"part": "H", "cfg": cfg, "ops": list(ops)}
    for mech, text in res["viol"]:
        run.violation(mech, "%s | cfg=%s history=%s trace=%s" % (
            text, json.dumps(cfg, sort_keys=True), " ".join(ops), json.dumps(res["trace"][-3:])), case)
    return res["viol"]


# ---- part M: odd contents ----------------------------------------------------------------------

def matrix_contents(live, dead, me):
    """(name, bytes, class) - class: garbage (must take over) | live (must refuse) | stale (must take over) |
    either."""
    L, D, S = b"%d" % live, b"%d" % dead, b"%d" % me
    return [
        ("newline-only", b"\n", "garbage"),
        ("blanks", b"  \n", "garbage"),
        ("digits+letter", b"12x\n", "garbage"),
        ("two-numbers", b"1 2\n", "garbage"),
        ("key=value", b"pid=12\n", "garbage"),
        ("undecodable", b"\xff\xfe\x00\n", "garbage"),
        ("None", b"None\n", "garbage"),
        ("hex", b"0x10\n", "garbage"),
        ("long-garbage", b"x" * 70000, "garbage"),
        ("live-no-newline", L, "live"),
        ("dead-no-newline", D, "stale"),
        ("dead-pid-max", b"2147483647\n", "stale"),
        ("live-crlf", L + b"\r\n", "either"),
        ("live-blank-padded", b" " + L + b" \n", "either"),
        ("live-leading-zero", b"0" + L + b"\n", "either"),
        ("live-plus-sign", b"+" + L + b"\n", "either"),
        ("live-two-newlines", L + b"\n\n", "either"),
        ("live-then-extra-line", L + b"\nextra\n", "either"),
        ("live-negative", b"-" + L + b"\n", "either"),
        ("zero", b"0\n", "either"),
        ("minus-one", b"-1\n", "either"),
        ("beyond-int32", b"4194304000\n", "either"),
        ("twenty-digits", b"99999999999999999999\n", "either"),
        ("5000-digits", b"9" * 5000 + b"\n", "either"),
        ("self-no-newline", S, "either"),
        # how old the file is says nothing about whom it names: a master may have adopted a left-over file that already held
        # its pid, a restore may have kept time stamps, the clock may have been set - "names a live process" is what counts
        ("live-file-a-day-older-than-the-process", L + b"\n", "live", -86400.0),
        ("live-file-from-1970", L + b"\n", "live", "epoch"),
        ("live-file-from-the-future", L + b"\n", "live", 86400.0),
        ("dead-file-a-day-old", D + b"\n", "stale", -86400.0),
        ("dead-file-from-the-future", D + b"\n", "stale", 86400.0),
        ("garbage-file-a-day-old", b"12x\n", "garbage", -86400.0),
    ]


def run_matrix(run, ctx, uid, only=None):
    lab, e6 = ctx.lab, ctx.e6
    cfg = {"n": 1, "layout": "contend", "uids": [uid]}
    live = os.getpid()                  # the shard process: alive, root-owned (EPERM for an unprivileged helper)
    either_log = run.info.setdefault("matrix_either_outcomes", {})
    sampled = False
    for op in ("create", "rename", "unlink", "validate"):
        ctx.setup(cfg)
        h = ctx.slot["A"]
        new = b"%d\n" % h.pid
        dead = lab.fresh_dead_pid()
        for name, data, klass, *age in matrix_contents(live, dead, h.pid):
            if only and (name, op) != tuple(only):
                continue
            if klass == "stale" and name.startswith("dead-") and name != "dead-pid-max" and not e6.pid_is_dead(dead):
                continue

            def aged(rel, age=age):
                if age:
                    t = 1.0 if age[0] == "epoch" else time.time() + age[0]
                    os.utime(lab.path(rel), (t, t))
                    run.count("matrix_cases_with_file_time_apart_from_now")
            lab.clean()
            P, Q = FNAME["P"], FNAME["Q"]
            h.call(op="new", fname=lab.path(P))
            case = {"part": "M", "uid": uid, "content": name, "op": op}
            run.case(("M", uid, name, op))
            run.count("matrix_cases")
            viol = []
            if op in ("create", "validate"):
                lab.write(P, data)
                aged(P)
                rep = h.call(op=op)
                got = lab.read(P)
                tgt_before = data
            elif op == "rename":
                h.call(op="create")
                lab.write(Q, data)
                aged(Q)
                rep = h.call(op="rename", path=lab.path(Q))
                got = lab.read(Q)
                tgt_before = data
                oldc = lab.read(P)
                if oldc not in (None, new) or (rep["ok"] and oldc is not None and klass in ("garbage", "stale")):
                    viol.append(("rename-left-old-name", "old name holds %r after rename onto %s" % (oldc, name)))
            else:
                h.call(op="create")
                lab.write(P, data)
                aged(P)
                rep = h.call(op="unlink")
                got = lab.read(P)
                tgt_before = data
            raised = not rep["ok"]
            what = "%s over %s content %r (uid %d): %s, file now %r" % (
                op, name, data[:40], uid, "raised %s" % rep.get("exc") if raised else "returned", (got or b"")[:40]
                if got is not None else None)
            if op == "validate":
                if got != tgt_before:
                    viol.append(("validate-changed-file", what))
            elif op == "unlink":
                if name == "self-no-newline":
                    if got not in (None, tgt_before):
                        viol.append(("unlink-changed-foreign-file", what))
                elif got != tgt_before:
                    viol.append(("unlink-removed-foreign-file" if got is None else "unlink-changed-foreign-file", what))
                else:
                    run.count("unlink_skipped_foreign")
            else:
                if klass == "live":
                    if got != tgt_before:
                        viol.append((op + ("-overwrote-live-owner" if op == "create" else "-clobbered-live-instance"), what))
                    elif not raised and op == "create":
                        viol.append(("create-accepted-live-owner", what))
                    else:
                        run.count("matrix_refused_live")
                elif klass in ("garbage", "stale"):
                    if raised:
                        viol.append(("%s-refused-takeover/%s" % (op, klass), what))
                    elif got != new:
                        viol.append(("%s-wrong-content/%s" % (op, klass), what))
                    else:
                        run.count("matrix_took_over")
                else:
                    if raised and got != tgt_before:
                        viol.append((op + "-refused-but-changed-file", what))
                    elif not raised and got != new and not (name == "self-no-newline" and got == tgt_before):
                        viol.append(("%s-wrong-content/odd-number" % op, what))
                    else:
                        run.count("matrix_either")
                        either_log["%s/%s/uid%d" % (op, name, uid)] = (
                            "refused:%s" % rep.get("exc") if raised else "took-over" if got == new else "kept")
            for mech, text in viol:
                run.violation(mech, text, case)
            if not viol and not sampled and name == "live-no-newline" and op == "create":
                sampled = True
                run.sample({"part": "M", "case": case, "content": common.hexs(data), "observed": what}, cap=1)
    ctx.setup(cfg)


# ---- part M, permission cells: the pid file of ANOTHER USER's master -----------------------------

def run_unreadable(run, ctx, only=None):
    """The path holds the pid file of a master that runs under another account and keeps it private (mode 0600); the
    directory is writable for everybody (no sticky bit), so the starter could rename its own file over it.  The starter
    cannot read whom the file names.  When it names a live process the first clause applies as it stands: the start is
    refused and the file is left alone (the same for rename() onto such a path; unlink() / validate() leave it alone).
    When it names a dead process the starter cannot know: refusing (file untouched) and taking over (exactly the
    starter's pid) are both accepted and counted."""
    lab, e6 = ctx.lab, ctx.e6
    live = os.getpid()                  # the shard process: alive, root-owned
    P, Q = FNAME["P"], FNAME["Q"]
    log = run.info.setdefault("unreadable_stale_outcomes", {})
    for uid, owner in ((NOBODY, 0), (NOBODY, WWW), (WWW, 0)):
        cfg = {"n": 1, "layout": "contend", "uids": [uid]}
        for content in ("live", "stale"):
            for op in ("create", "rename", "unlink", "validate"):
                if only and [uid, owner, content, op] != list(only):
                    continue
                ctx.setup(cfg)
                h = ctx.slot["A"]
                mine = b"%d\n" % h.pid
                data = b"%d\n" % (live if content == "live" else lab.fresh_dead_pid())
                tgt = Q if op == "rename" else P
                if op in ("rename", "unlink"):
                    rep = h.call(op="create")
                    if not rep["ok"]:
                        run.inconclusive_because("permission cell: the helper could not create its own file: %s" % rep)
                        continue
                    if op == "unlink":
                        os.unlink(lab.path(P))
                lab.write(tgt, data)
                os.chown(lab.path(tgt), owner, owner)
                os.chmod(lab.path(tgt), 0o600)
                ino = os.stat(lab.path(tgt)).st_ino
                rep = h.call(op="rename", path=lab.path(Q)) if op == "rename" else h.call(op=op)
                raised = not rep["ok"]
                got = lab.read(tgt)
                try:
                    same_file = os.stat(lab.path(tgt)).st_ino == ino
                except FileNotFoundError:
                    same_file = False
                case = {"part": "U", "cell": [uid, owner, content, op]}
                run.case(("U", uid, owner, content, op))
                run.count("unreadable_pidfile_cells")
                what = ("%s by uid %d on a pid file it may not read (mode 0600, owner uid %d, directory 0777) naming %s process "
                        "%s: %s, file now %r%s" % (op, uid, owner, "the live" if content == "live" else "a dead",
                                                   data.strip().decode(), "raised %s: %s" % (rep.get("exc"), rep.get("msg")) if raised
                                                   else "returned %r" % (rep.get("ret"),), got,
                                                   "" if same_file else " (not the same file any more)"))
                viol = []
                untouched = got == data and same_file
                if op in ("unlink", "validate"):
                    if not untouched:
                        viol.append(("%s-%s-foreign-file/unreadable-file" % (op, "removed" if got is None else "changed"), what))
                elif content == "live":
                    if not untouched:
                        viol.append((("create-overwrote-live-owner" if op == "create" else "rename-clobbered-live-instance") +
                                     "/unreadable-file", what))
                    elif not raised and op == "create":
                        viol.append(("create-accepted-live-owner/unreadable-file", what))
                    else:
                        run.count("unreadable_live_refused")
                else:
                    if raised and not untouched:
                        viol.append((op + "-refused-but-changed-file/unreadable-file", what))
                    elif not raised and got != mine:
                        viol.append((op + "-wrong-content/unreadable-file", what))
                    else:
                        run.count("unreadable_stale_either")
                        log["%s/uid%d/owner%d" % (op, uid, owner)] = "refused:%s" % rep.get("exc") if raised else "took-over"
                if not viol and op in ("unlink", "validate"):
                    run.count("unreadable_left_alone")
                for mech, text in viol:
                    run.violation(mech, text, case)
    ctx.setup({"n": 1, "layout": "contend", "uids": [0]})


# ---- part S: one pid file, several spellings of its path ---------------------------------------

SPELL_START = ("abs", "dirlink", "dot", "dslash", "dotdot", "rel")          # names a server can be started on
SPELL_ALL = SPELL_START + ("filelink",)                                       # + a symbolic link to the file itself


def run_spellings(run, ctx, only=None):
    """The same file named absolutely, relatively, with "./", "//", "x/../x", through a symlinked directory and through a
    symbolic link to the file.  Three families, every ordered pair of spellings each:
      reload   one process: a real Arbiter (vlib.e6_pidfile._arbiter_for_reload: real __init__/setup/reload, no workers, no
               listeners) has its pid file under s1; the `pidfile` setting becomes s2; reload(): whatever order of unlink /
               create THIS tree's reload() uses, afterwards the file exists under s2 and names the process; a second
               process whose Pidfile is spelled s3 is refused and leaves the file; at halt the file goes.
      objects  one process, two Pidfile objects, by hand in the order of the unchanged reload(): old.unlink(), Pidfile(s2),
               create(): same judgement.  (The other order - create the new one, then unlink the old one - is run too and
               only counted: Pidfile alone cannot know that both names are one file.)
      start    two processes: A creates under s1; B, spelled s3, must be refused, its unlink() must leave A's file; after
               A's death B takes the file over.
    """
    from checks.c17_live import spell
    lab, e6 = ctx.lab, ctx.e6
    base = lab.dir

    def full(name):
        return os.path.join(base, name)

    def rd(name):
        try:
            with open(full(name), "rb") as f:
                return f.read()
        except FileNotFoundError:
            return None

    def fresh():
        lab.clean()
        os.mkdir(full("run"))
        os.chmod(full("run"), 0o777)
        os.symlink("run", full("run-link"))
        a, b = ctx.ensure("A", 0), ctx.ensure("B", 0)
        for h in (a, b):
            r = h.call(op="chdir", path=base)
            if not r["ok"]:
                raise e6.HelperDied("chdir: %r" % (r,))
        return a, b

    def third(s2, s1):
        for s in ("dirlink", "abs", "dot", "dslash"):
            if s not in (s2, s1) and not (s2 == "filelink" and s == "abs"):
                return s

    def second_starter(b, a, cfg_name, s3, case, what):
        """B, spelled s3 (a spelling, or the name itself), while A holds the file configured as cfg_name. -> True if judged fine"""
        n3 = s3 if "/" in s3 else spell(base, s3, os.path.basename(os.path.realpath(full(cfg_name))))
        if os.path.realpath(full(n3)) != os.path.realpath(full(cfg_name)) or n3 == cfg_name:
            raise OSError("%r is not a second name of %r" % (n3, cfg_name))
        want = b"%d\n" % a.pid
        b.call(op="new", fname=n3)
        r = b.call(op="create")
        now = rd(cfg_name)
        if now != want:
            run.violation("respell-second-starter-replaced-live-owner", "%s: process %d (Pidfile %r) ran create() while process %d held the "
                          "same file as %r: file was %r, now %r (create %s)" % (what, b.pid, n3, a.pid, cfg_name, want, now,
                                                                                 "returned" if r["ok"] else "raised " + str(r.get("exc"))), case)
            return False
        if r["ok"]:
            run.violation("respell-second-starter-accepted", "%s: create() of process %d (Pidfile %r) returned although the file, held by "
                          "live process %d as %r, names that process" % (what, b.pid, n3, a.pid, cfg_name), case)
            return False
        run.count("respell_second_starter_refused")
        b.call(op="unlink")
        now = rd(cfg_name)
        if now != want:
            run.violation("respell-refused-starter-removed-live-owners-file", "%s: after its refused create() process %d (Pidfile %r) ran "
                          "unlink(): the file of live process %d (%r) was %r, now %r" % (what, b.pid, n3, a.pid, cfg_name, want, now), case)
            return False
        return True

    def holds(a, name, case, what, mech):
        now = rd(name)
        if now == b"%d\n" % a.pid:
            return True
        run.violation("%s-%s" % (mech, "lost-pidfile" if now is None else "wrong-content"),
                      "%s: process %d is running, its pid file %r %s" % (what, a.pid, name, "does not exist" if now is None else "holds %r" % now), case)
        return False

    cases = []
    for s1 in SPELL_START:
        for s2 in SPELL_ALL:
            if s1 != s2:
                cases.append(("reload", s1, s2))
                cases.append(("objects", s1, s2))
                cases.append(("start", s1, s2))
    if only is not None:
        cases = [tuple(only)]
    for fam, s1, s2 in cases:
        case = {"part": "S", "case": [fam, s1, s2]}
        try:
            a, b = fresh()
            n1, n2 = spell(base, s1), spell(base, s2)
            if s2 == "filelink":
                os.symlink("master.pid", full(n2))
            what = "%s %s -> %s" % (fam, n1, n2)
            run.case(("S", fam, s1, s2))
            if fam == "reload":
                r = a.call(op="arbiter_boot", fname=n1)
                if not r["ok"] or rd(n1) != b"%d\n" % a.pid:
                    run.inconclusive_because("part S: the reload harness could not be set up in this tree (%s %s): %r, file %r" % (
                        s1, s2, {k: r.get(k) for k in ("exc", "msg")}, rd(n1)))
                    return
                r = a.call(op="arbiter_reload", fname=n2)
                if not r["ok"]:
                    if r.get("exc") == "RuntimeError":
                        # the master would give up (create() refused): not what is judged here
                        run.info["respell_reload_raised"] = run.info.get("respell_reload_raised", 0) + 1
                        continue
                    run.inconclusive_because("part S: Arbiter.reload() could not be driven in this tree (%s %s): %s %s" % (
                        s1, s2, r.get("exc"), r.get("msg")))
                    return
                if r.get("arbiter_fname") != n2:
                    run.inconclusive_because("part S: after reload() the arbiter's Pidfile is %r, configured %r" % (r.get("arbiter_fname"), n2))
                    return
                run.count("respell_reload_cases")
                if not holds(a, n2, case, what + " (Arbiter.reload() after the `pidfile` setting was re-spelled)", "respell-reload"):
                    continue
                run.count("respell_reload_kept_pidfile")
                if not second_starter(b, a, n2, third(s2, s1), case, what):
                    continue
                a.call(op="arbiter_halt")
                if rd(n2) is not None:
                    run.violation("respell-halt-left-own-file", "%s: the arbiter's pid file %r holds %r after halt" % (what, n2, rd(n2)), case)
                else:
                    run.count("respell_halt_removed_pidfile")
            elif fam == "objects":
                for order in ("unlink-create", "create-unlink"):
                    a, b = fresh()
                    if s2 == "filelink":
                        os.symlink("master.pid", full(n2))
                    a.call(op="new", fname=n1, obj="old")
                    r = a.call(op="create", obj="old")
                    if not r["ok"] or rd(n1) != b"%d\n" % a.pid:
                        run.inconclusive_because("part S: create() on a fresh path %r failed: %r" % (n1, r))
                        return
                    a.call(op="new", fname=n2, obj="new")
                    if order == "unlink-create":
                        a.call(op="unlink", obj="old")
                        r = a.call(op="create", obj="new")
                        if not r["ok"]:
                            run.violation("respell-create-refused-after-own-unlink", "%s: old.unlink() then create() under the new name raised "
                                          "%s: %s" % (what, r.get("exc"), r.get("msg")), dict(case, order=order))
                            break
                        run.count("respell_two_object_cases")
                        if not holds(a, n2, dict(case, order=order), what + " (old.unlink(); Pidfile(new).create())", "respell-objects"):
                            break
                        if not second_starter(b, a, n2, third(s2, s1), dict(case, order=order), what):
                            break
                        a.call(op="unlink", obj="new")
                        if rd(n2) is not None:
                            run.violation("respell-unlink-left-own-file", "%s: %r holds %r after unlink() by its owner" % (what, n2, rd(n2)),
                                          dict(case, order=order))
                            break
                    else:
                        r = a.call(op="create", obj="new")
                        a.call(op="unlink", obj="old")
                        k = "respell_create_then_unlink_%s" % ("create_raised" if not r["ok"] else
                                                               "kept_file" if rd(n2) == b"%d\n" % a.pid else "left_no_file")
                        run.info[k] = run.info.get(k, 0) + 1
            else:
                a.call(op="new", fname=n1)
                r = a.call(op="create")
                if not r["ok"] or rd(n1) != b"%d\n" % a.pid:
                    run.inconclusive_because("part S: create() on a fresh path %r failed: %r" % (n1, r))
                    return
                if not second_starter(b, a, n1, n2, case, what):
                    continue
                run.count("respell_start_refused_other_spelling")
                # owner death: now the file is stale and B, under its spelling, takes it over
                dead = a.pid
                a.kill()
                lab.bury(dead)
                ctx.slot.pop("A", None)
                if a in lab.helpers:
                    lab.helpers.remove(a)
                if not e6.pid_is_dead(dead):
                    run.info["respell_pid_reused"] = run.info.get("respell_pid_reused", 0) + 1
                    continue
                r = b.call(op="create")
                nb = r.get("fname")
                if not e6.pid_is_dead(dead):
                    run.info["respell_pid_reused"] = run.info.get("respell_pid_reused", 0) + 1
                    continue
                if not r["ok"]:
                    run.violation("respell-create-refused-takeover/stale", "%s: the owner (pid %d) is dead; create() of process %d (Pidfile %r) "
                                  "raised %s: %s" % (what, dead, b.pid, nb, r.get("exc"), r.get("msg")), case)
                    continue
                if not holds(b, nb, case, what + " (take-over of the dead owner's file)", "respell-takeover"):
                    continue
                run.count("respell_took_over_stale_other_spelling")
                b.call(op="unlink")
        except (e6.HelperTimeout, e6.HelperDied, OSError) as ex:
            run.inconclusive_because("part S %s %s %s: %r" % (fam, s1, s2, ex))
            return
        if run.enough(6):
            return


# ---- part K: crash at every call ---------------------------------------------------------------

CRASH_SCENARIOS = (
    [{"op": "create", "pre": pre, "relative": False} for pre in ("absent", "stale", "own", "live", "garbage", "empty")] +
    [{"op": "create", "pre": pre, "relative": True} for pre in ("absent", "stale")] +
    [{"op": "rename", "pre": pre, "relative": False} for pre in ("absent", "stale", "live", "garbage", "own")] +
    [{"op": "rename", "pre": "absent", "relative": True}] +
    [{"op": "unlink", "pre": pre, "relative": False} for pre in ("own", "live", "absent")] +
    # restricted deployment: the pid directory belongs to root (0755), the process runs as nobody and can only write the
    # pre-created pid file itself (the old name of a rename lives in a writable directory)
    [{"op": "create", "pre": pre, "relative": False, "deploy": "restricted"}
     for pre in ("stale", "garbage", "empty", "own", "live", "absent")] +
    [{"op": "rename", "pre": pre, "relative": False, "deploy": "restricted"} for pre in ("stale", "live")]
)


def crash_case(run, e6, base, scn, k, mode, expect_call=None, count=True):
    """One forked execution; judged. Returns (result dict, [(mech, text)])."""
    wd = os.path.join(base, "k")
    shutil.rmtree(wd, ignore_errors=True)
    os.mkdir(wd)
    s = dict(scn)
    s["live_pid"] = os.getpid()
    dead = None
    if scn["pre"] == "stale":
        for _ in range(20):
            pid = os.fork()
            if pid == 0:
                os._exit(0)
            os.waitpid(pid, 0)
            if e6.pid_is_dead(pid):
                dead = pid
                break
        s["dead_pid"] = dead
    r = e6.crash_run(s, k, mode, wd)
    me = r["pid"]
    new = b"%d\n" % me
    pre = e6.prestate_bytes(scn["pre"], me, s)

    def rd(n):
        try:
            with open(os.path.join(wd, n), "rb") as f:
                return f.read()
        except FileNotFoundError:
            return None
    restricted = scn.get("deploy") == "restricted"
    T, O = rd("T"), rd("ow/O" if restricted else "O")
    left = [n for n in os.listdir(wd) if n not in ("T", "O", "ow")]
    if restricted and os.path.isdir(os.path.join(wd, "ow")):
        left += [n for n in os.listdir(os.path.join(wd, "ow")) if n != "O"]
    if left and count:
        run.count("info_leftover_tempfiles", len(left))
    viol = []
    call = expect_call or "none"
    where = "%s(pre=%s%s%s) crash %s call #%d %s: target %r -> %r (new would be %r), old name %r, exit %s" % (
        scn["op"], scn["pre"], ",relative" if scn.get("relative") else "",
        ",directory not writable by the process" if restricted else "", mode, k, call, pre, T, new, O, r["exit"])
    if mode is None:
        # the uncrashed run: final result
        ok = True
        if r["exit"] == 3 or r["calls"] is None:
            return r, [("!inconclusive", "counting run failed: %s" % (r["error"] or where))]
        if restricted and r["exit"] == 5:
            # no permission to create anything next to the target: refusing is accepted, the target must be untouched
            if count:
                run.count("crash_restricted_refused_eperm")
            ok = T == pre and (scn["op"] != "rename" or O in (None, new))
        elif scn["op"] == "create":
            ok = (T == pre and r["exit"] == 4) if scn["pre"] == "live" else (T == new and r["exit"] == 0)
        elif scn["op"] == "rename":
            ok = (T == pre and O in (None, new)) if scn["pre"] == "live" else (T == new and O is None and r["exit"] == 0)
        else:
            ok = (T is None) if scn["pre"] == "own" else (T == pre)
        if not ok:
            viol.append(("uncrashed-%s-wrong-result/%s" % (scn["op"], scn["pre"]), where))
        return r, viol
    if r["exit"] != e6.CRASH_EXIT:
        return r, [("!inconclusive", "crash point not reached (exit %s, %s): %s" % (r["exit"], r["error"], where))]
    allowed = {pre, new} if scn["op"] != "unlink" else {pre}
    if scn["pre"] != "live" and (scn["op"] != "unlink" or scn["pre"] == "own"):
        allowed.add(None)
    if T not in allowed:
        if scn["pre"] == "live":
            mech = "crash-removed-foreign-file/" if T is None else "crash-overwrote-live-owner/"
        elif T is not None and PIDLIKE.match(T):
            mech = "wrong-content-after-crash/"
        else:
            mech = "partial-content-after-crash/"
        viol.append((mech + call, where))
    if scn["op"] == "rename" and O not in (None, new):
        viol.append(("partial-content-after-crash-at-old-name/" + call, where))
    if count:
        run.count("crash_outcome_" + ("absent" if T is None else "previous" if T == pre else "new" if T == new else "other"))
        if restricted:
            run.count("crash_restricted_points")
    if not viol:
        viol += crash_followup(run, e6, wd, scn, T, me, call, where, count)
    return r, viol


FOLLOW_TIMEOUT = 3.0


def followup_create(e6, wd, relative, uid, timeout=None):
    """Another instance (a fresh process, nothing injected) runs the real Pidfile(T).create(own pid) in the directory the
    crashed one left behind.  -> dict(pid, outcome: returned | raised | blocked, exc, msg, seconds)"""
    import select
    rfd, wfd = os.pipe()
    t0 = time.monotonic()
    pid = os.fork()
    if pid == 0:
        out = {"outcome": "returned"}
        try:
            os.close(rfd)
            e6._pdeathsig()
            os.chdir(wd)
            if uid:
                os.setgroups([])
                os.setgid(uid)
                os.setuid(uid)
            try:
                e6.gp.Pidfile("T" if relative else os.path.join(wd, "T")).create(os.getpid())
            except BaseException as ex:       # noqa: BLE001
                out = {"outcome": "raised", "exc": type(ex).__name__, "msg": str(ex)[:200]}
            os.write(wfd, json.dumps(out).encode())
        finally:
            os._exit(0)
    os.close(wfd)
    res = {"pid": pid, "outcome": "blocked", "exc": None, "msg": None}
    ready, _, _ = select.select([rfd], [], [], FOLLOW_TIMEOUT if timeout is None else timeout)
    if ready:
        data = os.read(rfd, 65536)
        try:
            res.update(json.loads(data))
        except ValueError:
            res.update({"outcome": "raised", "exc": "HelperDied", "msg": "no report from the follower (%r)" % data[:60]})
    else:
        try:
            os.kill(pid, 9)
        except ProcessLookupError:
            pass
    os.close(rfd)
    os.waitpid(pid, 0)
    res["seconds"] = round(time.monotonic() - t0, 2)
    return res


def crash_followup(run, e6, wd, scn, T, crashed, call, where, count=True):
    """`whatever instant the process dies`, the state it leaves is one the NEXT instance copes with: a later create() on the
    same path by another process must take the file over (it is absent, or names the dead process, or holds what was there
    before) - and must still refuse when the file names a process that is alive.  An operation that has not returned after
    FOLLOW_TIMEOUT seconds is reported as blocked (the unchanged create() makes about ten system calls)."""
    restricted = scn.get("deploy") == "restricted"
    live_pid = os.getpid()
    names_live = T == b"%d\n" % live_pid
    f = followup_create(e6, wd, scn.get("relative"), e6.RESTRICTED_UID if restricted else 0)
    try:
        with open(os.path.join(wd, "T"), "rb") as fh:
            T2 = fh.read()
    except FileNotFoundError:
        T2 = None
    mine = b"%d\n" % f["pid"]
    what = "%s; then another instance (pid %d) ran create() on the same path: %s%s after %.2f s, file now %r; directory: %s" % (
        where, f["pid"], f["outcome"], " %s: %s" % (f["exc"], f["msg"]) if f["exc"] else "", f["seconds"], T2,
        sorted(os.listdir(wd)))
    if names_live:
        if T2 != T:
            return [("create-overwrote-live-owner/after-crash-at-" + call, what)]
        if f["outcome"] == "returned":
            return [("create-accepted-live-owner/after-crash-at-" + call, what)]
        if f["outcome"] == "blocked":
            return [("refusal-blocked-after-crash/" + call, what)]
        if count:
            run.count("crash_followup_refused_live_owner")
        return []
    if f["outcome"] == "raised" and restricted and f["exc"] == "PermissionError" and T2 == T:
        if count:
            run.count("crash_followup_restricted_refused_eperm")
        return []
    if f["outcome"] != "returned" or T2 != mine:
        holder = int(T) if T is not None and PIDLIKE.match(T) else None
        if not e6.pid_is_dead(crashed) or (holder is not None and not e6.pid_is_dead(holder)):
            # the number of the crashed (or of the long dead) process has been handed out again: the file names a live process after all
            run.info["transient_deviation"] = run.info.get("transient_deviation", 0) + 1
            return []
        if f["outcome"] == "blocked":
            return [("takeover-blocked-after-crash/" + call, what)]
        if f["outcome"] == "raised":
            return [("takeover-refused-after-crash/" + call, what)]
        return [("takeover-wrong-content-after-crash/" + call, what)]
    if count:
        run.count("crash_followup_takeovers")
        if T is not None:
            run.count("crash_followup_takeovers_of_stale_file")
    return []


def crash_modes(call):
    modes = ["before", "after"]
    if call in ("os.write", "file.write", "os.pwrite", "os.writev"):
        modes += ["short:1", "short:-1", "short:0"]
    return modes


def run_crash_scenario(run, e6, base, scn):
    r, viol = crash_case(run, e6, base, scn, 0, None)
    run.case(("K", scn["op"], scn["pre"], scn.get("relative"), scn.get("deploy"), 0, None))
    run.count("crash_counting_runs")
    for mech, text in viol:
        if mech == "!inconclusive":
            run.inconclusive_because(text)
            return
        run.violation(mech, text, {"part": "K", "scn": scn, "k": 0, "mode": None})
    calls = r["calls"]
    run.info["crash_calls/%s/%s%s%s" % (scn["op"], scn["pre"], "/relative" if scn.get("relative") else "",
                                        "/restricted" if scn.get("deploy") else "")] = \
        " ".join(calls)
    for k, call in enumerate(calls, 1):
        for mode in crash_modes(call):
            if run.enough(6):
                return          # (a tree on which every later start waits for a lock: the verdict is clear, do not queue up)
            r2, viol = crash_case(run, e6, base, scn, k, mode, expect_call=call)
            run.case(("K", scn["op"], scn["pre"], scn.get("relative"), scn.get("deploy"), k, mode, call))
            run.count("crash_points_enumerated")
            run.count("crash_at_" + call)
            if mode.startswith("short"):
                run.count("short_write_crashes")
            case = {"part": "K", "scn": scn, "k": k, "mode": mode, "call": call}
            for mech, text in viol:
                if mech == "!inconclusive":
                    run.inconclusive_because(text)
                else:
                    run.violation(mech, text, case)
            if scn["op"] == "create" and scn["pre"] == "absent" and not scn["relative"] and call == "os.write":
                run.sample({"part": "K", "scenario": scn, "call_index": k, "call": call, "mode": mode,
                            "all_calls": calls}, cap=2)


# ---- part R: two or three instances interleaved at system-call granularity ----------------------

def _rs(name, ops, pre=None, own=None, fname=None, n=2):
    return {"name": name, "n": n, "ops": ops, "pre": pre or {}, "own": own or {}, "fname": fname or {}}


RACE_SCENARIOS = (
    # two starters on one path
    [_rs("create|create/" + pre, {"A": "create", "B": "create"}, {"P": pre})
     for pre in ("absent", "stale", "garbage", "empty", "third")] +
    # a starter and a reader / a stopping instance / an instance moving its file away or onto the path
    [_rs("create|validate/" + pre, {"A": "create", "B": "validate"}, {"P": pre}) for pre in ("absent", "stale")] +
    [_rs("create|unlink/owner", {"A": "create", "B": "unlink"}, own={"B": "P"}),
     _rs("create|unlink/stale", {"A": "create", "B": "unlink"}, {"P": "stale"}),
     _rs("create|rename-away/owner", {"A": "create", "B": "rename:Q"}, own={"B": "P"}),
     _rs("create|rename-onto/absent", {"A": "create", "B": "rename:P"}, own={"B": "Q"}, fname={"B": "Q"}),
     _rs("create|rename-onto/stale", {"A": "create", "B": "rename:P"}, {"P": "stale"}, own={"B": "Q"}, fname={"B": "Q"}),
     _rs("rename|rename/swap", {"A": "rename:Q", "B": "rename:P"}, own={"A": "P", "B": "Q"}, fname={"B": "Q"}),
     _rs("unlink|validate/owner", {"A": "unlink", "B": "validate"}, own={"A": "P"}),
     _rs("create|create|create/absent", {"A": "create", "B": "create", "C": "create"}, n=3),
     _rs("create|create|create/stale", {"A": "create", "B": "create", "C": "create"}, {"P": "stale"}, n=3)]
)


# scenarios whose schedules are ALL run (no preemption bound)
RACE_EXHAUSTIVE = {
    "quick": ("create|create/absent", "create|create/third", "create|validate/absent", "create|unlink/owner",
              "unlink|validate/owner"),
    "thorough": ("create|create/absent", "create|create/third", "create|create/garbage", "create|create/empty",
                 "create|validate/absent", "create|validate/stale", "create|unlink/owner", "create|unlink/stale",
                 "unlink|validate/owner", "create|rename-away/owner"),
}


def race_op(scn, X):
    """(kind, path the operation may remove, path it may write the caller's pid to)"""
    spec = scn["ops"][X]
    f = scn["fname"].get(X, "P")
    if spec.startswith("rename:"):
        return "rename", f, spec[7:]
    if spec == "create":
        return "create", None, f
    if spec == "unlink":
        return "unlink", f, None
    return "validate", None, None


SPIN_LIMIT = 12


class PrefixChooser:
    """Follows a recorded schedule, then keeps running the current instance (never preempts on its own)."""

    def __init__(self, prefix):
        self.prefix = list(prefix)

    def __call__(self, i, options):
        if i < len(self.prefix):
            return self.prefix[i]
        return options[0]


class RandomChooser:
    def __init__(self, rng, p_switch):
        self.rng = rng
        self.p = p_switch

    def __call__(self, i, options):
        if len(options) > 1 and self.rng.random() < self.p:
            return self.rng.choice(options[1:])
        return options[0]


def exec_race(ctx, scn, chooser):
    """Run the operations of scn concurrently under one schedule.  chooser(step index, options) -> instance; options
    lists the instances that still have calls to make, the one that moved last first.
    Returns dict(viol, trace, steps=[(options, chosen, current still runnable)], abort, reach, info)."""
    lab, e6 = ctx.lab, ctx.e6
    res = {"viol": [], "reach": {}, "info": {}, "trace": [], "steps": [], "abort": None}

    def cnt(k, n=1, where="reach"):
        res[where][k] = res[where].get(k, 0) + n

    insts = SLOTS[:scn["n"]]
    cfg = {"n": scn["n"], "layout": "contend", "uids": [0] * scn["n"], "order": None}
    try:
        for X in list(ctx.slot):
            if X not in insts:
                lab.retire(ctx.slot.pop(X))
        for X in insts:
            ctx.ensure(X, 0)
        lab.clean()
        me = {X: "pid:" + X for X in insts}
        tok2b = {"garbage": GARBAGE, "empty": b"", "third": b"%d\n" % os.getpid()}
        for X in insts:
            tok2b[me[X]] = b"%d\n" % ctx.slot[X].pid
        dead = None
        if "stale" in scn["pre"].values():
            taken = [int(b) for b in tok2b.values() if b[:1].isdigit()]
            dead = getattr(ctx, "dead_pid", None)       # one dead pid serves many schedules (checked each time)
            if dead is None:
                # a number above kernel.pid_max names no process and never will (a reaped child's pid can come back
                # within seconds on a busy machine, which changes the course of a schedule half-way through)
                try:
                    with open("/proc/sys/kernel/pid_max") as f:
                        beyond = int(f.read()) + 4321
                    if beyond < 2 ** 22 and e6.pid_is_dead(beyond):
                        dead = ctx.dead_pid = beyond
                except (OSError, ValueError):
                    pass
            if dead is None or dead in taken or not e6.pid_is_dead(dead):
                dead = ctx.dead_pid = lab.fresh_dead_pid(exclude=taken)
            tok2b["stale"] = b"%d\n" % dead
        b2tok = {}
        for t, b in tok2b.items():
            if b in b2tok:
                raise PidReuse("%r stands for both %s and %s" % (b, b2tok[b], t))
            b2tok[b] = t
        live = set(me.values()) | {"third"}
        for p, kind in scn["pre"].items():
            if kind != "absent":
                lab.write(FNAME[p], tok2b[kind])
        for X in insts:
            ctx.slot[X].call(op="new", fname=lab.path(FNAME[scn["fname"].get(X, "P")]))
        for X, p in scn["own"].items():
            rep = ctx.slot[X].call(op="create")
            if not rep["ok"] or lab.read(FNAME[p]) != tok2b[me[X]]:
                res["abort"] = "could not establish %s as the owner of %s: %s" % (X, FNAME[p], rep)
                return res

        def observe():
            out = {}
            for p in PATHS:
                d = lab.read(FNAME[p])
                out[p] = None if d is None else b2tok.get(d, "raw:" + d[:64].hex())
            return out

        def show(tok):
            if tok is None:
                return "absent"
            if tok.startswith("raw:"):
                return "%r" % bytes.fromhex(tok[4:])
            return "%s=%r" % (tok, tok2b.get(tok))

        def bad(mech, text):
            res["viol"].append((mech, "%s: %s" % (scn["name"], text)))

        ops = {X: race_op(scn, X) for X in insts}
        files = observe()
        initial = dict(files)
        window = {X: {p: [files[p]] for p in PATHS} for X in insts}     # what each path showed while X's operation ran
        parked, result, made = {}, {}, {X: 0 for X in insts}
        for X in insts:
            kind, _, dst = ops[X]
            cmd = {"op": kind, "gated": True}
            if kind == "rename":
                cmd["path"] = lab.path(FNAME[dst])
            ev = ctx.slot[X].call(**cmd)
            if "at" in ev:
                parked[X] = ev
            else:
                result[X] = ev
        current = None
        overlap = False
        spin = {}
        i = 0
        while parked:
            options = ([current] if current in parked else []) + sorted(x for x in parked if x != current)
            Y = chooser(i, options)
            if Y not in options:
                res["abort"] = "schedule names %s at step %d but only %s can move (execution not deterministic?)" % (
                    Y, i, options)
                break
            res["steps"].append((options, Y, current in parked))
            if current in parked and Y != current:
                cnt("race_preemptions")
                cnt("race_preempted_before_" + parked[current]["at"], where="info")
            call = parked[Y]
            ev = ctx.slot[Y].call(go=True)
            made[Y] += 1
            # an operation that makes the very same call over and over is waiting for somebody else (a lock, a retry loop);
            # a schedule that keeps it running never ends: given up, not judged
            same = "at" in ev and (ev["at"], ev.get("args")) == (call["at"], call.get("args"))
            spin[Y] = spin.get(Y, 0) + 1 if same else 0
            if spin[Y] >= SPIN_LIMIT:
                parked[Y] = ev
                res["abort"] = "operation waits instead of finishing: %s.%s repeated %s(%s) %d times in a row" % (
                    Y, ops[Y][0], call["at"], call.get("args"), spin[Y] + 1)
                break
            if "at" in ev:
                parked[Y] = ev
            else:
                del parked[Y]
                result[Y] = ev
            if len([x for x in insts if made[x] and x in parked]) >= 2:
                overlap = True
            after = observe()
            cnt("race_steps_observed")
            res["trace"].append({"step": i, "inst": Y, "call": call["at"], "args": call.get("args"),
                                 "files": {p: show(after[p]) for p in PATHS if after[p] != files[p]} or None,
                                 "done": (result[Y].get("exc") or "returned") if Y in result else None})
            # ---- what one call of Y may do to the paths
            kind, src, dst = ops[Y]
            for p in PATHS:
                b, a = files[p], after[p]
                if a == b:
                    continue
                desc = "step %d, %s.%s %s(%s): %s was %s, now %s" % (i, Y, kind, call["at"], call.get("args"), FNAME[p],
                                                                       show(b), show(a))
                b_live_other = b in live and b != me[Y]
                if a is None:
                    if b == me[Y]:
                        pass
                    elif b_live_other:
                        bad("race-removed-foreign-file", desc)
                    elif p == dst:
                        cnt("race_takeover_removed_first", where="info")
                    else:
                        bad("race-removed-foreign-file", desc)
                elif a == me[Y]:
                    if p != dst:
                        bad("race-wrote-unrelated-path", desc)
                    elif b_live_other and all(t in live and t != me[Y] for t in window[Y][p]):
                        bad("race-create-overwrote-live-owner",
                            desc + " (the path named another live process at every instant of this operation)")
                    elif b_live_other:
                        cnt("race_later_rename_won", where="info")
                else:
                    if a.startswith("pid:") or a in ("stale", "third"):
                        bad("race-published-foreign-pid", desc + " (the caller's pid is %s)" % show(me[Y]))
                    else:
                        bad("race-incomplete-content-visible", desc)
            files = after
            for X in parked:
                for p in PATHS:
                    window[X][p].append(files[p])
            if Y in result:
                for p in PATHS:
                    window[Y][p].append(files[p])
            current = Y
            i += 1
            if res["viol"]:
                break
        # release whoever is still parked (after a violation / an abort)
        for X in list(parked):
            try:
                ev = ctx.slot[X].call(go=False)
                while "at" in ev:
                    ev = ctx.slot[X].call(go=False)
            except (e6.HelperTimeout, e6.HelperDied):
                ctx.respawn(X, 0)
        if res["viol"] or res["abort"]:
            if dead is not None and not e6.pid_is_dead(dead):
                raise PidReuse("the stale pid %d answers kill(0) again" % dead)
            return res

        # ---- the end: who believes to hold what, and what the files say
        believers = {p: [] for p in PATHS}
        for X in insts:
            kind, src, dst = ops[X]
            ok = result[X]["ok"]
            f0 = scn["own"].get(X)
            holds = f0
            if kind == "create":
                holds = dst if ok else f0
            elif kind == "unlink":
                holds = None
            elif kind == "rename":
                holds = dst if ok else None
            if holds:
                believers[holds].append(X)
            if kind in ("create", "rename"):
                seen = window[X][dst]
                only_live_others = all(t in live and t != me[X] for t in seen)
                never_live_other = not any(t in live and t != me[X] for t in seen)
                what = "%s.%s on %s %s; the path showed %s while it ran" % (
                    X, kind, FNAME[dst], "returned" if ok else "raised %s: %s" % (result[X].get("exc"), result[X].get("msg")),
                    " -> ".join(show(t) for t in _dedup(seen)))
                rivals = [Z for Z in insts if Z != X and ops[Z][2] == dst]
                if ok and only_live_others:
                    bad("race-create-accepted-live-owner", what)
                elif not ok and never_live_other and not rivals:
                    # (with a rival starter on the same path the loser may fail in whatever way it likes)
                    bad("race-create-refused-takeover", what)
                cnt("race_%s_%s" % (kind, "returned" if ok else "refused"))
                if not ok:
                    cnt("race_exc_" + str(result[X].get("exc")), where="info")
        summary = "; ".join("%s.%s %s" % (X, ops[X][0], "returned" if result[X]["ok"] else "raised " + str(result[X].get("exc")))
                            for X in insts)
        for p in PATHS:
            c = files[p]
            owner = [X for X in insts if me[X] == c]
            if owner and owner[0] not in believers[p]:
                bad("race-file-names-non-owner", "at the end %s holds %s, but %s does not hold that file (%s; holders: %s)" % (
                    FNAME[p], show(c), owner[0], summary, believers[p] or "none"))
            elif believers[p] and not owner:
                bad("race-owner-left-unnamed", "at the end %s hold(s) %s but the file is %s (%s)" % (
                    believers[p], FNAME[p], show(c), summary))
            elif c is not None and not owner and c != initial[p]:
                bad("race-incomplete-content-visible", "at the end %s holds %s (%s)" % (FNAME[p], show(c), summary))
            if len(believers[p]) > 1:
                cnt("race_two_instances_returned_from_create_on_one_path", where="info")
            if owner and initial[p] == "stale":
                cnt("race_took_over_stale")
        if overlap:
            cnt("race_schedules_with_overlap")
        if dead is not None and not e6.pid_is_dead(dead):
            raise PidReuse("the stale pid %d answers kill(0) again" % dead)
        left = [n for n in lab.listing() if n not in FNAME.values()]
        if left:
            cnt("info_leftover_tempfiles", len(left))
        if res["viol"] and dead is not None and not e6.pid_is_dead(dead):
            raise PidReuse("the stale pid %d answers kill(0) again" % dead)
    except PidReuse as ex:
        res["abort"] = "pid-reuse: %s" % ex
    except (e6.HelperTimeout, e6.HelperDied, OSError) as ex:
        res["abort"] = "helper: %r" % (ex,)
        for X in list(ctx.slot):
            lab.retire(ctx.slot.pop(X))
    return res


def _dedup(seq):
    out = []
    for t in seq:
        if not out or out[-1] != t:
            out.append(t)
    return out


def run_race(ctx, run, scn, chooser, how):
    """exec_race + confirmation of deviations (the schedule that was actually taken is re-executed twice)."""
    res = None
    for _ in range(4):
        res = exec_race(ctx, scn, chooser)
        if res["abort"] and res["abort"].startswith("pid-reuse"):
            run.info["pid_reuse_retries"] = run.info.get("pid_reuse_retries", 0) + 1
            continue
        if res["abort"] and "not deterministic" in res["abort"]:
            # (a pid the scenario holds dead or alive changed sides for a moment?) - only a lasting difference counts
            run.info["race_schedule_diverged_retries"] = run.info.get("race_schedule_diverged_retries", 0) + 1
            continue
        break
    sched = [y for _, y, _ in res["steps"]]
    if res["abort"]:
        run.inconclusive_because("race %s schedule %s: %s" % (scn["name"], "".join(sched), res["abort"]))
        return res
    run.case(("R", scn["name"], "".join(sched)))
    run.count("race_schedules_run")
    run.count("race_schedules_" + how)
    for k, v in res["reach"].items():
        run.count(k, v)
    for k, v in res["info"].items():
        run.info[k] = run.info.get(k, 0) + v
    if not res["viol"]:
        return res
    mechs = sorted(m for m, _ in res["viol"])
    same = 0
    for _ in range(2):
        r2 = exec_race(ctx, scn, PrefixChooser(sched))
        if not r2["abort"] and sorted(m for m, _ in r2["viol"]) == mechs:
            same += 1
    if same == 0:
        run.info["transient_deviation"] = run.info.get("transient_deviation", 0) + 1
        return res
    if same == 1:
        run.inconclusive_because("deviation %s in race %s schedule %s reproduced only once in two re-runs" % (
            mechs, scn["name"], "".join(sched)))
        return res
    case = {"part": "R", "scn": scn, "schedule": sched}
    for mech, text in res["viol"]:
        run.violation(mech, "%s | schedule=%s trace=%s" % (text, "".join(sched), json.dumps(res["trace"][-6:])), case)
    return res


def explore_races(ctx, run, scn, bound, limit, rng, samples):
    """Every schedule with at most `bound` preemptions (depth-first, re-executing from the start), then `samples`
    seeded random schedules."""
    prefix = []
    n = 0
    complete = True
    while True:
        res = run_race(ctx, run, scn, PrefixChooser(prefix), "enumerated")
        n += 1
        if res["abort"] or run.enough(12):
            complete = False
            break
        steps = res["steps"]
        if res["viol"]:
            # the execution stopped at the violating step: schedules below it cannot be enumerated
            complete = False
        used = []
        k = 0
        for options, y, cur_runnable in steps:
            used.append(k)
            if cur_runnable and y != options[0]:
                k += 1
        nxt = None
        for j in range(len(steps) - 1, -1, -1):
            options, y, cur_runnable = steps[j]
            at = options.index(y)
            if at + 1 < len(options) and (not cur_runnable or used[j] + 1 <= bound):
                nxt = [s[1] for s in steps[:j]] + [options[at + 1]]
                break
        if nxt is None:
            break
        if n >= limit:
            complete = False
            run.info["race_enumeration_cut/" + scn["name"]] = n
            break
        prefix = nxt
    if complete:
        run.count("race_scenarios_enumerated_to_bound")
    run.info["race_schedules/%s/bound%d" % (scn["name"], bound)] = n
    for j in range(samples):
        if run.enough(12):
            break
        res = run_race(ctx, run, scn, RandomChooser(rng, rng.choice([0.15, 0.35, 0.5, 0.8])), "sampled")
        if res["abort"]:
            break


# ---- shards, main, replay ----------------------------------------------------------------------

def cfg_name(cfg):
    return "%d/%s/%s/%s" % (cfg["n"], cfg["layout"], ",".join(map(str, cfg["uids"])), cfg.get("order"))


def shard(sh):
    tier = sh.get("tier", "quick")
    run = Run(PROP, tier, sh["seed"], LEVEL, RULE)
    if sh["kind"] == "live":
        from checks import c17_live
        c17_live.shard(run, sh)
        return run
    ctx = Ctx()
    try:
        if sh["kind"] == "R":
            for idx in sh["scenarios"]:
                scn = RACE_SCENARIOS[idx]
                rng = rng_for(sh["seed"], "c17-race", scn["name"])
                bound = sh["bound3"] if scn["n"] == 3 else sh["bound"]
                if "rename-onto" in scn["name"] or "swap" in scn["name"]:
                    bound = min(bound, sh.get("bound_long", bound))      # 20+ calls per schedule
                if scn["name"] in RACE_EXHAUSTIVE[tier]:
                    bound = 99
                    run.count("race_scenarios_enumerated_exhaustively")
                explore_races(ctx, run, scn, bound, sh["limit"], rng, sh["samples"])
                run.count("race_scenarios")
                if idx == 0:
                    res = exec_race(ctx, scn, RandomChooser(rng_for(sh["seed"], "c17-race-sample"), 0.5))
                    run.sample({"part": "R", "scenario": scn["name"], "schedule": "".join(y for _, y, _ in res["steps"]),
                                "trace": res["trace"]}, cap=1)
            run.info["helper_forks"] = ctx.lab.forks
        elif sh["kind"] == "H":
            cfg = sh["cfg"]
            t0 = time.time()
            n = 0
            show = sh["sub"] == 0 and cfg.get("order") != "rev" and set(cfg["uids"]) == {0} and cfg["layout"] == "contend"
            for ops in enum_histories(cfg, sh["l_full"], sh["l_max"], sh["sub"], sh["of"]):
                run_history(ctx, run, cfg, ops)
                n += 1
                if n == 7 and show:
                    run.sample({"part": "H", "cfg": cfg, "history": ops}, cap=1)
                if run.enough():
                    break
                if time.time() - t0 > sh.get("budget", 1e9):
                    run.inconclusive_because("history shard %s ran out of its time budget after %d histories" % (
                        cfg_name(cfg), n))
                    break
            rng = rng_for(sh["seed"], "c17", cfg_name(cfg), sh["sub"])
            for ops in sample_histories(cfg, rng, sh.get("sample", 0)):
                run_history(ctx, run, cfg, ops)
                run.count("histories_sampled_long")
                if show:
                    run.sample({"part": "H", "cfg": cfg, "history": ops, "kind": "seeded sample"}, cap=2)
                if run.enough():
                    break
            run.info["helper_forks"] = ctx.lab.forks
        elif sh["kind"] == "S":
            run_spellings(run, ctx)
            run.info["helper_forks"] = ctx.lab.forks
        elif sh["kind"] == "M":
            for uid in sh["uids"]:
                run_matrix(run, ctx, uid)
            if os.geteuid() == 0:
                run_unreadable(run, ctx)
        else:
            for scn in CRASH_SCENARIOS[sh["sub"]::sh["of"]]:
                if run.enough(6):
                    break
                run_crash_scenario(run, ctx.e6, ctx.lab.dir, scn)
    finally:
        ctx.close()
    return run


def plan(tier, seed):
    q = tier == "quick"
    shards = []

    def H(cfg, l_full, l_max, of, sample):
        for i in range(of):
            shards.append({"kind": "H", "cfg": cfg, "l_full": l_full, "l_max": l_max, "sub": i, "of": of,
                           "sample": sample, "seed": seed, "tier": tier, "budget": 600 if q else 2400})

    def c(n=2, layout="contend", uids=None, order=None):
        return {"n": n, "layout": layout, "uids": uids or [0] * n, "order": order}
    if q:
        for order in ("fwd", "rev"):
            H(c(order=order), 3, 4, 4, 150)
        for uids in ([0, NOBODY], [NOBODY, 0], [NOBODY, WWW], [NOBODY, NOBODY]):
            H(c(uids=uids, order="fwd"), 3, 3, 2, 100)
        for order in ("fwd", "rev"):
            H(c(layout="usr2", order=order), 3, 3, 2, 100)
        H(c(n=3), 2, 3, 2, 150)
        H(c(n=3, uids=[NOBODY, 0, WWW]), 2, 2, 1, 150)
    else:
        for order in ("fwd", "rev"):
            H(c(order=order), 5, 5, 40, 300)            # ALL sequences up to length 5 (instances interchangeable)
        for uids in ([0, NOBODY], [NOBODY, 0]):
            H(c(uids=uids, order="fwd"), 4, 5, 16, 300)
        for uids in ([NOBODY, WWW], [NOBODY, NOBODY]):
            H(c(uids=uids, order="fwd"), 4, 4, 8, 300)
        for order in ("fwd", "rev"):
            H(c(layout="usr2", order=order), 4, 5, 16, 300)
        H(c(n=3), 3, 4, 16, 500)
        H(c(n=3, uids=[NOBODY, 0, WWW]), 3, 3, 8, 500)
    # races: heaviest scenarios first, one or two per shard
    nr = len(RACE_SCENARIOS)
    if q:
        # measured cost (calls per schedule x schedules within the bound): longest first into the emptiest of 6 shards
        cost = {"create|create|create/stale": 57, "create|rename-onto/stale": 45, "create|create|create/absent": 34,
                "rename|rename/swap": 29, "create|create/absent": 25, "create|create/garbage": 21, "create|rename-onto/absent": 20}
        groups = [[] for _ in range(6)]
        load = [0] * 6
        for i in sorted(range(nr), key=lambda i: -cost.get(RACE_SCENARIOS[i]["name"], 8)):
            j = load.index(min(load))
            groups[j].append(i)
            load[j] += cost.get(RACE_SCENARIOS[i]["name"], 8)
    else:
        groups = [[i] for i in range(nr)]
    for g in groups:
        shards.append({"kind": "R", "scenarios": g, "bound": 4 if q else 6, "bound3": 2 if q else 3, "bound_long": 3 if q else 5,
                       "limit": 6000 if q else 150000, "samples": 150 if q else 3000, "seed": seed, "tier": tier})
    shards.append({"kind": "M", "uids": [0, NOBODY], "seed": seed, "tier": tier})
    shards.append({"kind": "S", "seed": seed, "tier": tier})
    for i in range(4):
        shards.append({"kind": "K", "sub": i, "of": 4, "seed": seed, "tier": tier})
    return shards


def main(tier, seed):
    run = Run(PROP, tier, seed, LEVEL, RULE)
    run.require("histories_run", "create_fresh", "create_refused_live_owner", "create_refused_live_owner_higher_pid",
                "create_refused_live_owner_lower_pid", "create_refused_live_owner_eperm", "create_took_over_stale",
                "create_took_over_garbage", "create_took_over_empty", "unlink_removed_own", "unlink_skipped_foreign",
                "unlink_skipped_live", "unlink_skipped_stale", "rename_done", "rename_took_over_stale",
                "rename_refused_live_instance", "owner_deaths", "foreign_overwrites", "matrix_cases",
                "matrix_refused_live", "matrix_cases_with_file_time_apart_from_now", "matrix_took_over", "crash_points_enumerated", "short_write_crashes",
                "crash_at_os.rename", "crash_at_os.write", "crash_outcome_previous", "crash_outcome_new",
                "crash_outcome_absent", "crash_restricted_points",
                "crash_followup_takeovers", "crash_followup_takeovers_of_stale_file", "crash_followup_refused_live_owner",
                "unreadable_pidfile_cells", "unreadable_live_refused",
                "race_schedules_run", "race_schedules_enumerated", "race_schedules_sampled", "race_steps_observed",
                "race_preemptions", "race_schedules_with_overlap", "race_scenarios_enumerated_to_bound",
                "race_create_returned", "race_create_refused", "race_rename_returned", "race_took_over_stale",
                # part S: one pid file, several spellings
                "respell_reload_cases", "respell_reload_kept_pidfile", "respell_halt_removed_pidfile", "respell_two_object_cases",
                "respell_second_starter_refused", "respell_start_refused_other_spelling", "respell_took_over_stale_other_spelling")
    run.assumptions = list(ASSUMPTIONS)
    if os.geteuid() != 0:
        run.inconclusive_because("not root: helpers cannot take different uids, the EPERM liveness answer is unreachable")
    from checks import c17_live
    live = c17_live.plan(run, tier, seed)
    # the live scenarios mostly wait on wall-clock time: start them first and fill the remaining cores with the rest
    common.run_sharded(run, live + plan(tier, seed), timeout=800 if tier == "quick" else 2800)
    return run.finish()


def replay(path):
    with open(path) as f:
        rec = json.load(f)
    c = rec["case"]
    run = Run(PROP, "quick", 0, LEVEL, RULE)
    ctx = Ctx()
    try:
        if c["part"] == "live":
            from checks import c17_live
            for mech, text in c17_live.replay_case(run, c):
                run.violation(mech, text, c)
        elif c["part"] == "R":
            res = exec_race(ctx, c["scn"], PrefixChooser(c["schedule"]))
            for t in res["trace"]:
                print("  " + json.dumps(t))
            if res["abort"]:
                print("aborted: " + res["abort"])
            for mech, text in res["viol"]:
                run.violation(mech, text, c)
        elif c["part"] == "H":
            res = exec_history(ctx, c["cfg"], c["ops"])
            for t in res["trace"]:
                print("  " + json.dumps(t))
            if res["abort"]:
                print("aborted: " + res["abort"])
            for mech, text in res["viol"]:
                run.violation(mech, text, c)
        elif c["part"] == "M":
            run_matrix(run, ctx, c["uid"], only=(c["content"], c["op"]))
        elif c["part"] == "U":
            run_unreadable(run, ctx, only=c["cell"])
        elif c["part"] == "S":
            run_spellings(run, ctx, only=c["case"])
        else:
            r, viol = crash_case(run, ctx.e6, ctx.lab.dir, c["scn"], c["k"], c["mode"], expect_call=c.get("call"))
            print("child exit %s calls=%s" % (r["exit"], r["calls"]))
            for mech, text in viol:
                run.violation(mech, text, c)
    finally:
        ctx.close()
    for mech, s, _ in run.violations:
        print("VIOLATION property=%s replay=%s\n  %s %s" % (PROP, path, mech, s))
    if not run.violations:
        print("no violation on replay")
    return 1 if run.violations else 0
