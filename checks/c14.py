"""C14 Binary upgrade (USR2) hands the listening sockets over without a gap.

Monitor (E4): real master started as `python -m gunicorn` with a pid file, on a TCP or unix-socket
bind, under client load; the harness walks through upgrade histories (USR2, TERM/QUIT of the old or
the new master, a second USR2 while one is pending, a second upgrade after promotion) and observes
client outcomes, the process tree, the pid files, the listening address and the socket file.
Further histories: H9-H11 an upgrade attempt that fails on the new side (pre_exec hook raises / the new release cannot load
the application / the directory the server was started from has been moved away), H12 the old master exits and the process
that started it does not collect it for a while (promotion is observed while the old master is still a zombie), H13 the old
master has a child of its own that is neither a worker nor the new master (started by a server hook) and that exits while the
upgrade is pending, then a second USR2 and TERM of the old master.
"""
import json
import os
import signal
import threading
import time

from vlib import common
from vlib.common import Run, rng_for

PROP = "C14"
RULE = ("scenario = (history in {H1 USR2+TERM old, H2 USR2+QUIT old, H3 USR2+TERM new, H4 USR2+QUIT new, H5 USR2+USR2+TERM old, "
        "H6 USR2+TERM old+USR2+TERM promoted, H7-H10, H11 USR2 with the start directory moved away, H12 USR2+TERM/QUIT old left "
        "uncollected, H13 USR2+exit of a non-worker child of the old master+USR2+TERM old}, bind in {tcp, unix}, worker class, signal "
        "timing); distinct = scenario tuple; every "
        "scenario is non-trivial (each has two masters alive under client load)")

HISTORIES = ["H1", "H2", "H3", "H4", "H5", "H6", "H8", "H7", "H9", "H10"]
LATER_HISTORIES = ["H11", "H12", "H13"]        # generated after the others, with their own generator

# H13: a when_ready hook of the first master starts a process of its own (it ends when the file "helper_go" appears)
HELPER_HOOK = ("_when_ready_orig = when_ready\n"
               "def when_ready(server):\n"
               "    _when_ready_orig(server)\n"
               "    if not _os.environ.get('GUNICORN_PID'):\n"
               "        import subprocess as _sp\n"
               "        _go = _os.path.join(_os.path.dirname(_os.path.abspath(__file__)), 'helper_go')\n"
               "        server._verif_helper = _sp.Popen(['sh', '-c', 'while [ ! -e \"$0\" ]; do sleep 0.05; done', _go])\n"
               "        _ev('helper', hpid=server._verif_helper.pid)\n")


def proc_state(e4, pid):
    """'Z' for an exited process nobody has waited for yet, None once it is gone altogether."""
    ent = e4.proc_table().get(pid)
    return ent[1] if ent else None


def read_pid(path):
    try:
        with open(path) as f:
            return int(f.read().strip())
    except (OSError, ValueError):
        return None


def client_loop(e4, srv, stop, log, idx):
    while not stop.is_set():
        r = e4.request(srv.addr, "/sleep/0.05" if idx % 2 else "/pid", timeout=10)
        r["client"] = idx
        log.append(r)
        if r["outcome"] in ("refused", "error"):
            time.sleep(0.01)
        time.sleep(0.005)


def find_new_master(e4, srv, old_master, known_workers, timeout=15.0):
    """The re-exec'd master: a live child of the old master that is not one of its workers and that has
    announced itself (when_ready event from that pid)."""
    t0 = time.monotonic()
    while time.monotonic() - t0 < timeout:
        ready = set(e["pid"] for e in srv.events() if e["kind"] == "when_ready")
        for p in srv.children_of(old_master):
            if p in ready and p not in known_workers:
                return p
        time.sleep(0.05)
    return None


def wait_until(pred, timeout, step=0.05):
    t0 = time.monotonic()
    while time.monotonic() - t0 < timeout:
        if pred():
            return True
        time.sleep(step)
    return pred()


def single_master_state(e4, srv, master, workers, pidfile, v, label):
    """State of a fresh single master: pid file names it, no .2, socket file present, `workers` live workers, serving."""
    if not wait_until(lambda: read_pid(pidfile) == master and not os.path.exists(pidfile + ".2"), 5.0):
        v.append(("pidfile-wrong-%s" % label, "%s: pid file holds %r (.2 exists: %s), the only master is %d" % (
            label, read_pid(pidfile), os.path.exists(pidfile + ".2"), master)))
    if srv.bind_kind == "unix" and not os.path.exists(srv.sockpath):
        v.append(("unix-socket-file-removed-under-survivor", "%s: socket file is gone while master %d still runs" % (label, master)))
    w = srv.wait_workers(workers, 10, master=master, booted=False)
    if not w:
        v.append(("survivor-pool-wrong-%s" % label, "%s: master %d has %s live workers, wanted %d" % (
            label, master, srv.worker_pids(master), workers)))
    r = e4.request(srv.addr, "/pid", timeout=5)
    if r["outcome"] != "ok":
        v.append(("survivor-not-serving", "%s: probe request -> %s %s" % (label, r["outcome"], r.get("err"))))
    return w


def final_stop(e4, srv, master, pidfile, v, run):
    """Stop the last master: nothing may be left behind (pid files, unix socket file, processes)."""
    # the last master must still manage its pool (clients are quiet now): a killed worker is reaped and replaced
    w = srv.worker_pids(master)
    workers = len(w)
    if w:
        victim = w[0]
        try:
            os.kill(victim, signal.SIGKILL)
        except OSError:
            pass
        ok = wait_until(lambda: victim not in srv.worker_pids(master) and len(srv.worker_pids(master)) == workers, 8.0)
        zomb = [p for p, (pp, st_, _) in e4.proc_table().items() if pp == master and st_ == "Z"]
        if not ok or zomb:
            v.append(("survivor-does-not-replace-dead-worker", "killed worker %d of master %d: live workers %s, zombies %s" % (
                victim, master, srv.worker_pids(master), zomb)))
        else:
            run.count("respawn_after_upgrade_checks")
    srv.signal(signal.SIGTERM, master)
    st = srv.wait_exit(master, 12)
    time.sleep(0.5)
    if st is None and e4.alive(master):
        v.append(("master-did-not-exit", "last master %d did not exit after TERM" % master))
        return
    left = [p for p in (pidfile, pidfile + ".2") if os.path.exists(p)]
    if left:
        v.append(("pidfile-left-behind-after-last-master", "%s still present" % left))
    if srv.bind_kind == "unix" and os.path.exists(srv.sockpath):
        v.append(("unix-socket-file-left-behind-after-last-master", "the socket file outlives the last master (it inherited the listener "
                  "through the upgrade)"))
    run.count("final_stop_checks")


def run_scenario(run, e4, sc):
    v = []
    info = {}
    hist = sc["history"]
    wc = sc["class"]
    nworkers = 2
    settings = {"graceful_timeout": 5, "timeout": 30}
    if wc == "gthread":
        settings["threads"] = 2
    app_source = None
    if hist == "H8":
        # the new master boots slowly (preloaded application that takes a while to import): the old master is told to
        # stop before the new one is ready - the first to exit must still leave the sockets usable by the other
        settings["preload_app"] = True
        app_source = e4.APP_SOURCE.replace("import os, sys, time, signal, json\n",
                                           "import os, sys, time, signal, json\nif os.environ.get('GUNICORN_PID'):\n    time.sleep(3.0)\n", 1)
    if hist == "H7":
        settings["daemon"] = True       # WINCH only acts on a daemonized master
    conf_extra = ""
    if hist == "H9":
        # the upgrade does not get as far as a new master: the step before exec fails in the forked child (while the file
        # "fail_exec" exists).  That is the new side stopping - the original single-master state must simply remain.
        conf_extra = ("_pre_exec_orig = pre_exec\n"
                      "def pre_exec(server):\n"
                      "    _pre_exec_orig(server)\n"
                      "    if _os.path.exists(_os.path.join(_os.path.dirname(_os.path.abspath(__file__)), 'fail_exec')):\n"
                      "        raise RuntimeError('scripted failure before exec')\n")
    if hist == "H10":
        # the new master starts but gives up: its workers cannot load the application (while the file "fail_boot" exists), it
        # exits with the boot-failure status.  Again the new side stopping: the old master carries on alone.
        app_source = e4.APP_SOURCE.replace(
            "import os, sys, time, signal, json\n",
            "import os, sys, time, signal, json\n"
            "if os.environ.get('GUNICORN_PID') and os.path.exists(os.path.join(os.path.dirname(os.path.abspath(__file__)), 'fail_boot')):\n"
            "    raise RuntimeError('scripted failure while loading the application in the new release')\n", 1)
    if hist == "H13":
        conf_extra = HELPER_HOOK
    srv = e4.Server("c14", worker_class=wc, workers=nworkers, settings=settings, bind=sc["bind"], app_source=app_source,
                    conf_extra=conf_extra)
    pidfile = os.path.join(srv.dir, "u.pid")
    srv.write_conf(pidfile=pidfile)
    start_dir = None
    if hist == "H11":
        # the server is started from a directory of its own (a release directory) that is moved away while it runs: the forked
        # child of a USR2 cannot go back there - again the new side failing, the running master is not to be touched
        start_dir = os.path.join(srv.dir, "current")
        os.mkdir(start_dir, 0o755)
        srv.start_cwd = start_dir
        srv.env["PWD"] = start_dir
    lag = e4.LagProbe()
    lag.start()
    helper = None
    stop = threading.Event()
    threads = []
    log = []
    try:
        srv.start()
        old = srv.master_pid
        if hist == "H13":
            # the master has one more child than it has workers
            w_all = srv.wait_workers(nworkers + 1, 25, booted=False)
            helper = next((e["hpid"] for e in srv.events() if e["kind"] == "helper"), None)
            if not w_all or helper not in w_all:
                return v, "server with a helper process did not boot: %s" % srv.stderr()[-300:], info
            w_old = [p for p in w_all if p != helper]
            if not wait_until(lambda: set(w_old) <= set(e["wpid"] for e in srv.events() if e["kind"] == "post_worker_init"), 20):
                return v, "workers did not finish booting", info
        else:
            w_old = srv.wait_workers(nworkers, 25)
        if not w_old or not srv.wait_listening(5):
            return v, "server did not boot: %s" % srv.stderr()[-300:], info
        if start_dir:
            try:
                if os.readlink("/proc/%d/cwd" % old) != start_dir:
                    return v, "the master does not run in the start directory made for it", info
            except OSError:
                return v, "the master's working directory cannot be read", info
        for i in range(4):
            t = threading.Thread(target=client_loop, args=(e4, srv, stop, log, i), daemon=True)
            t.start()
            threads.append(t)
        time.sleep(sc["delay0"])
        if hist in ("H9", "H10", "H11"):
            flag = os.path.join(srv.dir, "fail_exec" if hist == "H9" else "fail_boot")
            if hist == "H11":
                if sc.get("how") == "rmdir":
                    os.rmdir(start_dir)
                else:
                    os.rename(start_dir, start_dir + ".old")
            else:
                open(flag, "w").close()
            n_exec = len([e for e in srv.events() if e["kind"] == "pre_exec"])
            srv.signal(signal.SIGUSR2, old)
            if not wait_until(lambda: len([e for e in srv.events() if e["kind"] == "pre_exec"]) > n_exec, 10):
                return v, "the pre_exec hook did not run", info
            run.count("upgrades_started")
            if hist == "H10":
                # the new master appears (a child of the old one that is not a worker) and goes away again
                if not wait_until(lambda: any(p not in w_old for p in srv.children_of(old)), 10):
                    return v, "no new master process appeared", info
                if not wait_until(lambda: all(p in w_old for p in srv.children_of(old)) or not e4.alive(old), 25):
                    return v, "the failing new master did not go away", info
                if not e4.alive(old):
                    v.append(("old-master-stopped-by-failed-upgrade", "the new master gave up (its workers could not load the application); "
                              "the old master %d went down with it: %s" % (old, [ln for ln in srv.error_log().splitlines() if "rror" in ln][-3:])))
                    return v, None, info
            # the failed child takes up to graceful_timeout to go away; whatever it does on its way out, the running
            # master's workers, socket file and pid file are not its to touch
            t0 = time.monotonic()
            lost = None
            failed_children = set(e["pid"] for e in srv.events() if e["kind"] == "pre_exec" and e["pid"] != old)
            while time.monotonic() - t0 < settings["graceful_timeout"] + 3:
                if hist == "H11" and time.monotonic() - t0 > 2.0 and not any(e4.alive(p) for p in failed_children) and \
                        all(p in w_old for p in srv.children_of(old)):
                    break       # the forked child that could not go back to the start directory is gone for 2 s: nothing more to come
                if srv.bind_kind == "unix" and not os.path.exists(srv.sockpath):
                    lost = lost or ("unix-socket-file-removed-by-failed-upgrade", "the socket file of the running master disappeared")
                if read_pid(pidfile) != old:
                    lost = lost or ("pidfile-removed-by-failed-upgrade", "the pid file of the running master %d now holds %r" % (
                        old, read_pid(pidfile)))
                if lost:
                    break
                time.sleep(0.1)
            if lost:
                v.append(lost)
            w_now = srv.worker_pids(old)
            if not lost and set(w_now) != set(w_old):
                v.append(("workers-killed-by-failed-upgrade", "the running master's workers %s were replaced (%s) although only the upgrade "
                          "attempt failed" % (w_old, w_now)))
            if hist == "H11":
                if not e4.alive(old):
                    v.append(("old-master-stopped-by-failed-upgrade", "USR2 with the start directory moved away: the running master %d is "
                              "gone: %s" % (old, [ln for ln in srv.error_log().splitlines() if "rror" in ln][-3:])))
                    return v, None, info
                # the release directory is back
                if sc.get("how") == "rmdir":
                    os.mkdir(start_dir, 0o755)
                else:
                    os.rename(start_dir + ".old", start_dir)
                run.count("upgrade_attempts_without_start_dir")
            else:
                os.unlink(flag)
            stop.set()
            for t in threads:
                t.join(15)
            run.count("client_requests", len(log))
            refused = [r for r in log if r["outcome"] in ("refused", "error")]
            cut = [r for r in log if r["outcome"] == "truncated" or (r["outcome"] in ("reset", "timeout") and r["data"])]
            if refused and not lost:
                v.append(("client-refused-during-upgrade", "%d of %d connection attempts failed after the failed upgrade attempt" % (
                    len(refused), len(log))))
            if cut and not lost:
                v.append(("response-cut-by-failed-upgrade", "%d responses cut: %r" % (len(cut), cut[0]["data"][:80])))
            run.count("first_exit_observed")
            if not v:
                # the obstacle is gone: a later upgrade works
                single_master_state(e4, srv, old, nworkers, pidfile, v, "after-" + hist)
                run.count("single_master_state_checks")
                wait_until(lambda: len(srv.children_of(old)) == nworkers, 8)
                w_s = srv.worker_pids(old)
                srv.signal(signal.SIGUSR2, old)
                new = find_new_master(e4, srv, old, set(w_s), timeout=15)
                if new is None:
                    v.append(("upgrade-impossible-after-failed-attempt", "USR2 after a failed attempt produced no new master: %s" % (
                        srv.error_log()[-300:])))
                    final_stop(e4, srv, old, pidfile, v, run)
                    return v, None, info
                run.count("second_upgrade_works_checks")
                srv.wait_workers(nworkers, 20, master=new)
                srv.signal(signal.SIGTERM, old)
                srv.wait_exit(old, 15)
                time.sleep(1.5)
                final_stop(e4, srv, new, pidfile, v, run)
            return v, None, info
        # ---- USR2 -------------------------------------------------------------------------------
        srv.signal(signal.SIGUSR2, old)
        if hist == "H8":
            time.sleep(sc["delay1"])
            srv.signal(signal.SIGTERM, old)
            st = srv.wait_exit(old, 15)
            if st is None:
                v.append(("master-did-not-exit", "old master did not exit after TERM"))
                return v, None, info
            # the re-exec'd process is now our (subreaper's) child: find the master that announces itself
            new = None
            t0 = time.monotonic()
            while time.monotonic() - t0 < 20 and new is None:
                for e in srv.events():
                    if e["kind"] == "when_ready" and e["pid"] != old and e4.alive(e["pid"]):
                        new = e["pid"]
                time.sleep(0.1)
            if new is None:
                v.append(("new-master-lost-the-sockets", "old master exited while the new one was still booting; no new master came up: %s" % (
                    [ln for ln in srv.error_log().splitlines() if "ERROR" in ln or "Connection in use" in ln or "promoted" in ln][-4:])))
                return v, None, info
            run.count("upgrades_started")
            run.count("first_exit_observed")
            time.sleep(1.5)
            single_master_state(e4, srv, new, nworkers, pidfile, v, "after-H8")
            run.count("single_master_state_checks")
            stop.set()
            for t in threads:
                t.join(15)
            refused = [r for r in log if r["outcome"] in ("refused", "error")]
            run.count("client_requests", len(log))
            if refused:
                v.append(("client-refused-during-upgrade", "%d of %d connection attempts failed (%s)" % (
                    len(refused), len(log), refused[0].get("err") or refused[0]["outcome"])))
            final_stop(e4, srv, new, pidfile, v, run)
            return v, None, info
        new = find_new_master(e4, srv, old, set(w_old))
        if new is None:
            err = srv.error_log()[-400:]
            execd = any(e["kind"] == "pre_exec" for e in srv.events())
            still_booting = [p for p in srv.children_of(old) if p not in w_old]
            if execd and e4.alive(old) and len(srv.children_of(old)) <= nworkers:
                # the exec step was reached and the process it produced is gone again: the upgrade failed although nothing
                # stood in its way
                v.append(("new-master-did-not-start", "USR2 reached the exec step but no new master announced itself and the "
                          "process is gone: %s" % [ln for ln in srv.error_log().splitlines() if "rror" in ln or "xception" in ln][-3:]))
                return v, None, info
            return v, "re-exec did not produce a new master within 15 s (still booting: %s): %s" % (still_booting, err), info
        w_new = srv.wait_workers(nworkers, 20, master=new)
        if not w_new:
            return v, "new master did not boot its workers", info
        info["old"], info["new"] = old, new
        run.count("upgrades_started")
        # both alive: pid files
        if not wait_until(lambda: read_pid(pidfile + ".2") == new, 3.0):
            v.append(("pidfile2-wrong-while-both-live", "%s.2 holds %r, new master is %d" % (pidfile, read_pid(pidfile + ".2"), new)))
        if read_pid(pidfile) != old:
            v.append(("pidfile-wrong-while-both-live", "%s holds %r, old master is %d" % (pidfile, read_pid(pidfile), old)))
        else:
            run.count("both_live_pidfile_checks")
        # both serve: the answering pids must include workers of both masters eventually (not judged), at least no failures
        time.sleep(sc["delay1"])
        if hist == "H13":
            # the old master's own helper process ends now, while the upgrade is pending; the master collects it
            open(os.path.join(srv.dir, "helper_go"), "w").close()
            if not wait_until(lambda: e4.proc_table().get(helper, (None,))[0] != old, 8):
                return v, "the old master did not collect its helper process (state %s)" % proc_state(e4, helper), info
            time.sleep(0.3)
            if not (e4.alive(old) and e4.alive(new)):
                v.append(("master-died-when-its-helper-process-exited", "old master alive: %s, new master alive: %s after a child of the old "
                          "master that is not a worker exited: %s" % (e4.alive(old), e4.alive(new), srv.error_log()[-300:])))
                return v, None, info
            run.count("non_worker_child_exit_while_upgrade_pending")
        if hist in ("H5", "H13"):
            before = set(srv.session_pids())
            n_exec = len([e for e in srv.events() if e["kind"] == "pre_exec"])
            srv.signal(signal.SIGUSR2, old)
            time.sleep(1.5)
            masters = [p for p in srv.session_pids() if p not in before and p not in srv.worker_pids(old) and p not in srv.worker_pids(new)]
            ready = set(e["pid"] for e in srv.events() if e["kind"] == "when_ready")
            third = [p for p in ready if p not in (old, new) and e4.alive(p)]
            n_exec2 = len([e for e in srv.events() if e["kind"] == "pre_exec"])
            if third:
                v.append(("second-usr2-created-third-master", "masters %s after a second USR2 while an upgrade was pending" % third))
            elif n_exec2 > n_exec:
                # no third master stayed (with a pid file it stumbles over the '.2' file), but the signal was acted upon: the old
                # master forked and ran the pre_exec hook again
                v.append(("second-usr2-not-ignored", "a second USR2 while the upgrade to master %d was pending made the old master %d fork "
                          "and run pre_exec again (%d -> %d pre_exec events): %s" % (new, old, n_exec, n_exec2, [
                              ln for ln in srv.error_log().splitlines() if "usr2" in ln.lower() or "Already running" in ln][-3:])))
            else:
                run.count("second_usr2_ignored_checks")
                if hist == "H13":
                    run.count("second_usr2_ignored_after_non_worker_child_exit_checks")
        if hist == "H7":
            # the documented back-out: stop the old master's workers (WINCH), then bring them back (HUP), stop the new master
            srv.signal(signal.SIGWINCH, old)
            if not wait_until(lambda: len(srv.worker_pids(old)) == 1 and srv.worker_pids(old) == [new], 10):
                v.append(("winch-did-not-stop-old-workers", "old master still has workers %s" % srv.worker_pids(old)))
            time.sleep(0.5)
            srv.signal(signal.SIGHUP, old)
            wait_until(lambda: len([p for p in srv.worker_pids(old) if p != new]) == nworkers, 10)
            srv.signal(signal.SIGTERM, new)
            if srv.wait_exit(new, 15) is None and e4.alive(new):
                v.append(("master-did-not-exit", "new master %d did not exit after TERM" % new))
                return v, None, info
            run.count("first_exit_observed")
            time.sleep(1.5)
            single_master_state(e4, srv, old, nworkers, pidfile, v, "after-H7")
            run.count("single_master_state_checks")
            run.count("winch_backout_checks")
            stop.set()
            for t in threads:
                t.join(15)
            run.count("client_requests", len(log))
            refused = [r for r in log if r["outcome"] in ("refused", "error")]
            if refused:
                v.append(("client-refused-during-upgrade", "%d of %d connection attempts failed" % (len(refused), len(log))))
            final_stop(e4, srv, old, pidfile, v, run)
            return v, None, info
        # ---- who exits first ---------------------------------------------------------------------------
        graceful = hist in ("H1", "H3", "H5", "H6", "H13") or (hist == "H12" and sc.get("sig") != "QUIT")
        if hist in ("H1", "H2", "H5", "H6", "H12", "H13"):
            victim, survivor, sig = old, new, (signal.SIGTERM if hist != "H2" and sc.get("sig") != "QUIT" else signal.SIGQUIT)
        else:
            victim, survivor, sig = new, old, (signal.SIGTERM if hist == "H3" else signal.SIGQUIT)
        t_sig = time.monotonic()
        srv.signal(sig, victim)
        if hist == "H12":
            # whoever started the old master (this harness) does not wait() for it yet: it has exited - sockets closed, pid file
            # removed - and stays in the process table as a zombie.  "Gone" for the statement: the new master takes the configured
            # pid-file name now, not when somebody gets round to collecting the exit status
            if not wait_until(lambda: not e4.alive(old), 15, step=0.02):
                v.append(("master-did-not-exit", "master %d did not exit 15 s after signal %d" % (victim, sig)))
                return v, None, info
            t_z = time.monotonic()
            if proc_state(e4, old) != "Z":
                return v, "the old master was collected by somebody else: nothing to observe", info
            promoted = wait_until(lambda: read_pid(pidfile) == new and not os.path.exists(pidfile + ".2"), 6.0)
            t_p = time.monotonic()
            if proc_state(e4, old) != "Z":
                return v, "the old master was collected during the observation", info
            info["promoted_after_exit_s"] = round(t_p - t_z, 2) if promoted else None
            if not promoted:
                if lag.max_lag(since=t_sig) > 0.5:
                    return v, "no promotion within 6 s but scheduling lag was %.2f s" % lag.max_lag(since=t_sig), info
                if not e4.alive(new):
                    v.append(("survivor-died", "master %d died after master %d exited: %s" % (new, old, srv.error_log()[-300:])))
                    return v, None, info
                v.append(("not-promoted-while-old-master-unreaped", "the old master %d has exited (state Z: the process that started it has "
                          "not collected it yet); %.1f s later the new master %d is still recorded under %s.2 (%r) and %s holds %r" % (
                              old, t_p - t_z, new, pidfile, read_pid(pidfile + ".2"), pidfile, read_pid(pidfile))))
            else:
                run.count("promotion_before_old_master_is_collected_checks")
        st = srv.wait_exit(victim, 15)
        if st is None:
            v.append(("master-did-not-exit", "master %d did not exit 15 s after signal %d" % (victim, sig)))
            return v, None, info
        run.count("first_exit_observed")
        time.sleep(1.5)      # one more loop tick of the survivor (promotion / SIGCHLD handling)
        if not e4.alive(survivor):
            v.append(("survivor-died", "master %d died after master %d exited: %s" % (survivor, victim, srv.error_log()[-300:])))
            return v, None, info
        single_master_state(e4, srv, survivor, nworkers, pidfile, v, "after-" + hist)
        run.count("single_master_state_checks")
        final = survivor
        if hist in ("H3", "H4", "H6"):
            # a later USR2 works again (rollback restored the original state / promoted master can upgrade)
            w_s = srv.worker_pids(survivor)
            srv.signal(signal.SIGUSR2, survivor)
            third = find_new_master(e4, srv, survivor, set(w_s), timeout=15)
            if third is None:
                v.append(("upgrade-impossible-after-" + ("rollback" if hist != "H6" else "promotion"),
                          "USR2 to master %d produced no new master: %s" % (survivor, srv.error_log()[-300:])))
            else:
                run.count("second_upgrade_works_checks")
                srv.wait_workers(nworkers, 20, master=third)
                if not wait_until(lambda: read_pid(pidfile + ".2") == third, 3.0):
                    v.append(("pidfile2-wrong-while-both-live", "second upgrade: .2 holds %r, new master %d" % (
                        read_pid(pidfile + ".2"), third)))
                srv.signal(signal.SIGTERM, survivor)
                if srv.wait_exit(survivor, 15) is None:
                    v.append(("master-did-not-exit", "master %d (second round)" % survivor))
                time.sleep(1.5)
                single_master_state(e4, srv, third, nworkers, pidfile, v, "after-second-upgrade")
                final = third
        stop.set()
        for t in threads:
            t.join(15)
        # ---- clients -------------------------------------------------------------------------------------
        outcomes = {}
        for r in log:
            outcomes[r["outcome"]] = outcomes.get(r["outcome"], 0) + 1
        info["outcomes"] = outcomes
        run.count("client_requests", len(log))
        refused = [r for r in log if r["outcome"] in ("refused", "error")]
        if refused:
            v.append(("client-refused-during-upgrade", "%d of %d connection attempts failed (%s)" % (
                len(refused), len(log), refused[0].get("err") or refused[0]["outcome"])))
        if graceful:
            cut = [r for r in log if r["outcome"] == "truncated" or (r["outcome"] in ("reset", "timeout") and r["data"])]
            if cut:
                v.append(("response-cut-during-graceful-upgrade", "%d responses cut: %r" % (len(cut), cut[0]["data"][:80])))
        final_stop(e4, srv, final, pidfile, v, run)
        return v, None, info
    finally:
        stop.set()
        lag.stop_flag = True
        srv.cleanup()


def scenarios(tier, seed):
    rng = rng_for(seed, "c14")
    out = []
    reps = 1 if tier == "quick" else 4
    for rep in range(reps):
        for i, h in enumerate(HISTORIES):
            for bind in (["tcp", "unix"] if tier == "thorough" or True else ["tcp"]):
                out.append({"history": h, "bind": bind, "class": rng.choice(["sync", "sync", "gthread", "gevent"]),
                            "delay0": rng.choice([0.3, 0.6]), "delay1": rng.choice([0.3, 0.8])})
    from vlib import e4_live
    if e4_live.have_ipv6():
        # the hand-over of an IPv6 listener (a different socket class on gunicorn's side)
        for h in (["H6", "H3"] if tier == "quick" else ["H1", "H2", "H3", "H4", "H6", "H8"]):
            out.append({"history": h, "bind": "tcp6", "class": rng.choice(["sync", "gthread", "gevent"]),
                        "delay0": rng.choice([0.3, 0.6]), "delay1": rng.choice([0.3, 0.8])})
    # the bind written as a host name
    for h in (["H6"] if tier == "quick" else ["H1", "H3", "H6", "H8"]):
        out.append({"history": h, "bind": "tcpname", "class": rng.choice(["sync", "gthread", "gevent"]),
                    "delay0": rng.choice([0.3, 0.6]), "delay1": rng.choice([0.3, 0.8])})
    # later additions, own generator (the scenarios above stay what they were)
    r4 = rng_for(seed, "c14-later")
    for rep in range(reps):
        for h in LATER_HISTORIES:
            for bind in ("tcp", "unix"):
                sc = {"history": h, "bind": bind, "class": r4.choice(["sync", "sync", "gthread", "gevent"]),
                      "delay0": r4.choice([0.3, 0.6]), "delay1": r4.choice([0.3, 0.8])}
                if h == "H11":
                    sc["how"] = r4.choice(["rename", "rmdir"])
                if h == "H12":
                    sc["sig"] = r4.choice(["TERM", "TERM", "QUIT"])
                out.append(sc)
    for i, sc in enumerate(out):
        sc["seed"] = seed
        sc["idx"] = i
    return out


def shard(sh):
    from vlib import e4_live as e4
    run = Run(PROP, sh.get("tier", "quick"), sh["seed"], "exploration", RULE)
    sc = sh["scenario"]
    reason = None
    for attempt in range(3):
        v, reason, info = run_scenario(run, e4, sc)
        if reason is None or v:
            break
        run.count("retries_after_inconclusive")
    run.case(json.dumps({k: sc[k] for k in ("history", "bind", "class", "delay0", "delay1", "how", "sig") if k in sc}, sort_keys=True))
    run.count("scenarios")
    run.count("history/" + sc["history"])
    run.count("bind/" + sc["bind"])
    for mech, summary in v:
        run.violation(mech, summary + " | scenario=%s info=%s" % ({k: sc[k] for k in ("history", "bind", "class", "how", "sig") if k in sc}, info), sc)
    if reason is not None and not v:
        if "scheduling lag" in reason:
            run.count("cells_skipped_for_scheduling_lag")      # measured lag made the wall-clock judgement unsafe, three times
        else:
            run.inconclusive_because("scenario %s: %s" % (sc["idx"], reason))
    run.sample({"scenario": {k: sc[k] for k in ("history", "bind", "class")}, "observed": info}, cap=3)
    return run


def main(tier, seed):
    run = Run(PROP, tier, seed, "exploration", RULE)
    run.require("scenarios", "upgrades_started", "both_live_pidfile_checks", "second_usr2_ignored_checks", "first_exit_observed",
                "single_master_state_checks", "second_upgrade_works_checks", "client_requests", "bind/tcp", "bind/unix",
                "history/H1", "history/H3", "history/H5", "history/H6", "history/H8", "history/H7", "history/H9", "history/H10", "winch_backout_checks", "final_stop_checks", "respawn_after_upgrade_checks",
                "history/H11", "history/H12", "history/H13", "upgrade_attempts_without_start_dir",
                "promotion_before_old_master_is_collected_checks", "non_worker_child_exit_while_upgrade_pending",
                "second_usr2_ignored_after_non_worker_child_exit_checks")
    shards = [{"scenario": sc, "seed": seed, "tier": tier} for sc in scenarios(tier, seed)]
    run.assumptions = [
        "the new master is identified as the live child of the old master that emitted when_ready and is not one of its workers",
        "a QUIT of a master (H2/H4) aborts its workers' requests by design: only refused connections are judged there",
        "H7 (daemonized master: USR2, WINCH old, HUP old, TERM new) is the documented back-out",
        "H12: 'once the old master is gone' = once it has exited; whether the process that started it has already collected the exit "
        "status is not the new master's business. Promotion (configured pid-file name holds the new pid, '.2' gone) is awaited for 6 s "
        "while the old master is a zombie; not judged when it was collected meanwhile or under scheduling lag above 0.5 s",
        "H13: a child of the old master that is neither a worker nor the new master (started by a when_ready hook, ends on request) "
        "exits while the upgrade is pending; 'a further USR2 is ignored' = no third master and no second run of the pre_exec hook",
        "H11: the start directory is renamed / removed before USR2 and put back afterwards; the attempt itself may fail, the running "
        "master's socket file, pid file, workers and clients are judged as in H9",
    ]
    common.run_sharded(run, shards, timeout=900 if tier == "quick" else 3600, nproc=min(8, common.NCPU))
    return run.finish()


def replay(path):
    from vlib import e4_live as e4
    with open(path) as f:
        rec = json.load(f)
    run = Run(PROP, "quick", 0, "exploration", RULE)
    v, reason, info = run_scenario(run, e4, rec["case"])
    print("info:", info, "inconclusive:", reason)
    for mech, s in v:
        print("VIOLATION property=%s replay=%s\n  %s %s" % (PROP, path, mech, s))
    if not v:
        print("no violation on replay")
    return 1 if v else 0
