"""C09 Application-supplied status and headers cannot split or forge a response.

Monitor: raw response head bytes at the client end of real worker loops (E2) for applications that
pass hostile strings to start_response; the head must consist of the server's own lines plus one
line per accepted application header, and refused text must never appear on the wire.
"""
import json

from vlib import common
from vlib.common import Run, rng_for, hexs

PROP = "C09"
RULE = ("case = (field in {status, header name, header value}, position in {start, middle, end}, injected character "
        "from 0x00-0x20, 0x7f, 0x80, 0xff, ':', U+0100, U+2028) enumerated completely x worker loop, plus random header "
        "lists with hop-by-hop names, non-str types and exc_info retries; name injections again under --strip-header-spaces, "
        "value / status injections again under all request-side tolerance switches; two-call sequences (interim 1xx status, "
        "then the final status) with the injection in either call; distinct = (field, position, character, "
        "loop) / sha1 of the random case; every case is non-trivial (each carries an injection or a header list)")

HOP = {"connection", "keep-alive", "proxy-authenticate", "proxy-authorization", "te", "trailers",
       "transfer-encoding", "upgrade"}
TOKEN_CHARS = set("!#$%&'*+-.^_`|~0123456789abcdefghijklmnopqrstuvwxyzABCDEFGHIJKLMNOPQRSTUVWXYZ")
INJECT = [chr(c) for c in list(range(0x00, 0x21)) + [0x7f, 0x80, 0xff]] + [":", "Ā", " "]
MUST_REFUSE = {"\r", "\n", "\0"}
# server configurations: the request-side tolerance switches (deprecated / "use with care") say nothing about what an application
# may put into a response - the oracle is the same under each of them
CFGS = {
    None: {},
    "strip": {"strip_header_spaces": True},
    "lenient": {"strip_header_spaces": True, "permit_obsolete_folding": True, "permit_unconventional_http_method": True,
                "permit_unconventional_http_version": True, "casefold_http_method": True, "header_map": "dangerous"},
}
INTERIM_STATUS = ["103 Early Hints", "102 Processing", "100 Continue", "199 Custom Interim"]


def is_token(s):
    return len(s) > 0 and all(c in TOKEN_CHARS for c in s)


def classify_value(s):
    """'refuse' (CR/LF/NUL or not latin-1 encodable), 'either' (other control characters), 'ok'."""
    if any(c in MUST_REFUSE for c in s):
        return "refuse"
    if any(ord(c) > 0xff for c in s):
        return "refuse"
    if any((ord(c) < 0x20 and c != "\t") or ord(c) == 0x7f for c in s):
        return "either"
    return "ok"


class App:
    def __init__(self, case):
        self.case = case
        self.calls = 0
        self.exc = None

    def __call__(self, environ, start_response):
        self.calls += 1
        c = self.case
        if c.get("status_bytes"):
            # an application that still passes a byte string as status (not a native string): whatever the server does with the
            # type, CR / LF / NUL in it stay out of the head
            c = dict(c, status=c["status"].encode("latin-1", "replace"))
        hdrs = [(n, v) for n, v in c["headers"]]
        if c.get("types"):
            for i, t in c["types"]:
                n, v = hdrs[i]
                hdrs[i] = (n.encode("latin-1", "replace"), v) if t == "name-bytes" else \
                    (n, v.encode("latin-1", "replace")) if t == "value-bytes" else (n, 7) if t == "value-int" else (n, None)
        try:
            if c.get("interim"):
                # the two-step protocol of interim responses: start_response(1xx) first, then start_response(final status)
                it = c["interim"]
                start_response(it["status"], [(n, v) for n, v in it["headers"]])
                if it.get("swallow"):
                    # ... by an application that goes on when the server does not take the second call
                    try:
                        start_response(c["status"], hdrs)
                    except Exception as e:      # noqa: BLE001
                        self.exc = type(e).__name__
                    return [b"body-Zq"]
                start_response(c["status"], hdrs)
                return [b"body-Zq"]
            if c.get("catch"):
                # error-middleware shape: the first start_response is refused, the stack catches that and answers with its own
                # error response through the exc_info form - nothing of the refused call may be left behind
                try:
                    start_response(c["status"], hdrs)
                except Exception:
                    import sys
                    start_response("500 Caught By Middleware", [("X-Err", "caughtZq")], sys.exc_info())
                    return [b"body-Zq"]
                return [b"body-Zq"]
            if c.get("retry"):
                start_response("200 First", [("X-First-Zq", "1")])
                try:
                    raise KeyError("retry")
                except KeyError:
                    import sys
                    start_response(c["status"], hdrs, sys.exc_info())
            else:
                start_response(c["status"], hdrs)
            if c.get("after_output") is not None:
                # the error-handler shape of a second call: the first chunk (empty ones included - the server sends the head with
                # it) has been handed over, then start_response(..., exc_info) offers another status and other headers
                return self._after_output(start_response, bytes.fromhex(c["after_output"]))
            if c.get("late"):
                # the application goes on using the list it handed over: what it adds now was never offered to start_response
                hdrs.append((c["late"][0], c["late"][1]))
        except Exception as e:      # noqa: BLE001 - the server refused: propagate like a real app would
            self.exc = type(e).__name__
            raise
        return [b"body-Zq"]


def _after_output_gen(app, start_response, first):
    yield first
    try:
        raise KeyError("after output")
    except KeyError:
        import sys
        try:
            start_response("500 After Output", [("X-After-Output", "afterZq")], sys.exc_info())
        except Exception as e:      # noqa: BLE001 - refused (the exc_info re-raised): propagate like a real app would
            app.exc = type(e).__name__
            raise
    app.second_call_accepted = True
    yield b"tail-Zq"


App._after_output = lambda self, sr, first: _after_output_gen(self, sr, first)


def expected_lines(case, version):
    """Returns (verdict, lines) - verdict 'refuse' | 'either' | 'ok'; lines = application part of the
    head (after the server's own lines) when accepted."""
    verdicts = [classify_value(case["status"])]
    lines = []
    for i, (n, v) in enumerate(case["headers"]):
        t = dict(case.get("types") or []).get(i)
        if t:
            verdicts.append("refuse-type")
            continue
        if not is_token(n):
            verdicts.append("refuse")
            continue
        verdicts.append(classify_value(v))
        if n.lower() in HOP:
            if n.lower() == "upgrade" and v.strip(" \t").lower() == "websocket":
                lines.append((n + ": " + v.strip(" \t")))
            continue
        lines.append(n + ": " + v.strip(" \t"))
    if "refuse" in verdicts or "refuse-type" in verdicts:
        return "refuse", lines
    if "either" in verdicts:
        return "either", lines
    return "ok", lines


def judge(case, out, app):
    v = []
    data = out["received"]
    version = case["version"]
    verdict, app_lines = expected_lines(case, version)
    if case.get("interim"):
        return judge_interim(case, out)
    if case.get("catch") and (verdict in ("refuse", "either") or b"500 Caught By Middleware\r\n" in out["received"][:60]):
        return judge_caught(case, out, verdict)
    markers = [m.encode("latin-1", "replace") for m in case["markers"]]
    if case.get("late") and b"lateZq" in data:
        v.append(("header-added-after-start-response-on-wire", "the application appended %r to its list after start_response() had "
                  "returned; the client received: %s" % (case["late"], hexs(data[:300]))))
    if getattr(app, "second_call_accepted", False):
        # an accepted call's status and headers are the response's: they have to be what the head on the wire says
        head = data[:data.find(b"\r\n\r\n") + 2] if b"\r\n\r\n" in data else data
        if not (head.startswith(b"HTTP/%s 500 After Output\r\n" % version.encode()) and b"\r\nX-After-Output: afterZq\r\n" in head):
            v.append(("second-start-response-accepted-after-head-was-sent", "start_response(..., exc_info) after the first chunk %r "
                      "returned normally, but the head the client received is the first call's: %s" % (
                          bytes.fromhex(case["after_output"]), hexs(data[:300]))))
            return v, "broken"
    if out["handler_exc"]:
        v.append(("exception-escaped-handler", out["handler_exc"]))
    if out["hung"]:
        v.append(("handler-hung", ""))
        return v, "hung"
    if not data:
        return v, "nothing-sent"
    if case.get("status_bytes"):
        raw = case["status"].encode("latin-1", "replace")
        if any(ch in raw for ch in b"\r\n\0") and raw in data:
            v.append(("refused-text-on-wire/status-given-as-bytes", "start_response(%r, ...) - the status as a byte string with CR / LF / NUL - "
                      "and the client received it verbatim: %s" % (raw, hexs(data[:300]))))
            return v, "accepted"
        return v, "bytes-status-no-raw-control-text"
    end = data.find(b"\r\n\r\n")
    if end < 0:
        v.append(("head-not-terminated", hexs(data[:200])))
        return v, "broken"
    lines = data[:end].split(b"\r\n")
    status_line = ("HTTP/%s %s" % (version, case["status"])).encode("latin-1", "replace")
    import re
    # the server's own error page (gunicorn answers a refused start_response with its 4xx/5xx page, whose
    # body quotes the offending text repr()- and html-escaped): exactly these four head lines, a body of
    # exactly Content-Length bytes, nothing after it
    if re.match(rb"^HTTP/1\.1 [45][0-9][0-9] [A-Za-z ]+$", lines[0]) and b"Server: gunicorn" not in lines:
        ok = (len(lines) == 4 and lines[1] == b"Connection: close" and lines[2] == b"Content-Type: text/html"
              and re.match(rb"^Content-Length: [0-9]+$", lines[3]))
        if ok:
            n = int(lines[3].split(b": ")[1])
            body = data[end + 4:]
            ok = len(body) == n and b"\r" not in body and b"\0" not in body
        if not ok:
            v.append(("error-page-malformed", hexs(data[:300])))
        return v, "refused-500"
    if verdict == "refuse":
        which = "status" if classify_value(case["status"]) == "refuse" else "header"
        v.append(("refused-text-on-wire/" + which,
                  "start_response(%r, %r) must be refused, but the client received: %s" % (
                      case["status"], case["headers"], hexs(data[:300]))))
        return v, "accepted"
    # accepted: head must be exactly server lines + app lines
    want_prefix = [status_line, b"Server: gunicorn"]
    ok = lines[:2] == want_prefix and len(lines) >= 4 and lines[2].startswith(b"Date: ") and \
        lines[3] in (b"Connection: close", b"Connection: keep-alive", b"Connection: upgrade")
    rest = lines[4:] if ok else None
    if ok and rest and rest[0] == b"Transfer-Encoding: chunked":
        rest = rest[1:]
    want = [ln.encode("latin-1") for ln in app_lines]
    if ok and case.get("retry") and rest[:1] == [b"X-First-Zq: 1"]:
        rest = rest[1:]             # superseded headers of the first call: tolerated (PEP 3333 matter, not C09)
    if not ok or rest != want:
        v.append(("head-lines-differ", "head lines %r, expected server lines + %r" % (
            [hexs(x) for x in lines], app_lines)))
    for ln in lines:
        if b"\r" in ln or b"\n" in ln or b"\0" in ln:
            v.append(("bare-ctl-in-head", hexs(ln)))
            break
    return v, "accepted"


def judge_caught(case, out, verdict):
    """The application caught the refusal and answered '500 Caught By Middleware' with one header X-Err."""
    v = []
    data = out["received"]
    if out["handler_exc"]:
        v.append(("exception-escaped-handler", out["handler_exc"]))
    if not data:
        return v, "nothing-sent"
    end = data.find(b"\r\n\r\n")
    lines = data[:end].split(b"\r\n") if end >= 0 else [data]
    if lines[0].endswith(b"500 Caught By Middleware"):
        rest = [ln for ln in lines[4:] if ln != b"Transfer-Encoding: chunked"]
        # valid headers of the refused call that were processed before the offending one may survive (gunicorn does not reset its
        # header list on an exc_info retry - a PEP 3333 matter, not response splitting): tolerated; refused text is not
        valid = set(ln.encode("latin-1", "replace") for ln in expected_lines(case, case["version"])[1])
        ok = bool(rest) and rest[-1] == b"X-Err: caughtZq" and all(ln in valid for ln in rest[:-1])
        if not ok or any(b"\r" in ln or b"\n" in ln or b"\0" in ln for ln in lines):
            v.append(("refused-text-survives-exc-info-retry", "after the refused start_response(%r, %r) the stack answered with its own "
                      "500 + X-Err, but the head on the wire is %r" % (case["status"], case["headers"], [hexs(x) for x in lines])))
        return v, "caught-500"
    if verdict == "either":
        return v, "accepted"
    markers = [m.encode("latin-1", "replace") for m in case["markers"]]
    import re
    if re.match(rb"^HTTP/1\.1 [45][0-9][0-9] [A-Za-z ]+$", lines[0]) and b"Server: gunicorn" not in lines:
        return v, "refused-500"
    v.append(("refused-text-on-wire/caught", "client received %s" % hexs(data[:300])))
    return v, "accepted"


DATE_RE = rb"^Date: [A-Z][a-z]{2}, [0-9]{2} [A-Z][a-z]{2} [0-9]{4} [0-9]{2}:[0-9]{2}:[0-9]{2} GMT$"
ERRPAGE_RE = rb"^HTTP/1\.1 [45][0-9][0-9] [A-Za-z ]+$"


def call_model(call):
    """One start_response(status, headers) call: (must it be refused, status line text or None, the lines its headers may give)."""
    refuse = classify_value(call["status"]) == "refuse"
    lines = []
    for n, v in call["headers"]:
        if not is_token(n) or classify_value(v) == "refuse":
            refuse = True
            continue
        if n.lower() in HOP and not (n.lower() == "upgrade" and v.strip(" \t").lower() == "websocket"):
            continue
        lines.append((n + ": " + v.strip(" \t")).encode("latin-1"))
    return refuse, call["status"], lines


def judge_interim(case, out):
    """start_response(interim 1xx status, headers) followed by start_response(final status, headers): a server may refuse the second
    call (then its own error page is all the client sees) or send an interim head followed by the final one. Whatever it does, every
    head on the wire is a status line one of the two calls gave plus the server's own lines plus lines of that call's accepted
    headers, in order; nothing of a call that has to be refused is on the wire."""
    import re
    v = []
    data = out["received"]
    if out["handler_exc"]:
        v.append(("exception-escaped-handler", out["handler_exc"]))
    if out["hung"]:
        v.append(("handler-hung", ""))
        return v, "hung"
    if not data:
        return v, "nothing-sent"
    calls = [call_model(case["interim"]), call_model(case)]
    must_refuse = any(c[0] for c in calls)
    what = "start_response(%r, %r) then start_response(%r, %r)" % (case["interim"]["status"], case["interim"]["headers"],
                                                                     case["status"], case["headers"])
    pos = 0
    outcome = "accepted"
    nheads = 0
    while data[pos:pos + 5] == b"HTTP/":
        end = data.find(b"\r\n\r\n", pos)
        if end < 0:
            v.append(("head-not-terminated", hexs(data[pos:pos + 200])))
            return v, "broken"
        lines = data[pos:end].split(b"\r\n")
        pos = end + 4
        nheads += 1
        if re.match(ERRPAGE_RE, lines[0]) and b"Server: gunicorn" not in lines:
            ok = (len(lines) == 4 and lines[1] == b"Connection: close" and lines[2] == b"Content-Type: text/html"
                  and re.match(rb"^Content-Length: [0-9]+$", lines[3]))
            if ok:
                body = data[pos:]
                ok = len(body) == int(lines[3].split(b": ")[1]) and b"\r" not in body and b"\0" not in body
            if not ok:
                v.append(("error-page-malformed", hexs(data[:300])))
            outcome = "refused-500" if nheads == 1 else "refused-500-after-interim-head"
            break
        bad = None
        owner = [c for c in calls if lines[0] == ("HTTP/%s %s" % (case["version"], c[1])).encode("latin-1", "replace")]
        if not owner:
            bad = "status line %r is not one the application gave" % hexs(lines[0])
        elif all(c[0] for c in owner):
            bad = "status line %r belongs to a call that had to be refused" % hexs(lines[0])
        else:
            for c in owner:
                if c[0]:
                    continue
                k = 0
                bad = None
                seen = set()
                for ln in lines[1:]:
                    srv = ("Server" if ln == b"Server: gunicorn" else "Date" if re.match(DATE_RE, ln) else
                           "Connection" if ln in (b"Connection: close", b"Connection: keep-alive", b"Connection: upgrade") else
                           "TE" if ln == b"Transfer-Encoding: chunked" else None)
                    if srv and srv not in seen:
                        seen.add(srv)
                        continue
                    while k < len(c[2]) and c[2][k] != ln:
                        k += 1
                    if k >= len(c[2]):
                        bad = "line %r is neither the server's nor (in order) one of %r" % (hexs(ln), [hexs(x) for x in c[2]])
                        break
                    k += 1
                if bad is None:
                    break
        if bad is None and any(b"\r" in ln or b"\n" in ln or b"\0" in ln for ln in lines):
            bad = "bare CR / LF / NUL inside a head line"
        if bad is not None:
            v.append(("refused-text-on-wire/interim-sequence" if must_refuse else "head-lines-differ/interim-sequence",
                      "%s: head #%d on the wire %r: %s" % (what, nheads, [hexs(x) for x in lines], bad)))
            break
        m = re.match(rb"^HTTP/[0-9]\.[0-9] ([0-9]{3})( |$)", lines[0])
        if not m or not (100 <= int(m.group(1)) < 200 and int(m.group(1)) != 101):
            break           # the final head: what follows is the body
    if nheads == 0:
        v.append(("head-not-terminated", hexs(data[:200])))
        return v, "broken"
    return v, outcome


BENIGN_STATUS = "200 OKZqS"
BENIGN_NAME = "X-NameZqN"
BENIGN_VALUE = "valueZqV"


def enum_cases():
    cases = []
    for field in ("status", "name", "value"):
        base = {"status": BENIGN_STATUS, "name": BENIGN_NAME, "value": BENIGN_VALUE}[field]
        for pos in ("start", "middle", "end"):
            for ch in INJECT:
                if pos == "start":
                    s = ch + base
                elif pos == "end":
                    s = base + ch
                else:
                    k = 4 if field == "status" else len(base) // 2
                    s = base[:k] + ch + base[k:]
                if field == "status" and pos == "start":
                    # keep a leading digit group so that int(status.split()[0]) may work or not
                    pass
                status = s if field == "status" else BENIGN_STATUS
                name = s if field == "name" else BENIGN_NAME
                value = s if field == "value" else BENIGN_VALUE
                payload = ""
                if ch in MUST_REFUSE and ch != "\0":
                    # classic splitting payload behind the injected break
                    payload = "Set-Cookie: pwnedZq=1"
                    if field == "status":
                        status = s + payload if pos == "end" else status
                    elif field == "value":
                        value = s + payload if pos == "end" else value
                cases.append({"status": status, "headers": [["X-Before", "bZq"], [name, value], ["X-After", "aZq"]],
                              "markers": ["ZqS", "ZqN", "ZqV", "bZq", "aZq", "pwnedZq"],
                              "sig": [field, pos, ord(ch)]})
                if payload:
                    # the same injection without anything behind it (a value that simply ends in a line break)
                    st2 = s if field == "status" else BENIGN_STATUS
                    v2 = s if field == "value" else BENIGN_VALUE
                    cases.append({"status": st2, "headers": [["X-Before", "bZq"], [name, v2], ["X-After", "aZq"]],
                                  "markers": ["ZqS", "ZqN", "ZqV", "bZq", "aZq", "pwnedZq"],
                                  "sig": [field, pos, ord(ch), "bare"]})
                if ch in ("\r", "\n"):
                    for tail in ("\r\n", "\n\n", "\n\r", " \n"):
                        st3 = base + tail if field == "status" else BENIGN_STATUS
                        n3 = base + tail if field == "name" else BENIGN_NAME
                        v3 = base + tail if field == "value" else BENIGN_VALUE
                        if pos == "end" and ch == "\n":
                            cases.append({"status": st3, "headers": [["X-Before", "bZq"], [n3, v3], ["X-After", "aZq"]],
                                          "markers": ["ZqS", "ZqN", "ZqV", "bZq", "aZq", "pwnedZq"],
                                          "sig": [field, pos, tail]})
    # the same injections when the application stack catches the refusal and retries with exc_info
    for c in list(cases):
        if c["sig"][0] in ("name", "value") and c["sig"][2] in (0, 10, 13) and len(c["sig"]) == 3:
            cases.append(dict(c, catch=True, sig=c["sig"] + ["catch"]))
    # hop-by-hop names are dropped - or, for 'Upgrade: websocket', forwarded: their values are application text all the same
    for hname, base in (("Upgrade", "websocket"), ("Upgrade", "h2c"), ("Connection", "upgrade"), ("Transfer-Encoding", "chunked"),
                        ("Keep-Alive", "timeout=5"), ("TE", "trailers")):
        for ch in ("\r", "\n", "\0", "\r\n"):
            for tail in ("", "Set-Cookie: pwnedZq=1", "/13"):
                val = base + tail if ch == "" else base + ch + tail
                cases.append({"status": BENIGN_STATUS, "headers": [["X-Before", "bZq"], [hname, val], ["X-After", "aZq"]],
                              "markers": ["pwnedZq"], "sig": ["hop", hname, base, ch, tail]})
    # every name injection again with --strip-header-spaces (blanks after a field name are tolerated in *requests* there), every
    # value / status injection that must be refused again with all request-side tolerance switches on
    for c in list(cases):
        if c["sig"][0] == "name":
            cases.append(dict(c, cfg="strip", sig=c["sig"] + ["cfg:strip"]))
        elif c["sig"][0] in ("value", "status", "hop") and expected_lines(c, "1.1")[0] == "refuse":
            cases.append(dict(c, cfg="lenient", sig=c["sig"] + ["cfg:lenient"]))
    # names that are a known field name plus trailing blanks
    for name in ("Content-Length ", "Content-Length\t", "X-Frame-Options ", "X-Frame-Options \t ", "Set-Cookie\t", "Transfer-Encoding "):
        for cfg in (None, "strip", "lenient"):
            value = "7" if name.startswith("Content-Length") else "vZqV"
            cases.append({"status": BENIGN_STATUS, "headers": [["X-Before", "bZq"], [name, value], ["X-After", "aZq"]], "cfg": cfg,
                          "markers": ["ZqV"], "sig": ["name-trailing-blank", name, str(cfg)]})
    # two calls: an interim status first, the final status second; the injection sits in one of the two
    tails = ["", "\r\nSet-Cookie: pwnedZq=1", "\nSet-Cookie: pwnedZq=1", "\rSet-Cookie: pwnedZq=1", "\0pwnedZq", "\r\n", "\n",
             "\r\n\r\nHTTP/1.1 200 OK\r\nContent-Length: 7\r\n\r\npwnedZq"]
    for ist in INTERIM_STATUS:
        for where in ("interim-value", "interim-name", "interim-status", "final-value"):
            for ti, tail in enumerate(tails):
                for swallow in (False, True):
                    it = {"status": ist + (tail if where == "interim-status" else ""), "swallow": swallow,
                          "headers": [["Link", "</a.css>; rel=preloadZqL" + (tail if where == "interim-value" else "")],
                                      ["X-Hint" + (tail if where == "interim-name" else ""), "hZq"]]}
                    cases.append({"status": BENIGN_STATUS, "interim": it, "markers": ["pwnedZq"],
                                  "headers": [["X-Before", "bZq"], [BENIGN_NAME, BENIGN_VALUE + (tail if where == "final-value" else "")]],
                                  "sig": ["interim", ist, where, ti, swallow]})
    return cases


def random_case(rng):
    hdrs = []
    markers = []
    types = []
    for i in range(rng.randint(0, 5)):
        k = rng.random()
        m = "Zq%d" % i
        if k < 0.3:
            n = rng.choice(["Connection", "Keep-Alive", "Proxy-Authenticate", "Proxy-Authorization", "TE", "Trailers",
                            "Transfer-Encoding", "Upgrade", "upgrade", "CONNECTION", "transfer-encoding"])
            val = rng.choice(["close", "keep-alive", "upgrade", "websocket", "chunked", "timeout=5", "x" + m])
            hdrs.append([n, val])
        elif k < 0.5:
            n = rng.choice(["X-Ok", "Set-Cookie", "Content-Type", "X_Under", "x-lower", "X.dot", "X~t", "X-Ok ", "X-Ok\t", "X-Ok \t",
                            "Content-Type ", " X-Ok"])
            hdrs.append([n, rng.choice([" lead" + m, "trail%s " % m, "\ttab%s\t" % m, "", "caf\xe9" + m, "a, b" + m])])
        elif k < 0.7:
            n = "X-H%d" % i
            val = "".join(rng.choice(["a", "b", " ", "\t", "\r", "\n", "\0", "\x0b", "\x7f", "\x85", "\xff", ":", "Ā"])
                          for _ in range(rng.randint(0, 6))) + m
            hdrs.append([n, val])
        elif k < 0.85:
            n = "".join(rng.choice(["X", "-", "a", " ", "\t", ":", "(", "\r", "\n", "\xe9", "_"]) for _ in range(rng.randint(0, 5))) + m
            hdrs.append([n, "v" + m])
        else:
            hdrs.append(["X-T%d" % i, "v" + m])
            types.append([i, rng.choice(["name-bytes", "value-bytes", "value-int", "value-none"])])
        markers.append(m)
    interp_bad = False
    if rng.random() < 0.15:
        # the headers the server interprets itself (framing, connection handling): refused text around an otherwise well-formed value
        # is refused there like anywhere else - the body is 7 bytes, so the well-formed part stays truthful
        n = rng.choice(["Content-Length", "content-length", "Connection", "Transfer-Encoding", "Upgrade", "Content-Type", "Set-Cookie", "Location"])
        core = {"content-length": "7", "connection": "close", "transfer-encoding": "chunked", "upgrade": "websocket"}.get(n.lower(), "vZqK")
        pre, post = rng.choice([("", "\r\n"), ("\r\n", ""), ("", "\n"), ("", "\r"), ("\n", "\n"), ("\r\n", "\r\n"), ("", "\0"), ("\0", ""),
                                ("", " "), (" ", ""), ("", "\x0b"), ("\x0c", ""), ("", "\x85"), ("", "\r\nX-Inj: 1ZqK")])
        hdrs.append([n, pre + core + post])
        markers.append("ZqK")
        interp_bad = any(c in pre + post for c in "\r\n\0")
    status = rng.choice(["407 Proxy Authentication Required", "401 Unauthorized", "426 Upgrade Required", "502 Bad Gateway", "503 Busy",
                         "200 OK", "404 Not Found", "200", "299 Custom Reason", "200 OK\r\nX-Inj: 1Zqs", "200 OK\nX-Inj: 1Zqs",
                         "200 \0Zqs", "abcZqs", "", "200 OK " + "r" * 300, "200 caf\xe9", "200 ĀZqs", "2 0 0", "204 No Content"])
    c = {"status": status, "headers": hdrs, "markers": markers + ["Zqs"], "types": types or None,
         "retry": rng.random() < 0.15, "catch": rng.random() < 0.2}
    if interp_bad:
        c["interp_bad"] = True
    if rng.random() < 0.12:
        c["late"] = rng.choice([["X-Late", "v\r\nSet-Cookie: lateZq=1"], ["X-Late\r\nX-lateZq", "1"], ["X-Late", "lateZq\0"],
                                ["Transfer-Encoding", "lateZq"], ["X-Late", "lateZq"]])
    if rng.random() < 0.07:
        c["status_bytes"] = True
        c["retry"] = c["catch"] = False
        c.pop("late", None)
    if not c["catch"] and not c.get("status_bytes") and rng.random() < 0.1:
        c["after_output"] = rng.choice([b"", b"", b"x", b"first-Zq"]).hex()
        c.pop("late", None)
    if c["catch"]:
        c["retry"] = False
    if c["status"].startswith("204"):
        c["retry"] = False
    c["cfg"] = rng.choice([None, None, "strip", "lenient"])
    if rng.random() < 0.15:
        ih = []
        for i in range(rng.randint(0, 3)):
            m = "ZqI%d" % i
            k = rng.random()
            if k < 0.4:
                ih.append([rng.choice(["Link", "X-Hint", "Set-Cookie", "Connection", "Content-Length", "Upgrade"]),
                           rng.choice(["</s.css>; rel=preload" + m, "7", "websocket", "close", "v" + m])])
            elif k < 0.75:
                ih.append(["Link", "".join(rng.choice(["a", "<", ">", " ", "\t", "\r", "\n", "\r\n", "\0", "\x0b", "\x85", ":", "Ā"])
                                           for _ in range(rng.randint(0, 6))) + m])
            else:
                ih.append(["".join(rng.choice(["X", "-", "a", " ", "\t", ":", "\r", "\n", "_"]) for _ in range(rng.randint(0, 5))) + m, "v" + m])
        c["interim"] = {"status": rng.choice(INTERIM_STATUS + ["103 Early Hints", "103 Early\r\nX-Inj: 1Zqs", "103", "100 \0Zqs", "1xx Zqs"]),
                        "headers": ih, "swallow": rng.random() < 0.3}
        c["retry"] = c["catch"] = False
        c["types"] = None
        c.pop("late", None)
        c.pop("after_output", None)
        c.pop("status_bytes", None)
    return c


def run_case(run, e2, harnesses, case):
    kind = case["kind"]
    cfg = case.get("cfg")
    h = harnesses.get((kind, cfg))
    if h is None:
        h = harnesses[(kind, cfg)] = e2.Harness(kind, dict(CFGS[cfg], keepalive=2))
    app = App(case)
    req = ("GET /c09 HTTP/%s\r\nHost: h\r\n\r\n" % case["version"]).encode()
    out = h.connection(req, app)
    verdicts, outcome = judge(case, out, app)
    run.count("outcome/" + outcome)
    if case.get("after_output") is not None and app.exc and b"\r\n\r\n" in out["received"]:
        run.count("second_call_after_output_refused")
    exp = expected_lines(case, case["version"])[0]
    run.count("expected/" + exp)
    if case.get("interp_bad") and exp == "refuse" and outcome in ("refused-500", "nothing-sent", "caught-500"):
        run.count("interpreted_header_with_refused_text_refused")
    if case.get("status_bytes") and any(ch in case["status"] for ch in "\r\n\0") and not verdicts:
        run.count("status_as_bytes_with_control_text_kept_out_of_the_head")
    if exp == "refuse" and outcome in ("refused-500", "nothing-sent"):
        run.count("must_refuse_refused")
    if exp == "ok" and outcome == "accepted" and not verdicts and not case.get("interim"):
        run.count("accepted_head_exact")
    if cfg is not None:
        run.count("tolerance_switch_cases/" + cfg)
        blank = [n for n, _ in case["headers"] if n != n.rstrip(" \t") and is_token(n.rstrip(" \t"))]
        if blank and outcome in ("refused-500", "nothing-sent", "caught-500"):
            run.count("name_with_trailing_blank_refused_under_strip_header_spaces")
    if case.get("interim"):
        run.count("interim_sequences")
        if call_model(case["interim"])[0] or call_model(case)[0]:
            run.count("interim_sequences_must_refuse")
            if outcome in ("refused-500", "nothing-sent"):
                run.count("interim_must_refuse_refused")
        if outcome == "accepted":
            run.count("interim_sequence_heads_on_wire")
    return verdicts, out


def shard(sh):
    from vlib import e2_worker as e2
    run = Run(PROP, sh.get("tier", "quick"), sh["seed"], "exploration", RULE)
    harnesses = {}
    try:
        if sh["kind"] == "enum":
            cases = enum_cases()[sh["sub"]::sh["of"]]
            for c in cases:
                if run.enough():
                    break
                for kind in e2.KINDS:
                    for version in ("1.1", "1.0"):
                        case = dict(c, kind=kind, version=version)
                        run.case(tuple(c["sig"]) + (kind, version))
                        v, out = run_case(run, e2, harnesses, case)
                        for mech, summary in v:
                            run.violation(mech, summary + " | loop=%s" % kind, case)
            if cases:
                run.sample({"class": "enumerated injection", "status": cases[0]["status"], "headers": cases[0]["headers"]}, cap=2)
        else:
            rng = rng_for(sh["seed"], "c09", sh["sub"])
            for k in range(sh["n"]):
                if run.enough():
                    break
                case = random_case(rng)
                case["kind"] = rng.choice(e2.KINDS)
                case["version"] = rng.choice(["1.1", "1.0"])
                run.case(common.sha12(case))
                v, out = run_case(run, e2, harnesses, case)
                for mech, summary in v:
                    run.violation(mech, summary + " | loop=%s status=%r headers=%r" % (
                        case["kind"], case["status"], case["headers"]), case)
                if k < 1:
                    run.sample({"class": "random", "status": case["status"], "headers": case["headers"],
                                "types": case.get("types"), "retry": case.get("retry"),
                                "wire_head": hexs(out["received"][:200])})
    finally:
        for h in harnesses.values():
            h.close()
    return run


def main(tier, seed):
    run = Run(PROP, tier, seed, "exploration", RULE)
    run.require("must_refuse_refused", "interpreted_header_with_refused_text_refused", "second_call_after_output_refused", "status_as_bytes_with_control_text_kept_out_of_the_head", "accepted_head_exact", "expected/either", "outcome/refused-500",
                "tolerance_switch_cases/strip", "tolerance_switch_cases/lenient", "name_with_trailing_blank_refused_under_strip_header_spaces",
                "interim_sequences", "interim_sequences_must_refuse", "interim_must_refuse_refused")
    q = tier == "quick"
    shards = [{"kind": "enum", "sub": i, "of": 16, "seed": seed, "tier": tier} for i in range(16)]
    shards += [{"kind": "rand", "n": 1500 if q else 20000, "sub": i, "seed": seed, "tier": tier}
               for i in range(16 if q else 48)]
    run.assumptions = [
        "acceptance of a valid header is never demanded; what is demanded is that refused text never reaches the wire and that an accepted head is exactly the server's lines plus the application's",
        "control characters other than CR/LF/NUL in a value may be refused or forwarded on their own line (EITHER)",
        "headers of a superseded first start_response call (exc_info retry before any byte) are tolerated in the head (PEP 3333 conformance, not response splitting)",
        "Upgrade: websocket is forwarded and Connection: upgrade reflected (documented websocket support)",
        "strip_header_spaces and the other request-side tolerance switches are documented for what the server accepts from clients; the rules for application-supplied text are the same under them",
        "interim status followed by a final status: neither taking nor refusing the second call is demanded; every head that reaches the client must be a status line the application gave plus the server's lines plus that call's accepted headers in order, and nothing of a call that has to be refused",
    ]
    run.extra_cov["exhaustive_subspace"] = "field x position x injected character (3 x 3 x %d) x 3 loops x 2 versions" % len(INJECT)
    common.run_sharded(run, shards, timeout=900 if q else 7200)
    return run.finish()


def replay(path):
    from vlib import e2_worker as e2
    with open(path) as f:
        rec = json.load(f)
    run = Run(PROP, "quick", 0, "exploration", RULE)
    hs = {}
    try:
        v, out = run_case(run, e2, hs, rec["case"])
    finally:
        for h in hs.values():
            h.close()
    print("wire:", hexs(out["received"][:500]))
    for mech, s in v:
        print("VIOLATION property=%s replay=%s\n  %s %s" % (PROP, path, mech, s))
    if not v:
        print("no violation on replay")
    return 1 if v else 0
