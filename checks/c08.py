"""C08 Only trusted peers can set scheme, script name or client address.

Monitor: environ snapshots taken by a scripted application inside real worker loops (E2), for every
request of a (keep-alive) connection, versus a reference mapping of configuration + socket peer +
raw header lines + position in the connection.  Header values are unique tokens, so a joined
environ value reveals exactly which header lines fed it.
"""
import json

from vlib import common
from vlib.common import Run, rng_for, hexs

PROP = "C08"
RULE = ("case = (worker loop, peer in {127.0.0.1, ::1, 10.9.8.7, unix}, forwarded_allow_ips, proxy_allow_ips, "
        "proxy_protocol, forwarder_headers, secure_scheme_headers, header_map in {drop, refuse}, PROXY line or not, 1-3 "
        "requests with header sets built from hyphen/underscore/case spelling variants carrying unique value tokens, "
        "optionally a second PROXY line in front of the 2nd/3rd request; forwarded_allow_ips given as a setting or - in "
        "shards of their own - only through the FORWARDED_ALLOW_IPS environment variable, empty included); "
        "every case is non-trivial; distinct = sha1(case)")

PEERS = {
    "lo4": ("127.0.0.1", 41000),
    "lo6": ("::1", 41001, 0, 0),
    "ext": ("10.9.8.7", 41002),
    "unix": "",
    # addresses that merely *look like* listed ones (prefix / substring of an allowed address)
    "ext-longer": ("10.9.8.70", 41003),
    "lo4-longer": ("127.0.0.10", 41004),
    "ext-shorter": ("10.9.8", 41005),
    "ext6": ("2001:db8::5", 41006, 0, 0),          # an IPv6 peer (4-tuple) that no allow list names
    # ... or that *end* with the text of a listed one, as peers of a dual-stack listener (IPv4-mapped) or as plain addresses
    "ext-mapped-suffix": ("::ffff:110.9.8.7", 41007, 0, 0),
    "ext-suffix": ("210.9.8.7", 41008),
    "lo6-suffix": ("2001:db8::1", 41009, 0, 0),
    "lo6-longer": ("::1:0", 41010, 0, 0),
    "lo4-mapped-suffix": ("::ffff:227.0.0.1", 41011, 0, 0),
}
ALLOW = ["127.0.0.1,::1", "*", "10.9.8.7", ""]
FWD_HEADERS = ["SCRIPT_NAME,PATH_INFO", "*", "", "X_CUSTOM,REMOTE_USER"]
SECURE = [None, {"X-SCHEME": "secure"}, {}]
DEFAULT_SECURE = {"X-FORWARDED-PROTOCOL": "ssl", "X-FORWARDED-PROTO": "https", "X-FORWARDED-SSL": "on"}
# what a client behind a TCP-mode front-end may write itself after its first request: addresses no opening line declares
MID_DECLARED = [["TCP4", "6.6.6.6", "10.2.2.2", 6666, 80], ["TCP6", "2001:db8::66", "::1", 6667, 443],
                ["TCP4", "127.0.0.1", "127.0.0.1", 6668, 80]]
# the FORWARDED_ALLOW_IPS environment variable as the only source of forwarded_allow_ips (None = not defined: documented
# default 127.0.0.1,::1; defined but empty = an empty list: no TCP peer is believed)
ENV_ROUTES = ["", None, "10.9.8.7", "", "*", ""]
ENV_DEFAULT = "127.0.0.1,::1"

BASES = ["X-Forwarded-Proto", "X-Forwarded-For", "X-Forwarded-Ssl", "X-Forwarded-Protocol", "Script-Name",
         "Path-Info", "Remote-User", "X-Custom", "X-Scheme", "X-Real-Ip", "Remote-Addr", "X-A-B"]


def variant(rng, base):
    s = base
    k = rng.random()
    if k < 0.35:
        s = s.replace("-", "_")
    elif k < 0.5:
        i = s.find("-")
        if i >= 0:
            s = s[:i] + "_" + s[i + 1:]
    k = rng.random()
    if k < 0.25:
        s = s.upper()
    elif k < 0.5:
        s = s.lower()
    return s


def make_case(rng):
    case = {
        "kind": rng.choice(["sync", "gthread", "gthread", "async", "async"]),
        "peer": rng.choice(list(PEERS)),
        "fwd_allow": rng.choice(ALLOW),
        "proxy_allow": rng.choice(ALLOW),
        "proxy_protocol": rng.random() < 0.5,
        "fwd_headers": rng.choice(FWD_HEADERS),
        "secure": rng.randrange(len(SECURE)),
        "header_map": rng.choice(["drop", "drop", "refuse", "refuse", "Drop", "DROP", "Refuse"]),
        "proxy_line": rng.random() < 0.45,
        "first_piece": rng.choice([1, 2, 3, 4, 5, 6, 7, 12, 30]) if rng.random() < 0.15 else 0,
    }
    n = 1 if case["kind"] == "sync" else rng.choice([1, 2, 3])
    reqs = []
    tok = 0
    for i in range(n):
        hdrs = []
        for _ in range(rng.randint(0, 6)):
            base = rng.choice(BASES)
            name = variant(rng, base)
            tok += 1
            val = "t%dx" % tok
            sec = SECURE[case["secure"]] if SECURE[case["secure"]] is not None else DEFAULT_SECURE
            if name.upper() in sec and rng.random() < 0.6:
                val = sec[name.upper()]
            elif base in ("Script-Name",) and rng.random() < 0.7:
                val = rng.choice(["/app", "/r%d" % i, "/"])
            hdrs.append([name, val])
        reqs.append({"path": "/r%d/app/x" % i if rng.random() < 0.5 else "/app/r%d" % i, "headers": hdrs})
    case["reqs"] = reqs
    # the client address a PROXY line declares is data, not identity: also sources that are themselves on the allow lists
    case["declared"] = rng.choice([["TCP4", "1.2.3.4", "5.6.7.8", 1111, 80], ["TCP6", "2001:db8::1", "::1", 2222, 443],
                                   ["TCP4", "127.0.0.1", "5.6.7.8", 3333, 80], ["TCP4", "10.9.8.7", "10.0.0.1", 4444, 8080],
                                   ["TCP6", "::1", "::1", 5555, 443]])
    # a(nother) PROXY line in the middle of the connection, in front of the second or third request
    case["mid_proxy"] = None
    if n > 1 and rng.random() < 0.25:
        case["mid_proxy"] = {"at": rng.randrange(1, n), "declared": rng.choice(MID_DECLARED)}
    # one secure-scheme header sent twice (what a front-end that appends instead of replacing produces): agreeing or contradicting
    if rng.random() < 0.12:
        sec = SECURE[case["secure"]] if SECURE[case["secure"]] is not None else DEFAULT_SECURE
        base = rng.choice(sorted(sec) or ["X-FORWARDED-PROTO"])
        r = rng.choice(reqs)
        vals = rng.choice([[sec.get(base, "https"), "http"], ["off", sec.get(base, "https")], [sec.get(base, "https")] * 2, ["http", "no"]])
        for val in vals:
            name = rng.choice([base, base.title(), base.lower()])
            r["headers"].insert(rng.randint(0, len(r["headers"])), [name, val])
    return case


def to_env_route(rng, case, value):
    """The same case with forwarded_allow_ips coming from the process environment only (the shard process was started with / set
    FORWARDED_ALLOW_IPS = value before gunicorn was imported); mostly peers the documented default would believe."""
    case["fwd_route"] = "env"
    case["fwd_env"] = value
    case["fwd_allow"] = ENV_DEFAULT if value is None else value
    if rng.random() < 0.6:
        case["peer"] = rng.choice(["lo4", "lo6", "lo4", "unix"])
    return case


def cfgset(case):
    c = {"keepalive": 2, "forwarded_allow_ips": case["fwd_allow"], "proxy_allow_ips": case["proxy_allow"],
         "proxy_protocol": case["proxy_protocol"], "forwarder_headers": case["fwd_headers"],
         "header_map": case["header_map"]}
    if case.get("fwd_route") == "env":
        del c["forwarded_allow_ips"]        # nothing sets it: the default applies, i.e. what the environment said at start
    if SECURE[case["secure"]] is not None:
        c["secure_scheme_headers"] = SECURE[case["secure"]]
    return c


def render(case):
    out = b""
    if case["proxy_line"]:
        d = case["declared"]
        out += ("PROXY %s %s %s %d %d\r\n" % tuple(d)).encode()
    mid = case.get("mid_proxy")
    for i, r in enumerate(case["reqs"]):
        if mid and mid["at"] == i:
            out += ("PROXY %s %s %s %d %d\r\n" % tuple(mid["declared"])).encode()
        out += ("GET %s HTTP/1.1\r\nHost: h\r\n" % r["path"]).encode()
        for n, v in r["headers"]:
            out += ("%s: %s\r\n" % (n, v)).encode()
        out += b"\r\n"
    return out


def allowed(peer, allow):
    if not isinstance(peer, tuple):
        return True
    items = [x.strip() for x in allow.split(",") if x.strip()]
    return "*" in items or peer[0] in items


def scheme_assertions(req, sec):
    """[(header name as sent, scheme it asserts)] for the lines of one request that are secure-scheme headers (exact names, any
    letter case; an underscore spelling is a different name)."""
    return [(n, "https" if val == sec[n.upper()] else "http") for n, val in req["headers"] if n.upper() in sec]


class Recorder:
    def __init__(self):
        self.envs = []

    def __call__(self, environ, start_response):
        self.envs.append({k: v for k, v in environ.items() if isinstance(v, str)})
        start_response("200 OK", [("Content-Length", "2")])
        return [b"ok"]


def judge(case, envs, out):
    v = []
    peer = PEERS[case["peer"]]
    trusted_fwd = allowed(peer, case["fwd_allow"])
    trusted_proxy = allowed(peer, case["proxy_allow"])
    fwd = [x.strip() for x in case["fwd_headers"].split(",") if x.strip()]
    # 2. PROXY line from an untrusted peer (or with the protocol off) must not be served
    if case["proxy_line"] and (not case["proxy_protocol"] or not trusted_proxy):
        if envs:
            v.append(("proxy-line-served-untrusted",
                      "PROXY line from peer %r (proxy_protocol=%s, proxy_allow_ips=%r) but %d request(s) reached the "
                      "application" % (peer, case["proxy_protocol"], case["proxy_allow"], len(envs))))
        return v
    # 2c. the same for a PROXY line in front of a later request: that request must not be served
    mid = case.get("mid_proxy")
    if mid and (not case["proxy_protocol"] or not trusted_proxy) and len(envs) > mid["at"]:
        v.append(("proxy-line-served-untrusted/mid-connection",
                  "PROXY line in front of request #%d from peer %r (proxy_protocol=%s, proxy_allow_ips=%r) but %d request(s) reached "
                  "the application" % (mid["at"], peer, case["proxy_protocol"], case["proxy_allow"], len(envs))))
    sec = SECURE[case["secure"]] if SECURE[case["secure"]] is not None else DEFAULT_SECURE
    for i, env in enumerate(envs):
        req = case["reqs"][i] if i < len(case["reqs"]) else None
        if req is None:
            v.append(("more-app-calls-than-requests", ""))
            break
        # 3 / 2b. client address: what held for the first request of the connection holds for every request of it
        redeclared = mid and i >= mid["at"] and env.get("REMOTE_ADDR") == mid["declared"][1] and \
            (env.get("REMOTE_ADDR"), env.get("REMOTE_PORT")) != (envs[0].get("REMOTE_ADDR"), envs[0].get("REMOTE_PORT"))
        if redeclared:
            v.append(("proxy-address-redeclared-mid-connection",
                      "request #%d arrived behind a PROXY line sent in the middle of the connection (%s) and was served with REMOTE_ADDR=%r "
                      "REMOTE_PORT=%r; the first request of the connection had %r:%r (%s)" % (
                          i, " ".join(str(x) for x in mid["declared"]), env.get("REMOTE_ADDR"), env.get("REMOTE_PORT"),
                          envs[0].get("REMOTE_ADDR"), envs[0].get("REMOTE_PORT"),
                          "declared by the opening PROXY line" if case["proxy_line"] else "the socket peer")))
        elif case["proxy_line"]:
            d = case["declared"]
            if env.get("REMOTE_ADDR") != d[1] or env.get("REMOTE_PORT") != str(d[3]):
                v.append(("proxy-address-lost/request-%d" % min(i, 1),
                          "request #%d of a PROXY connection (declared client %s:%d): REMOTE_ADDR=%r REMOTE_PORT=%r" % (
                              i, d[1], d[3], env.get("REMOTE_ADDR"), env.get("REMOTE_PORT"))))
        else:
            want_addr = peer[0] if isinstance(peer, tuple) else peer
            if env.get("REMOTE_ADDR") != want_addr or (isinstance(peer, tuple) and env.get("REMOTE_PORT") != str(peer[1])):
                v.append(("remote-addr-not-socket-peer", "request #%d: REMOTE_ADDR=%r REMOTE_PORT=%r, socket peer %r" % (
                    i, env.get("REMOTE_ADDR"), env.get("REMOTE_PORT"), peer)))
        # 5. secure-scheme header lines of a trusted peer that contradict each other (two headers, or one header twice): whatever
        # scheme such a request were served with, only some of the lines assert it
        if trusted_fwd:
            asserted = scheme_assertions(req, sec)
            if len(set(s for _, s in asserted)) > 1:
                v.append(("conflicting-scheme-headers-served",
                          "request #%d from the trusted peer %r carries scheme headers that contradict each other %r and reached the "
                          "application with wsgi.url_scheme=%r" % (i, peer, asserted, env.get("wsgi.url_scheme"))))
        # 1. scheme and script name from an untrusted peer
        if not trusted_fwd:
            if env.get("wsgi.url_scheme") != "http":
                v.append(("scheme-set-by-untrusted-peer", "request #%d from %r: wsgi.url_scheme=%r, headers=%r" % (
                    i, peer, env.get("wsgi.url_scheme"), req["headers"])))
        script_allowed = trusted_fwd and ("*" in fwd or "SCRIPT_NAME" in fwd)
        if not script_allowed:
            if env.get("SCRIPT_NAME") != "" or env.get("PATH_INFO") != req["path"]:
                v.append(("script-name-set-without-trust",
                          "request #%d from %r (forwarder_headers=%r): SCRIPT_NAME=%r PATH_INFO=%r for path %r, headers=%r" % (
                              i, peer, case["fwd_headers"], env.get("SCRIPT_NAME"), env.get("PATH_INFO"), req["path"],
                              req["headers"])))
        # 4. no two differently spelled names in one variable
        tokmap = {}
        for n, val in req["headers"]:
            if val.startswith("t") and val.endswith("x") and val[1:-1].isdigit():     # unique tokens only
                tokmap.setdefault(val, set()).add(n.upper())
        for k, val in env.items():
            if not k.startswith("HTTP_"):
                continue
            names = set()
            for piece in val.replace(", ", ",").split(","):
                for n in tokmap.get(piece, ()):
                    if "HTTP_" + n.replace("-", "_") == k:
                        names.add(n)
            if len(names) > 1:
                exempt = trusted_fwd and all(("_" not in n) or n in fwd or "*" in fwd for n in names)
                if exempt:
                    continue
                v.append(("ambiguous-header-mapping", "request #%d: %s=%r was fed by differently spelled names %s" % (
                    i, k, val, sorted(names))))
        # 4b. refuse mode: an underscore name (not a trusted forwarder header) must not be served
        if case["header_map"].lower() == "refuse":
            bad = [n for n, _ in req["headers"] if "_" in n and not (trusted_fwd and (n.upper() in fwd or "*" in fwd))]
            if bad:
                v.append(("underscore-served-in-refuse-mode", "request #%d with %s reached the application" % (i, bad)))
    return v


def run_case(run, e2, harnesses, case):
    cs = cfgset(case)
    key = (case["kind"], json.dumps(cs, sort_keys=True))
    h = harnesses.get(key)
    if h is None:
        if len(harnesses) > 40:
            k0 = next(iter(harnesses))
            harnesses.pop(k0).close()
        h = harnesses[key] = e2.Harness(case["kind"], cs)
    app = Recorder()
    stream = render(case)
    seg = None
    if case.get("first_piece"):
        # the connection's first bytes arrive in two pieces (the first read returns only the first few bytes): who may write a PROXY
        # line, a scheme header or a script name does not depend on how the bytes travel
        k = min(case["first_piece"], len(stream) - 1)
        if k > 0:
            seg = [k, len(stream) - k]
            run.count("first_read_returns_a_few_bytes_only")
    out = h.connection(stream, app, peer=PEERS[case["peer"]], segments=seg, segment_delay=0.02 if seg else 0.0)
    v = judge(case, app.envs, out)
    peer = PEERS[case["peer"]]
    run.count("app_calls", len(app.envs))
    if len(app.envs) > 1:
        run.count("second_or_later_request_served")
    if case["proxy_line"] and app.envs:
        run.count("proxy_connection_served")
        if len(app.envs) > 1:
            run.count("proxy_connection_second_request")
    if case["proxy_line"] and not app.envs:
        run.count("proxy_connection_refused")
    if not allowed(peer, case["fwd_allow"]) and app.envs:
        run.count("untrusted_fwd_peer_served")
    if any("_" in n for r in case["reqs"] for n, _ in r["headers"]) and app.envs:
        run.count("underscore_headers_served")
    mid = case.get("mid_proxy")
    if mid and len(app.envs) >= mid["at"]:
        # every request in front of the second PROXY line was served: the line was looked at
        run.count("mid_connection_proxy_line_cases")
        if len(app.envs) == mid["at"]:
            run.count("mid_connection_proxy_line_refused")
        if case["proxy_line"]:
            run.count("mid_connection_proxy_line_after_opening_line")
    if allowed(peer, case["fwd_allow"]):
        sec = SECURE[case["secure"]] if SECURE[case["secure"]] is not None else DEFAULT_SECURE
        for i, r in enumerate(case["reqs"][:len(app.envs) + 1]):
            a = scheme_assertions(r, sec)
            if len(set(s_ for _, s_ in a)) > 1 and i == len(app.envs) and not (mid and mid["at"] <= i) \
                    and not any("_" in n_ for n_, _ in r["headers"]):
                # (nothing else about this request asks for a refusal)
                run.count("trusted_scheme_conflict_refused")
                if any(len(set(s_ for n_, s_ in a if n_.upper() == n0.upper())) > 1 for n0, _ in a):
                    run.count("trusted_scheme_conflict_same_header_twice_refused")
            elif a and i < len(app.envs):
                run.count("trusted_scheme_headers_agreeing_served")
    if case.get("fwd_route") == "env":
        run.count("fwd_allow_from_environment_cases")
        if case["fwd_env"] == "" and app.envs:
            run.count("fwd_allow_empty_in_environment_served")
            if case["peer"] in ("lo4", "lo6"):
                run.count("fwd_allow_empty_in_environment_loopback_peer_served")
    return v, out, app


def environment_route(sh):
    """forwarded_allow_ips through the FORWARDED_ALLOW_IPS environment variable only: the variable has to be in place when gunicorn's
    configuration module is first imported (the documented default of the setting is computed from it), i.e. in a process that has not
    imported gunicorn yet - a shard process at its start."""
    import os
    import sys
    if "gunicorn.config" in sys.modules:
        raise RuntimeError("gunicorn.config was imported before the FORWARDED_ALLOW_IPS route could be set up")
    if sh["fwd_env"] is None:
        os.environ.pop("FORWARDED_ALLOW_IPS", None)
    else:
        os.environ["FORWARDED_ALLOW_IPS"] = sh["fwd_env"]


LIVE_ENV_APP = '''
import json
def app(environ, start_response):
    body = json.dumps({k: environ.get(k) for k in ("wsgi.url_scheme", "SCRIPT_NAME", "PATH_INFO", "REMOTE_ADDR")}).encode() + b"|END"
    start_response("200 OK", [("Content-Length", str(len(body)))])
    return [body]
'''


def live_scenario(run, wc):
    """The allow lists of a running server: after a reload that narrows them the new workers use the new lists; after a reload
    that the server refuses (a broken configuration file) whatever serves afterwards still does not believe an unlisted peer."""
    import os
    import signal
    import time
    from vlib import e4_live as e4
    v = []
    settings = {"forwarded_allow_ips": "127.0.0.1", "proxy_allow_ips": "127.0.0.1", "graceful_timeout": 2, "timeout": 30}
    if wc == "gthread":
        settings["threads"] = 2
    srv = e4.Server("c08", worker_class=wc, workers=2, settings=settings, app_source=e4.APP_SOURCE + LIVE_ENV_APP)
    raw = b"GET /app/x HTTP/1.1\r\nHost: h\r\nX-Forwarded-Proto: https\r\nSCRIPT_NAME: /app\r\nConnection: close\r\n\r\n"

    def ask():
        r = e4.request(srv.addr, raw=raw, timeout=6)
        if r["outcome"] != "ok":
            return None
        try:
            return json.loads(e4.body_of(r["data"])[:-4])
        except ValueError:
            return None
    try:
        srv.start()
        if not srv.wait_workers(2, 25) or not srv.wait_listening(5):
            return v, "server did not boot"
        e0 = ask()
        if not e0 or e0["wsgi.url_scheme"] != "https":
            return v, "the listed peer is not believed at the start: %r" % (e0,)
        # 1. a reload narrows the lists: 127.0.0.1 is no longer on them
        srv.write_conf(forwarded_allow_ips="10.1.1.1", proxy_allow_ips="10.1.1.1")
        w_before = set(srv.worker_pids())
        srv.signal(signal.SIGHUP)
        t0 = time.monotonic()
        while time.monotonic() - t0 < 12 and (set(srv.worker_pids()) & w_before or len(srv.worker_pids()) != 2):
            time.sleep(0.1)
        srv.wait_workers(2, 10)
        e1 = ask()
        if e1 is None:
            return v, "no answer after the first reload"
        run.count("live_reload_narrowing_checks")
        if e1["wsgi.url_scheme"] != "http" or e1["SCRIPT_NAME"] != "":
            v.append(("live/unlisted-peer-believed-after-reload", "%s: after a reload that took 127.0.0.1 off forwarded_allow_ips a request from "
                      "it gives %r" % (wc, e1)))
        # 2. a reload the server refuses: a value its validator rejects, above everything else in the file
        # (the allow list itself gets a value its validator rejects; everything above it in the file - the address - is intact)
        srv.write_conf(forwarded_allow_ips=5)
        srv.signal(signal.SIGHUP)
        time.sleep(2.5)
        run.count("live_refused_reload_checks")
        if e4.alive(srv.master_pid):
            for _ in range(4):
                e2_ = ask()
                if e2_ is not None and (e2_["wsgi.url_scheme"] != "http" or e2_["SCRIPT_NAME"] != ""):
                    v.append(("live/unlisted-peer-believed-after-refused-reload", "%s: the configuration file became invalid, the reload was "
                              "refused, and now a request from the unlisted 127.0.0.1 gives %r" % (wc, e2_)))
                    break
        return v, None
    finally:
        srv.cleanup()


def shard(sh):
    if sh.get("kind") == "env":
        environment_route(sh)
    from vlib import e2_worker as e2
    run = Run(PROP, sh.get("tier", "quick"), sh["seed"], "exploration", RULE)
    if sh.get("kind") == "live":
        reason = None
        for attempt in range(2):
            v, reason = live_scenario(run, sh["class"])
            if reason is None or v:
                break
        run.case(("live", sh["class"]))
        run.count("live_scenarios")
        for mech, summary in v:
            run.violation(mech, summary, {"live": sh["class"]})
        if reason is not None and not v:
            run.inconclusive_because("live scenario (%s): %s" % (sh["class"], reason))
        return run
    rng = rng_for(sh["seed"], "c08", sh["sub"])
    hs = {}
    try:
        for k in range(sh["n"]):
            if run.enough():
                break
            case = make_case(rng)
            if sh.get("kind") == "env":
                case = to_env_route(rng, case, sh["fwd_env"])
            run.case(common.sha12(case))
            v, out, app = run_case(run, e2, hs, case)
            for mech, summary in v:
                run.violation(mech, summary + " | loop=%s" % case["kind"], case)
            if k < 1:
                run.sample({"case": {k2: v2 for k2, v2 in case.items() if k2 != "reqs"},
                            "wire": hexs(render(case)[:300]),
                            "environ_seen": [{k2: e.get(k2) for k2 in ("REMOTE_ADDR", "wsgi.url_scheme", "SCRIPT_NAME", "PATH_INFO")}
                                             for e in app.envs]})
    finally:
        for h in hs.values():
            h.close()
    return run


def main(tier, seed):
    run = Run(PROP, tier, seed, "exploration", RULE)
    run.require("app_calls", "first_read_returns_a_few_bytes_only", "second_or_later_request_served", "proxy_connection_served", "proxy_connection_second_request",
                "proxy_connection_refused", "untrusted_fwd_peer_served", "underscore_headers_served", "live_reload_narrowing_checks",
                "live_refused_reload_checks", "mid_connection_proxy_line_cases", "mid_connection_proxy_line_refused",
                "mid_connection_proxy_line_after_opening_line", "trusted_scheme_conflict_refused",
                "trusted_scheme_conflict_same_header_twice_refused", "trusted_scheme_headers_agreeing_served",
                "fwd_allow_from_environment_cases", "fwd_allow_empty_in_environment_loopback_peer_served")
    q = tier == "quick"
    shards = [{"n": 1200 if q else 15000, "sub": i, "seed": seed, "tier": tier} for i in range(32 if q else 64)]
    # forwarded_allow_ips from the environment variable only (one value per process)
    shards += [{"kind": "env", "fwd_env": val, "n": 400 if q else 4000, "sub": "env%d" % i, "seed": seed, "tier": tier}
               for i, val in enumerate(ENV_ROUTES)]
    classes = ["sync", "gthread", "gevent", "eventlet"]
    shards = [{"kind": "live", "class": c, "seed": seed, "tier": tier, "sub": 0}
              for c in (classes if not q else [classes[seed % 4], classes[(seed + 2) % 4]])] + shards
    run.assumptions = [
        "listener is plain HTTP, process SCRIPT_NAME is empty: an untrusted peer must always see url_scheme=http, SCRIPT_NAME='' and PATH_INFO=path",
        "underscore names listed in forwarder_headers coming from a trusted peer are mapped regardless of header_map (documented) - not judged as ambiguous",
        "a request of a trusted peer whose secure-scheme header lines contradict each other (two headers, or two lines of one header) must not reach the application: any scheme it were served with is asserted by only some of the lines (documented: refused). That agreeing lines of a trusted peer do set https is documented behaviour outside the statement's 'only when' and is not judged",
        "a PROXY line is an opening line: what the first request of a connection was served with as client address (declared or socket peer) holds for every later request; a PROXY line in front of a later request must not change it (the unchanged server refuses that request)",
        "FORWARDED_ALLOW_IPS in the environment is the documented default of forwarded_allow_ips: defined but empty = empty list (only unix-socket peers are believed), not defined = 127.0.0.1,::1",
        "peers are what the (fake) listener's accept() returns: IPv4/IPv6 tuples or '' for a unix socket",
    ]
    common.run_sharded(run, shards, timeout=900 if q else 7200)
    return run.finish()


def replay(path):
    with open(path) as f:
        rec = json.load(f)
    if rec["case"].get("fwd_route") == "env":
        environment_route(rec["case"])
    from vlib import e2_worker as e2
    run = Run(PROP, "quick", 0, "exploration", RULE)
    if "live" in rec["case"]:
        v, reason = live_scenario(run, rec["case"]["live"])
        print("inconclusive:", reason)
        for mech, s in v:
            print("VIOLATION property=%s replay=%s\n  %s %s" % (PROP, path, mech, s))
        if not v:
            print("no violation on replay")
        return 1 if v else 0
    hs = {}
    try:
        v, out, app = run_case(run, e2, hs, rec["case"])
    finally:
        for h in hs.values():
            h.close()
    print("wire:", hexs(render(rec["case"])[:500]))
    print("environs:", [{k2: e.get(k2) for k2 in ("REMOTE_ADDR", "REMOTE_PORT", "wsgi.url_scheme", "SCRIPT_NAME", "PATH_INFO")} for e in app.envs])
    for mech, s in v:
        print("VIOLATION property=%s replay=%s\n  %s %s" % (PROP, path, mech, s))
    if not v:
        print("no violation on replay")
    return 1 if v else 0
