"""C10 Reload (HUP) replaces every worker without refusing or cutting a request.

Monitor (E4): a real master under continuous client load of short and long requests (one connection
per request); the harness rewrites the config file (workers, GEN marker via raw_env) and sends 1-3
HUPs at seeded instants; every client operation is logged and classified; afterwards the process
table, the hook event log and probe requests are compared with the new configuration.  Further
shapes: a client that keeps ONE connection and sends request after request on it across the reload
(the application logs every request it is entered for), a pool of several dozen workers reloaded
again and again (every old worker leaves at the same moment), and a second HUP with a changed file
that arrives while the first reload is still forking (slow pre_fork hook).  Pool-full shape (run_pool_full):
one worker of a concurrent class whose worker_connections (1-3) places are all taken by requests the
application has been entered for (held at a gate), further clients connected behind them, then the HUP;
the requests are released once the old worker has given up the listening socket.
"""
import json
import os
import signal
import threading
import time

from vlib import common
from vlib.common import Run, rng_for

PROP = "C10"
LARGE_POOL = int(os.environ.get("C10_LARGE_POOL", "40"))
LARGE_POOL_HUPS = int(os.environ.get("C10_LARGE_POOL_HUPS", "8"))
RULE = ("scenario = (worker class, HUP timing vector incl. two HUPs 50 ms apart, sequence of (workers, GEN) configurations, "
        "client mix of short and 0.4-1.2 s requests from 8 concurrent clients, optionally one client reusing a single keep-alive "
        "connection, two pools of 40 workers reloaded 8 times in a row, a HUP landing while the previous reload forks, a HUP while the single gevent / eventlet / gthread worker holds worker_connections (1-3) "
        "requests inside the application and more clients wait behind them); distinct = scenario "
        "tuple; non-trivial = at least one request overlapping a HUP (measured)")


def listener_inodes(srv):
    out = set()
    try:
        if srv.bind_kind in ("tcp", "both"):
            want = "%04X" % srv.port
            for fn in ("/proc/net/tcp",):
                with open(fn) as f:
                    next(f)
                    for line in f:
                        p = line.split()
                        if p[3] == "0A" and p[1].endswith(":" + want):
                            out.add(p[9])
        else:
            with open("/proc/net/unix") as f:
                next(f)
                for line in f:
                    p = line.split()
                    if len(p) >= 8 and p[7] == srv.sockpath:
                        out.add(p[6])
    except OSError:
        pass
    return out


def master_socket_inodes(pid):
    out = set()
    try:
        for fd in os.listdir("/proc/%d/fd" % pid):
            try:
                t = os.readlink("/proc/%d/fd/%s" % (pid, fd))
            except OSError:
                continue
            if t.startswith("socket:["):
                out.add(t[8:-1])
    except OSError:
        pass
    return out


def client_loop(e4, srv, stop, log, rng_seed, idx, mix=None, addr=None):
    rng = rng_for(rng_seed, "c10-client", idx)
    addr = srv.addr if addr is None else addr
    n = 0
    while not stop.is_set():
        n += 1
        if mix == "short":
            path = "/pid"
        elif rng.random() < 0.35:
            d = rng.choice([0.4, 0.8, 1.2])
            path = "/sleep/%s" % d
        else:
            path = "/pid"
        r = e4.request(addr, path, timeout=15)
        r["client"] = idx
        log.append(r)
        if r["outcome"] in ("refused", "error"):
            time.sleep(0.01)


def keepalive_client(e4, srv, stop, klog, idx, nap):
    """One HTTP/1.1 connection, request after request without 'Connection: close'; a new connection only after the server
    announced 'Connection: close', closed the connection or failed a request.  Every request carries its own tag, which the
    application writes to the phase log when it is entered for it."""
    s = None
    n = nth = conn = 0
    while not stop.is_set():
        n += 1
        tag = "k%d-%d" % (idx, n)
        if s is None:
            nth = 0
            conn += 1
            try:
                s = e4.connect(srv.addr, 5)
            except OSError as e:
                klog.append({"tag": tag, "outcome": "refused", "err": repr(e), "data": b"", "nth": 0, "conn": (idx, conn),
                             "t_call": time.monotonic(), "t_done": time.monotonic()})
                time.sleep(0.01)
                continue
        r = e4.request(srv.addr, "/nap/%s/%s" % (nap, tag), sock=s, close=False, timeout=15)
        r["tag"] = tag
        r["nth"] = nth
        r["conn"] = (idx, conn)
        nth += 1
        klog.append(r)
        head = r["data"].split(b"\r\n\r\n")[0].lower()
        if r["outcome"] != "ok" or b"connection: close" in head:
            try:
                s.close()
            except OSError:
                pass
            s = None
    if s is not None:
        s.close()


def wait_replaced(e4, srv, old, n, timeout):
    """After a HUP: n booted workers, none of them from the old pool (None: it did not happen in time)."""
    t0 = time.monotonic()
    while time.monotonic() - t0 < timeout and e4.alive(srv.master_pid):
        w = srv.wait_workers(n, 1.0)
        if w and not (set(w) & set(old)):
            return w
        time.sleep(0.02)
    return None


def run_scenario(run, e4, sc):
    v = []
    info = {}
    wc = sc["class"]
    gens = sc["configs"]            # [(workers, gen)] - first is the initial configuration
    graceful = sc.get("graceful", 10)
    settings = {"graceful_timeout": graceful, "timeout": sc.get("timeout", 30), "raw_env": ["GEN=%d" % gens[0][1]]}
    if sc.get("keepalive"):
        settings["keepalive"] = sc["keepalive"]
    if wc == "gthread":
        settings["threads"] = sc.get("threads", 4)
    conf_extra = ""
    if sc.get("slow_prefork"):
        # widen the time the master spends forking the new pool (a pre_fork hook that does work)
        conf_extra = ("def pre_fork(server, worker):\n    _ev('pre_fork', age=worker.age)\n"
                      "    import time as _t\n    _t.sleep(%s)\n    _ev('pre_fork_done', age=worker.age)\n" % sc["slow_prefork"])
    if sc.get("leave_jitter"):
        # a worker_exit hook that takes 0 .. leave_jitter seconds depending on the pid: the workers of a retired pool do not leave
        # in the order in which they were told to, and the master is still walking its list while some of them go
        conf_extra += ("def worker_exit(server, worker):\n    import time as _t, os as _o\n"
                       "    _t.sleep((_o.getpid() * 2654435761 %% 1000) / 1000.0 * %s)\n" % sc["leave_jitter"])
    if sc.get("slow_boot"):
        # widen the window between fork() and the worker installing its own signal handlers
        conf_extra += ("def post_fork(server, worker):\n    _ev('post_fork', age=worker.age, wpid=worker.pid)\n"
                      "    import time as _t\n    _t.sleep(%s)\n" % sc["slow_boot"])
    server_kw = {}
    if sc.get("conf_ref"):
        # the configuration file is not named by an absolute path: `-c gunicorn.conf.py` relative to the directory the server is
        # started in, or not named at all (the default ./gunicorn.conf.py of that directory), and the file itself sends the server
        # to another working directory (`chdir`): every reload has to find the same file again
        server_kw["default_conf"] = True
        if sc["conf_ref"] != "default":
            server_kw["argv_extra"] = ["-c", sc["conf_ref"]]
    srv = e4.Server("c10", worker_class=wc, workers=gens[0][0], settings=settings, bind=sc["bind"], conf_extra=conf_extra, **server_kw)
    site = None
    if sc.get("conf_ref"):
        site = os.path.join(srv.dir, "site")
        os.mkdir(site)
        os.chmod(site, 0o777)
        srv.write_conf(chdir=site)
    lag = e4.LagProbe()
    lag.start()
    stop = threading.Event()
    threads = []
    try:
        srv.start()
        if not srv.wait_workers(gens[0][0], 40 if gens[0][0] > 8 else 25) or not srv.wait_listening(5):
            return v, "server did not boot: %s" % srv.stderr()[-300:], info
        if site:
            try:
                if os.path.realpath(os.readlink("/proc/%d/cwd" % srv.master_pid)) != os.path.realpath(site):
                    return v, "the master does not run in the directory its configuration file names (chdir)", info
            except OSError:
                return v, "the master's working directory cannot be read", info
        ino0 = listener_inodes(srv)
        mino0 = master_socket_inodes(srv.master_pid) & ino0
        if not mino0:
            return v, "could not identify the master's listening socket inode", info
        log = []
        for i in range(sc["clients"]):
            # two listeners: the requests in flight at the reload are on the first one, on the last one, or on both
            addr = None
            if srv.bind_kind == "both":
                tr = sc.get("traffic", "first")
                addr = srv.addr2 if tr == "last" or (tr == "all" and i % 2) else srv.addr
            t = threading.Thread(target=client_loop, args=(e4, srv, stop, log, sc["seed"], i, sc.get("client_mix"), addr), daemon=True)
            t.start()
            threads.append(t)
        klog = []
        for i in range(sc.get("keepalive_clients", 0)):
            t = threading.Thread(target=keepalive_client, args=(e4, srv, stop, klog, i, sc.get("nap", 0.2)), daemon=True)
            t.start()
            threads.append(t)
        # pool changes by signal before the reload: the reload must still end with the *configured* number
        for sig in sc.get("pre_signals", []):
            srv.signal(getattr(signal, "SIG" + sig))
            time.sleep(0.4)
        longres = {}
        if sc.get("long_request"):
            # a request longer than the worker timeout (legitimate for the concurrent worker classes) in flight at the HUP
            def long_req():
                longres["r"] = e4.request(srv.addr, "/sleep/%s" % sc["long_request"], timeout=sc["long_request"] + 15)
            lt = threading.Thread(target=long_req, daemon=True)
            lt.start()
            threads.append(lt)
            time.sleep(0.3)
        t_hups = []
        for (delay, (nw, gen)) in zip(sc["hup_delays"], gens[1:]):
            time.sleep(delay)
            srv.workers = nw
            srv.write_conf(raw_env=["GEN=%d" % gen])
            old_pool = srv.worker_pids()
            t_hups.append(time.monotonic())
            srv.signal(signal.SIGHUP)
            if sc.get("wait_replaced"):
                # the next HUP only once this one has replaced the whole pool (or the master is gone)
                if wait_replaced(e4, srv, old_pool, nw, 20):
                    run.count("reloads_of_a_large_pool_completed")
                if not e4.alive(srv.master_pid):
                    break
        final_workers, final_gen = gens[-1]
        time.sleep(max(3.0 + 1.3, (graceful + 2.0) if sc.get("keepalive_clients") else 0) + (sc.get("long_request") or 0))
        stop.set()
        for t in threads:
            t.join(20)
        t_q = time.monotonic()
        maxlag = lag.max_lag(since=t_hups[0])
        info["max_lag"] = round(maxlag, 3)
        # ---- client side ------------------------------------------------------------------------
        # the client that reuses one connection: its requests are judged like everybody's, except a request sent on an already
        # used connection that ended without a byte - that one is judged by whether the application was entered for it
        reused_lost = [r for r in klog if r["nth"] > 0 and r["outcome"] in ("empty", "reset") and not r["data"]]
        log = log + [r for r in klog if not any(r is x for x in reused_lost)]
        if klog:
            info["keepalive_requests"] = len(klog)
            info["keepalive_connections"] = len(set(r["conn"] for r in klog))
            run.count("keepalive_requests", len(klog))
            run.count("keepalive_responses_on_reused_connection", sum(1 for r in klog if r["nth"] > 0 and r["outcome"] == "ok"))
            entered = {m[4:]: (t, pid) for (t, pid, m) in srv.phases() if m.startswith("nap ")}
            forks0 = {e["wpid"]: e["t"] for e in srv.events() if e["kind"] == "post_fork"}
            for r in reused_lost:
                if r["tag"] in entered:
                    t_in, wpid = entered[r["tag"]]
                    v.append(("request-on-kept-alive-connection-not-answered",
                              "request number %d on a kept-alive connection, sent %.1f s after the HUP, was read (the application "
                              "was entered for it in worker %d, forked %s the HUP, %.2f s after it was sent) and the connection "
                              "ended %.2f s later with no byte of a response (%s; %s worker, keepalive %s, graceful_timeout %s)" % (
                                  r["nth"] + 1, r["t_call"] - t_hups[0], wpid,
                                  "before" if forks0.get(wpid, t_hups[0]) < t_hups[0] else "after", t_in - r["t_call"],
                                  r["t_done"] - t_in, r["outcome"], wc, sc.get("keepalive"), graceful)))
                else:
                    # the connection was closed while the request travelled: nobody had started to read it
                    run.count("keepalive_requests_unread_at_close")
            spans = set(r["conn"] for r in klog if r["t_call"] < t_hups[0]) & set(
                r["conn"] for r in klog if r["nth"] > 0 and r["t_call"] > t_hups[0])
            if spans:
                run.count("keepalive_connection_across_hup_checks")
        outcomes = {}
        overlapping = 0
        for r in log:
            outcomes[r["outcome"]] = outcomes.get(r["outcome"], 0) + 1
            if any(r["t_call"] <= th <= r["t_done"] for th in t_hups):
                overlapping += 1
        info["requests"] = len(log)
        info["outcomes"] = outcomes
        info["overlapping_a_hup"] = overlapping
        run.count("requests", len(log))
        run.count("requests_overlapping_hup", overlapping)
        refused = [r for r in log if r["outcome"] in ("refused", "error")]
        if refused:
            v.append(("connection-refused-during-reload", "%d of %d connection attempts failed (%s) around HUPs at %s" % (
                len(refused), len(log), refused[0].get("err") or refused[0]["outcome"],
                [round(r["t_call"] - t_hups[0], 2) for r in refused[:5]])))
        cut = [r for r in log if r["outcome"] in ("truncated",) or (r["outcome"] in ("reset", "timeout") and r["data"])]
        if cut:
            v.append(("response-cut-during-reload", "%d responses were cut after some bytes: %r" % (len(cut), cut[0]["data"][:100])))
        hung = [r for r in log if r["outcome"] == "timeout" and not r["data"]]
        if hung:
            v.append(("request-never-answered", "%d requests got no answer within 15 s" % len(hung)))
        dropped = [r for r in log if r["outcome"] in ("empty", "reset") and not r["data"]]
        if dropped:
            if wc == "sync":
                v.append(("accepted-connection-dropped/sync", "%d of %d connections were closed without a response (sync worker)" % (
                    len(dropped), len(log))))
            else:
                # a worker that leaves at a reload with connections it has accepted but not yet read (the same defect as at
                # max_requests, C18): recorded per worker class
                run.count("closed_without_bytes/" + wc, len(dropped))
                v.append(("accepted-connection-dropped-at-reload/" + wc, "%d of %d connections were closed without a byte of response "
                          "around the reload (%s worker)" % (len(dropped), len(log), wc)))
        if sc.get("long_request"):
            r = longres.get("r")
            if not r or r["outcome"] != "ok" or not e4.body_of(r["data"]).endswith(b"|END"):
                v.append(("long-request-cut-by-reload", "a %s s request in flight at the HUP on %s (worker timeout %s, graceful_timeout 10) "
                          "-> %s %r; WORKER TIMEOUT in log: %s" % (sc["long_request"], wc, sc.get("timeout"), r and r["outcome"],
                                                                 r and r["data"][:60], "WORKER TIMEOUT" in srv.error_log())))
            else:
                run.count("long_request_across_reload_checks")
        bad = [r for r in log if r["outcome"] == "ok" and (e4.status_of(r["data"]) != 200 or not e4.body_of(r["data"]).endswith(b"|END"))]
        if bad:
            v.append(("malformed-response-during-reload", "%r" % bad[0]["data"][:120]))
        # ---- listener ---------------------------------------------------------------------------
        ino1 = listener_inodes(srv)
        mino1 = master_socket_inodes(srv.master_pid) & ino1
        if not (mino0 & mino1):
            v.append(("listening-socket-replaced", "master's listening socket inode changed across HUP: %s -> %s" % (
                sorted(mino0), sorted(mino1))))
        else:
            run.count("listener_inode_unchanged_checks")
        if srv.bind_kind in ("unix", "both") and e4.alive(srv.master_pid):
            if not os.path.exists(srv.sockpath):
                v.append(("unix-socket-file-removed-during-reload", "the socket file vanished while the master and its new workers still listen on it"))
            else:
                r = e4.request(srv.sockpath, "/pid", timeout=5)
                if r["outcome"] != "ok":
                    v.append(("unix-listener-not-serving-after-reload", r["outcome"]))
                else:
                    run.count("unix_socket_after_reload_checks")
        # ---- pool -------------------------------------------------------------------------------
        if not e4.alive(srv.master_pid):
            v.append(("master-died-during-reload", srv.stderr()[-300:]))
            return v, None, info
        if site:
            run.count("relative_conf_with_chdir_reload_checks")
        deadline = time.monotonic() + 6
        live = srv.worker_pids()
        while time.monotonic() < deadline and len(live) != final_workers:
            time.sleep(0.2)
            live = srv.worker_pids()
        info["final_workers"] = len(live)
        if len(live) != final_workers:
            v.append(("pool-size-wrong-after-reload", "%d live workers, configuration says %d" % (len(live), final_workers)))
        forks = {e["wpid"]: e["t"] for e in srv.events() if e["kind"] == "post_fork"}
        old = [p for p in live if p in forks and forks[p] < t_hups[-1]]
        if old:
            v.append(("old-generation-worker-survives", "workers %s were forked before the last HUP and are still alive %.1f s "
                      "after it" % (old, time.monotonic() - t_hups[-1])))
        else:
            run.count("all_workers_new_checks")
        # ---- new configuration in effect ------------------------------------------------------------
        gens_seen = set()
        pids_seen = set()
        for _ in range(12):
            r = e4.request(srv.addr, "/pid", timeout=10)
            if r["outcome"] != "ok":
                v.append(("probe-after-reload-failed", r["outcome"]))
                break
            b = e4.body_of(r["data"]).decode("latin-1")
            gens_seen.add(b.split("gen=")[1].split()[0])
            pids_seen.add(int(b.split("pid=")[1].split()[0]))
        info["gens_seen"] = sorted(gens_seen)
        if gens_seen and gens_seen != {str(final_gen)}:
            v.append(("old-configuration-still-served", "responses after the reload report GEN %s, configured %d" % (
                sorted(gens_seen), final_gen)))
        elif gens_seen:
            run.count("new_generation_served_checks")
        if pids_seen - set(live):
            v.append(("response-from-unknown-worker", "pids %s answered, live workers %s" % (sorted(pids_seen), live)))
        if overlapping == 0:
            return v, "no request overlapped a HUP", info
        if klog and not spans:
            return v, "no kept-alive connection was in use both before and after the HUP", info
        if sc.get("slow_prefork") and len(t_hups) > 1:
            # did the second HUP arrive while the first reload was forking its workers? (hook timestamps, same clock)
            pf = sorted(e["t"] for e in srv.events() if e["kind"] == "pre_fork" and e["t"] > t_hups[0])
            pfd = sorted(e["t"] for e in srv.events() if e["kind"] == "pre_fork_done" and e["t"] > t_hups[0])
            n1 = gens[1][0]
            if len(pf) >= n1 and len(pfd) >= n1 and pf[0] < t_hups[1] < pfd[n1 - 1] - 0.05:
                run.count("hup_while_previous_reload_forks_checks")
            else:
                return v, "the second HUP did not arrive while the first reload was forking", info
        return v, None, info
    finally:
        stop.set()
        lag.stop_flag = True
        srv.cleanup()


def holds_listener(e4, pid, inodes):
    """Does the process still have one of these listening sockets open? (a dead process holds nothing)"""
    return bool(e4.alive(pid) and (master_socket_inodes(pid) & set(inodes)))


def run_pool_full(run, e4, sc):
    """The single worker of a concurrent class has as many requests inside the application as it may hold connections
    (worker_connections 1-3; optionally one of the places is taken by an idle kept-alive connection), further clients have
    connected behind them (some have sent a request, some nothing yet) - then the HUP arrives.  The requests wait at a gate of
    the harness application until the old worker has demonstrably begun to stop (it no longer holds the listening socket) and
    some more time has passed; only then are they released.  Judged: every request the application was entered for before
    the HUP gets its complete response from the old worker; nobody is refused; the old worker leaves, the new pool serves the
    new configuration.  The clients that were only waiting are counted, not judged (a connection that was accepted but not
    read is the territory of accepted-connection-dropped-at-reload)."""
    v = []
    info = {}
    wc = sc["class"]
    nconn = sc["worker_connections"]
    (w0, gen0), (nw, gen1) = sc["configs"]
    graceful = 40
    settings = {"graceful_timeout": graceful, "timeout": 60, "raw_env": ["GEN=%d" % gen0], "worker_connections": nconn,
                "keepalive": 20}
    # gunicorn's threaded worker counts a connection from accept() on and stops polling once it holds worker_connections of
    # them: the last place can only be taken by a connection that is accepted and not read (the first of the waiting clients)
    n_entered = nconn - (1 if sc.get("idle_keepalive") else 0) - (1 if wc == "gthread" else 0)
    if wc == "gthread":
        settings["threads"] = n_entered + sc.get("spare_threads", 0)
    srv = e4.Server("c10pf", worker_class=wc, workers=w0, settings=settings, bind=sc["bind"])
    lag = e4.LagProbe()
    lag.start()
    socks = []
    threads = []
    released = False
    tags = ["pf%d" % i for i in range(n_entered)]
    try:
        srv.start()
        w = srv.wait_workers(w0, 25)
        if not w or not srv.wait_listening(5):
            return v, "server did not boot: %s" % srv.stderr()[-300:], info
        old = w[0]
        ino0 = listener_inodes(srv)
        mino0 = master_socket_inodes(srv.master_pid) & ino0
        if not mino0:
            return v, "could not identify the master's listening socket inode", info
        if not holds_listener(e4, old, mino0):
            return v, "the worker does not hold the listening socket before the reload (observation not possible)", info
        # ---- fill the worker -----------------------------------------------------------------------
        if sc.get("idle_keepalive"):
            try:
                ks = e4.connect(srv.addr, 10)
            except OSError as e:
                return v, "could not connect for the idle kept-alive connection: %r" % e, info
            socks.append(ks)
            r = e4.request(srv.addr, "/pid", sock=ks, close=False, timeout=30)
            head = r["data"].split(b"\r\n\r\n")[0].lower()
            if r["outcome"] != "ok" or b"connection: close" in head:
                return v, "the connection that should stay idle and kept alive was not kept (%s)" % r["outcome"], info
        results = {}

        def gated(tag):
            results[tag] = e4.request(srv.addr, "/gate/%s" % tag, timeout=150)
        for tag in tags:
            t = threading.Thread(target=gated, args=(tag,), daemon=True)
            t.start()
            threads.append(t)
        for tag in tags:
            pid = srv.wait_phase("entered " + tag, 30)
            if pid != old:
                return v, "the application was not entered for every pool-filling request (%s: %s)" % (tag, pid), info
        # ---- further clients behind the full pool ---------------------------------------------------
        waiting = {}

        def waiter(i):
            waiting[i] = e4.request(srv.addr, "/pid", timeout=150)
        t_conn = []
        for i, kind in enumerate(sc["waiting"]):
            if kind == "silent":
                try:
                    socks.append(e4.connect(srv.addr, 10))
                    t_conn.append(time.monotonic())
                except OSError as e:
                    v.append(("connection-refused-during-reload", "a client connecting behind a full %s worker (worker_connections %d) "
                              "before the HUP was refused: %r" % (wc, nconn, e)))
            else:
                t = threading.Thread(target=waiter, args=(i,), daemon=True)
                t.start()
                threads.append(t)
        time.sleep(sc["hup_delays"][0])
        if not e4.alive(old) or any(t for t in threads[:len(tags)] if not t.is_alive()):
            return v, "a pool-filling request ended before the HUP", info
        # ---- reload --------------------------------------------------------------------------------
        srv.workers = nw
        srv.write_conf(raw_env=["GEN=%d" % gen1])
        t_hup = time.monotonic()
        srv.signal(signal.SIGHUP)
        # the new pool is forked (hook events, same clock) ...
        t0 = time.monotonic()
        forked = []
        while time.monotonic() - t0 < 40 and e4.alive(srv.master_pid):
            forked = [e for e in srv.events() if e["kind"] == "post_fork" and e["t"] > t_hup]
            if len(forked) >= nw:
                break
            time.sleep(0.03)
        # ... and the old worker has begun to stop: it gave up the listening socket (or is gone)
        t0 = time.monotonic()
        stopping = False
        while time.monotonic() - t0 < 40:
            if not holds_listener(e4, old, mino0):
                stopping = True
                break
            time.sleep(0.03)
        t_stop_seen = time.monotonic()
        time.sleep(sc["hold"])
        # ---- let the requests finish ----------------------------------------------------------------
        for tag in tags:
            srv.release(tag)
        released = True
        t_rel = time.monotonic()
        for s in socks:
            try:
                s.close()
            except OSError:
                pass
        for t in threads:
            t.join(160)
        maxlag = lag.max_lag(since=t_hup)
        info["max_lag"] = round(maxlag, 3)
        info["hup_to_new_pool_forked"] = round(max([e["t"] for e in forked] or [t_hup]) - t_hup, 2)
        info["hup_to_old_worker_stopping"] = round(t_stop_seen - t_hup, 2)
        errlog = srv.error_log()
        crashed = "Exception in worker process" in errlog
        # ---- the requests the application had been entered for ----------------------------------------
        entered = {m[8:]: (t, pid) for (t, pid, m) in srv.phases() if m.startswith("entered ")}
        answered = 0
        for tag in tags:
            r = results.get(tag)
            body = e4.body_of(r["data"]) if r else b""
            if r and r["outcome"] == "ok" and e4.status_of(r["data"]) == 200 and body == b"pid=%d done=%s|END" % (old, tag.encode()):
                answered += 1
                continue
            if r and r["outcome"] == "timeout" and maxlag > 1.0:
                return v, "scheduling lag %.1f s while a released request was awaited" % maxlag, info
            v.append(("entered-request-not-answered-at-reload/" + wc,
                      "request %s had been read and the application entered for it (worker %d, %.2f s before the HUP) when the reload came; "
                      "the worker's %d connection places were all taken and %d more clients had connected (%s); outcome: %s, %d bytes %r "
                      "%.2f s after the HUP (released %.2f s after the HUP; old worker seen stopping %.2f s after it); 'Exception in worker "
                      "process' in the error log: %s; exit reported: %s" % (
                          tag, old, t_hup - entered[tag][0], nconn, len(sc["waiting"]), ",".join(sc["waiting"]), r and r["outcome"],
                          len(r["data"]) if r else 0, (r["data"][:80] if r else b""), (r["t_done"] - t_hup) if r else -1, t_rel - t_hup,
                          t_stop_seen - t_hup, crashed,
                          sorted(set(ln.split("] ", 2)[-1].rstrip(".") for ln in errlog.splitlines()
                                     if "(pid:%d) exited" % old in ln or "(pid:%d) was sent" % old in ln))[:2])))
        info["entered_requests"] = len(tags)
        info["entered_requests_answered_by_old_worker"] = answered
        info["overlapping_a_hup"] = len(tags)
        run.count("requests", len(tags) + len(waiting))
        run.count("requests_overlapping_hup", len(tags))
        # ---- the clients that were waiting: nobody refused, nothing cut; what they got is only counted -----
        outc = {}
        for i, r in sorted(waiting.items()):
            outc[r["outcome"]] = outc.get(r["outcome"], 0) + 1
            if r["outcome"] in ("refused", "error"):
                v.append(("connection-refused-during-reload", "a client connecting behind a full %s worker (worker_connections %d) before "
                          "the HUP: %s %s" % (wc, nconn, r["outcome"], r.get("err"))))
            elif r["outcome"] == "truncated" or (r["outcome"] in ("reset", "timeout") and r["data"]):
                v.append(("response-cut-during-reload", "a client waiting behind a full %s worker at the HUP got a cut response: %r" % (
                    wc, r["data"][:100])))
            elif r["outcome"] == "ok":
                if e4.status_of(r["data"]) != 200 or not e4.body_of(r["data"]).endswith(b"|END"):
                    v.append(("malformed-response-during-reload", "%r" % r["data"][:120]))
                run.count("pool_full_waiting_clients_answered")
            else:
                run.count("pool_full_waiting_clients_closed_without_bytes/" + wc)
        info["waiting_clients"] = outc
        # ---- listener, pool, new configuration ----------------------------------------------------------
        if not e4.alive(srv.master_pid):
            v.append(("master-died-during-reload", srv.stderr()[-300:]))
            return v, None, info
        mino1 = master_socket_inodes(srv.master_pid) & listener_inodes(srv)
        if not (mino0 & mino1):
            v.append(("listening-socket-replaced", "master's listening socket inode changed across HUP: %s -> %s" % (
                sorted(mino0), sorted(mino1))))
        else:
            run.count("listener_inode_unchanged_checks")
        if len(forked) < nw:
            return v, "the new pool was not forked within 40 s of the HUP", info
        if not stopping:
            # nothing of this scenario can be said about a worker that never began to stop; whether it is retired at all is
            # judged below (and in every other scenario)
            info["old_worker_never_seen_stopping"] = True
        t0 = time.monotonic()
        while time.monotonic() - t0 < 30 and e4.alive(old):
            time.sleep(0.05)
        live = wait_replaced(e4, srv, [old], nw, 20) or srv.worker_pids()
        info["final_workers"] = len(live)
        if old in live:
            v.append(("old-generation-worker-survives", "worker %d was forked before the HUP and is still alive %.1f s after it and %.1f s "
                      "after its last request was released" % (old, time.monotonic() - t_hup, time.monotonic() - t_rel)))
        else:
            run.count("all_workers_new_checks")
        if len(live) != nw:
            v.append(("pool-size-wrong-after-reload", "%d live workers, configuration says %d" % (len(live), nw)))
        gens_seen = set()
        for _ in range(4):
            r = e4.request(srv.addr, "/pid", timeout=30)
            if r["outcome"] != "ok":
                v.append(("probe-after-reload-failed", r["outcome"]))
                break
            gens_seen.add(e4.body_of(r["data"]).decode("latin-1").split("gen=")[1].split()[0])
        info["gens_seen"] = sorted(gens_seen)
        if gens_seen and gens_seen != {str(gen1)}:
            v.append(("old-configuration-still-served", "responses after the reload report GEN %s, configured %d" % (sorted(gens_seen), gen1)))
        elif gens_seen:
            run.count("new_generation_served_checks")
        if not stopping:
            return v, "the old worker was never seen giving up the listening socket", info
        if t_rel - t_hup > graceful / 2.0:
            return v, "the requests were released only %.1f s after the HUP (graceful_timeout %d)" % (t_rel - t_hup, graceful), info
        if not v:
            run.count("pool_full_at_hup_checks")
            run.count("pool_full_at_hup/" + wc)
            run.count("pool_full_entered_requests_answered_by_old_worker", answered)
        return v, None, info
    finally:
        if not released:
            for tag in tags:
                try:
                    srv.release(tag)
                except OSError:
                    pass
        for s in socks:
            try:
                s.close()
            except OSError:
                pass
        lag.stop_flag = True
        srv.cleanup()


def scenarios(tier, seed):
    rng = rng_for(seed, "c10")
    out = []
    classes = ["sync", "gthread", "gevent", "eventlet"]
    reps = 1 if tier == "quick" else 5
    for rep in range(reps):
        for wc in classes:
            kind = rng.choice(["single", "double-fast", "two"]) if rep else ["single", "double-fast", "two", "single"][classes.index(wc)]
            w0 = rng.randint(1, 3)
            if kind == "single":
                configs = [(w0, 1), (rng.randint(1, 3), 2)]
                delays = [rng.choice([0.6, 1.0, 1.4])]
            elif kind == "double-fast":
                configs = [(w0, 1), (rng.randint(1, 3), 2), (rng.randint(1, 3), 3)]
                delays = [rng.choice([0.6, 1.0]), 0.05]
            else:
                configs = [(w0, 1), (rng.randint(1, 3), 2), (rng.randint(1, 3), 3)]
                delays = [rng.choice([0.6, 1.0]), rng.choice([0.7, 1.5])]
            out.append({"class": wc, "configs": configs, "hup_delays": delays, "clients": 8, "bind": rng.choice(["tcp", "unix"]),
                        "kind": kind})
        # both kinds of listener at once (the reload compares the bind lists); every class with a unix socket at least once
        # - with the requests in flight on one of the listeners only (the other idle) and on both
        rot = classes[(seed + rep + 1) % 4]
        for wc, traffic in ((rot, ["all", "last", "first"][(seed + rep) % 3]), ("gevent" if rot != "gevent" else "eventlet", "first"),
                            (["gthread", "eventlet", "gevent"][(seed + rep) % 3], "last")):
            out.append({"class": wc, "configs": [(2, 1), (2, 2)], "hup_delays": [0.6], "clients": 6, "bind": "both",
                        "kind": "two-listeners", "traffic": traffic})
        for wc in ("gthread", classes[(seed + rep) % 4]):
            out.append({"class": wc, "configs": [(2, 1), (rng.randint(1, 3), 2)], "hup_delays": [0.5], "clients": 6, "bind": "unix",
                        "kind": "unix-bind"})
        # a second HUP while the first one's workers are still booting (slow post_fork): the surplus workers must still go
        for wc in (classes[(seed + rep + 2) % 4], "gevent"):
            out.append({"class": wc, "configs": [(2, 1), (2, 2), (2, 3)], "hup_delays": [0.5, 0.2], "clients": 4, "bind": "tcp",
                        "kind": "double-slowboot", "slow_boot": 0.5})
        # TTIN / TTOU before a reload whose configuration keeps the same worker count
        for wc in ([classes[(seed + rep) % 4], classes[(seed + rep + 2) % 4]] if tier == "quick" else classes):
            w0 = rng.randint(1, 2)
            pre = rng.choice([["TTIN"], ["TTIN", "TTIN"], ["TTIN", "TTOU", "TTIN"]])
            out.append({"class": wc, "configs": [(w0, 1), (w0, 2)], "hup_delays": [0.5], "clients": 6, "bind": "tcp",
                        "kind": "ttin-then-hup", "pre_signals": pre})
        # a request longer than the worker timeout in flight at the reload (concurrent worker classes only)
        for wc in ("gthread", "gevent", "eventlet"):
            out.append({"class": wc, "configs": [(2, 1), (2, 2)], "hup_delays": [0.3], "clients": 4, "bind": "tcp",
                        "kind": "long-request", "timeout": 2, "long_request": 5})
        if tier == "quick":
            # every class also sees the other timing shapes over the seeds; one extra sync scenario with 3 HUPs
            out.append({"class": "sync", "configs": [(2, 1), (3, 2), (1, 3), (2, 4)], "hup_delays": [0.7, 0.05, 0.9], "clients": 8,
                        "bind": "tcp", "kind": "three"})
        # ---- shapes with their own generator (the scenarios above stay what they were) -----------------------------
        r3 = rng_for(seed, "c10-shapes", rep)
        # one client keeps a single connection busy with request after request across the reload, for longer than graceful_timeout
        # (the sync worker closes every connection after one response: nothing to reuse)
        for wc in (("gevent", "eventlet") if tier == "quick" else ("gthread", "gevent", "eventlet")):
            out.append({"class": wc, "configs": [(r3.randint(1, 2), 1), (r3.randint(1, 2), 2)], "hup_delays": [r3.choice([0.8, 1.2])],
                        "clients": 3, "bind": r3.choice(["tcp", "unix"]), "kind": "keepalive-client", "keepalive": 5, "graceful": 3,
                        "keepalive_clients": 1, "nap": r3.choice([0.2, 0.3])})
        # a large pool of idle workers that all leave at the same moment, reloaded again and again (each HUP once the previous
        # one has replaced the pool)
        pools = [("tcp", 0.010, LARGE_POOL), ("unix", 0.015, LARGE_POOL)]
        if rep:
            pools = [(r3.choice(["tcp", "unix"]), r3.choice([0.005, 0.010, 0.020]), r3.choice([16, 24, 56]))]
        for bind, jitter, pool in pools:
            out.append({"class": "sync", "configs": [(pool, g) for g in range(1, LARGE_POOL_HUPS + 2)],
                        "hup_delays": [0.5] + [0.05] * (LARGE_POOL_HUPS - 1), "clients": 2, "client_mix": "short",
                        "bind": bind, "kind": "large-pool", "wait_replaced": True, "leave_jitter": jitter})
        # a HUP with a changed file while the previous reload is still forking its workers (slow pre_fork hook)
        out.append({"class": r3.choice(classes), "configs": [(2, 1), (3, 2), (r3.choice([1, 2]), 3)], "hup_delays": [0.5, r3.choice([0.4, 0.6])],
                    "clients": 4, "bind": "tcp", "kind": "hup-while-forking", "slow_prefork": 0.4})
        # a threaded worker with fewer threads than it has clients: at the HUP requests that the worker has taken on are waiting for a
        # free thread behind running ones; the old worker still answers them (one worker, so that they all queue in the same place)
        out.append({"class": "gthread", "configs": [(1, 1), (r3.randint(1, 2), 2)], "hup_delays": [r3.choice([0.8, 1.1])], "clients": 6,
                    "bind": r3.choice(["tcp", "unix"]), "kind": "gthread-queued", "threads": r3.choice([1, 2])})
        # the configuration file is named relative to the start directory (or found there by default) and sets `chdir`: one or two reloads
        r4 = rng_for(seed, "c10-relative-conf", rep)
        refs = ["gunicorn.conf.py", "./gunicorn.conf.py", "default"]
        r4.shuffle(refs)
        for wc, ref in zip([classes[(seed + rep + 3) % 4], classes[(seed + rep + 1) % 4]], refs):
            n = r4.choice([1, 2])
            out.append({"class": wc, "configs": [(2, 1)] + [(r4.randint(1, 3), g + 2) for g in range(n)],
                        "hup_delays": [r4.choice([0.5, 0.8])] + [r4.choice([0.3, 1.2])] * (n - 1), "clients": 4,
                        "bind": r4.choice(["tcp", "unix"]), "kind": "relative-conf-chdir", "conf_ref": ref})
        # the worker's connection places (worker_connections 1-3) are all taken by requests the application has entered, further
        # clients have connected behind them, then the HUP: every concurrent worker class, one worker (so that the pool that is
        # full is known), requests held at a gate until the old worker has begun to stop
        r5 = rng_for(seed, "c10-pool-full", rep)
        for wc in ("eventlet", "gevent", "gthread"):
            nconn = r5.randint(2 if wc == "gthread" else 1, 3)
            out.append({"class": wc, "configs": [(1, 1), (r5.randint(1, 2), 2)], "hup_delays": [r5.choice([0.3, 0.5])],
                        "bind": r5.choice(["tcp", "unix"]), "kind": "pool-full", "worker_connections": nconn,
                        "waiting": r5.choice([["silent"], ["request"], ["silent", "request"], ["request", "silent", "request"]]),
                        "idle_keepalive": bool(nconn >= (3 if wc == "gthread" else 2) and r5.random() < 0.3), "hold": r5.choice([1.0, 1.5, 2.0]),
                        "spare_threads": r5.choice([0, 0, 1])})
    for i, sc in enumerate(out):
        sc["seed"] = seed
        sc["idx"] = i
    return out


def run_any(run, e4, sc):
    return (run_pool_full if sc.get("kind") == "pool-full" else run_scenario)(run, e4, sc)


def shard(sh):
    from vlib import e4_live as e4
    run = Run(PROP, sh.get("tier", "quick"), sh["seed"], "exploration", RULE)
    sc = sh["scenario"]
    reason = None
    for attempt in range(3):
        v, reason, info = run_any(run, e4, sc)
        if reason is None or v:
            break
        run.count("retries_after_inconclusive")
    run.case(json.dumps({k: sc.get(k) for k in ("class", "configs", "hup_delays", "bind", "kind", "pre_signals", "keepalive_clients",
                                                 "slow_prefork", "conf_ref", "threads", "worker_connections", "waiting", "idle_keepalive")},
                        sort_keys=True),
             nontrivial=info.get("overlapping_a_hup", 0) > 0)
    run.count("scenarios")
    run.count("class/" + sc["class"])
    run.count("kind/" + sc["kind"])
    if sc.get("traffic"):
        run.count("two_listeners_traffic/" + sc["traffic"])
    for mech, summary in v:
        run.violation(mech, summary + " | scenario=%s info=%s" % ({k: sc[k] for k in ("class", "configs", "hup_delays", "bind", "kind", "conf_ref")
                                                                   if k in sc}, info), sc)
    if reason is not None and not v:
        if "scheduling lag" in reason:
            run.count("cells_skipped_for_scheduling_lag")      # measured lag made the wall-clock judgement unsafe, three times
        else:
            run.inconclusive_because("scenario %s: %s" % (sc["idx"], reason))
    run.sample({"scenario": {k: sc[k] for k in ("class", "configs", "hup_delays", "bind")}, "observed": info}, cap=3)
    return run


def main(tier, seed):
    run = Run(PROP, tier, seed, "exploration", RULE)
    run.require("scenarios", "requests", "requests_overlapping_hup", "listener_inode_unchanged_checks", "all_workers_new_checks",
                "new_generation_served_checks", "class/sync", "class/gthread", "class/gevent", "class/eventlet", "kind/double-fast",
                "kind/ttin-then-hup", "long_request_across_reload_checks", "kind/two-listeners", "two_listeners_traffic/first", "two_listeners_traffic/last", "kind/unix-bind", "kind/double-slowboot",
                "kind/keepalive-client", "keepalive_responses_on_reused_connection", "keepalive_connection_across_hup_checks",
                "kind/large-pool", "reloads_of_a_large_pool_completed", "kind/hup-while-forking",
                "hup_while_previous_reload_forks_checks", "kind/relative-conf-chdir", "relative_conf_with_chdir_reload_checks",
                "kind/gthread-queued", "kind/pool-full", "pool_full_at_hup_checks", "pool_full_at_hup/eventlet",
                "pool_full_at_hup/gevent", "pool_full_at_hup/gthread", "pool_full_entered_requests_answered_by_old_worker")
    shards = [{"scenario": sc, "seed": seed, "tier": tier} for sc in scenarios(tier, seed)]
    run.assumptions = [
        "for non-sync workers a connection closed with zero response bytes is the accepted-but-not-yet-read case the statement does not cover: "
        "counted, inconclusive above 2% of requests",
        "quiescence = 4.3 s after the last HUP (longest request 1.2 s) plus up to 6 s for the pool size",
        "a request sent on an already used keep-alive connection that ends without a byte counts as 'started reading' only when the "
        "application's own log shows that it was entered for that request (per-request tag); otherwise it is the ordinary keep-alive "
        "race (connection closed while the request travelled) and is only counted",
        "relative-conf-chdir: the server is started as `gunicorn -c gunicorn.conf.py` (or with no -c: ./gunicorn.conf.py) in its scratch "
        "directory and the file sets `chdir` to a sub-directory from which that relative name does not resolve; judged like every other reload",
        "pool-full: 'the worker has started reading a request' is established by the application's own log (it was entered for the request "
        "before the HUP); the requests are held at a gate until the old worker no longer has the listening socket open plus 1-2 s, "
        "then released; clients that had only connected behind the full pool are counted, not judged",
        "hooks in the configuration file that take time (pre_fork 0.4 s, worker_exit 0-15 ms depending on the pid) are part of the "
        "environment: they widen windows, they do not change what the master has to do",
    ]
    common.run_sharded(run, shards, timeout=600 if tier == "quick" else 3600, nproc=min(8, common.NCPU))
    return run.finish()


def replay(path):
    from vlib import e4_live as e4
    with open(path) as f:
        rec = json.load(f)
    run = Run(PROP, "quick", 0, "exploration", RULE)
    v, reason, info = run_any(run, e4, rec["case"])
    print("info:", info, "inconclusive:", reason)
    for mech, s in v:
        print("VIOLATION property=%s replay=%s\n  %s %s" % (PROP, path, mech, s))
    if not v:
        print("no violation on replay")
    return 1 if v else 0
