"""Live part of C11 (engine E4): real heartbeat files, real worker loops of every worker class.

Hang kinds per class (a blocked application hangs only the sync worker; gthread / gevent / eventlet beat from their main
loop whatever the handlers do): sync {application blocks forever, application that ignores SIGABRT and blocks, SIGSTOP},
gthread {SIGSTOP}, gevent / eventlet {non-yielding busy loop, SIGSTOP}.  Healthy patterns: idle for 4 x timeout;
back-to-back requests each lasting 0.5 x timeout; (gthread / gevent / eventlet) one request lasting 3 x timeout in a handler.
Position of the hung worker: a stopped worker is the oldest, the youngest or a middle one of the pool (rotated); in every hang
scenario the workers that did not hang are the same live processes after the hung one was replaced, and one worker was started.
The master itself paused: the master alone is stopped (SIGSTOP) for 3.5 x timeout while its three workers run on, continued;
nobody may be killed for that; then one worker is stopped - killed and replaced within the same bounds as ever.
Idle on a listener the master did not create itself: the launcher (the process that becomes the master) opens the listening
socket in BLOCKING mode, as a socket-activating service manager does by default, and hands it over either the systemd way
(descriptor 3, LISTEN_FDS / LISTEN_PID) or as `--bind fd://N`; one request, idle for 4 x timeout, one more request.
Healthy workers with slow CLIENTS (client_paced; plain listener, TLS listener with do_handshake_on_connect off / on): two clients
stop inside their TLS ClientHello / after it / inside their request head / right after connecting and stay silent for 3 x
timeout while short requests of other clients go on (gthread, gevent, eventlet: one worker; it must be the same process
afterwards, no WORKER TIMEOUT, and it answers every short request meanwhile); clients that pause twice for 0.2 x timeout,
one after the other for 4 x timeout (every class, sync included).  Not included because the unchanged code does not beat
there: clients silent for longer than the timeout on a sync worker (it waits for the one client it has), and on a gthread
worker with do_handshake_on_connect (the handshake runs in its main loop).
"""
import os
import signal
import threading
import time

PROP = "C11"
TIMEOUT = 2

# run by the launcher before gunicorn starts (not again in a re-executed master): a bound, listening, blocking socket at
# descriptor %(fd)d; what was handed over is written down for the harness
PRELUDE = r'''
import os as _os, socket as _socket
if not _os.environ.get("GUNICORN_PID"):
    _addr = %(addr)r
    _s = _socket.socket(_socket.AF_INET if isinstance(_addr, tuple) else _socket.AF_UNIX, _socket.SOCK_STREAM)
    if isinstance(_addr, tuple):
        _s.setsockopt(_socket.SOL_SOCKET, _socket.SO_REUSEADDR, 1)
    _s.bind(_addr)
    _s.listen(64)
    if _s.fileno() != %(fd)d:
        _os.dup2(_s.fileno(), %(fd)d)
        _s.close()
    else:
        _s.detach()
    _os.set_inheritable(%(fd)d, True)
    if %(systemd)r:
        _os.environ["LISTEN_FDS"] = "1"
        _os.environ["LISTEN_PID"] = str(_os.getpid())
    with open(%(note)r, "w") as _f:
        _f.write("%%s %%d\n" %% ("blocking" if _os.get_blocking(%(fd)d) else "non-blocking", _os.fstat(%(fd)d).st_ino))
'''


def socket_inodes(pid):
    out = set()
    try:
        for fd in os.listdir("/proc/%d/fd" % pid):
            try:
                t = os.readlink("/proc/%d/fd/%s" % (pid, fd))
            except OSError:
                continue
            if t.startswith("socket:["):
                out.add(int(t[8:-1]))
    except OSError:
        pass
    return out


def proc_state(e4, pid):
    return e4.proc_table().get(pid, (None, None, None))[1]


def wait_state(e4, pid, want_stopped, maxwait=10.0):
    t0 = time.monotonic()
    while time.monotonic() - t0 < maxwait:
        st = proc_state(e4, pid)
        if st is None:
            return False
        if (st in ("T", "t")) == want_stopped:
            return True
        time.sleep(0.02)
    return False


def pause_master(e4, srv, lag, w0, v, info):
    """Stop the master alone for 3.5 x timeout (its workers run on and are asked for their pid meanwhile), continue it, give it
    two rounds of its loop.  Returns a reason when that could not be established, None otherwise (violations appended to v)."""
    time.sleep(2.5)         # a master that has been going round its loop for a while, not one that has just booted
    t_p = time.monotonic()
    if not srv.signal(signal.SIGSTOP) or not wait_state(e4, srv.master_pid, True):
        return "the master could not be stopped"
    t_s = time.monotonic()
    answers = []
    while time.monotonic() - t_s < 3.5 * TIMEOUT:
        answers.append(e4.request(srv.addr, "/pid", timeout=6)["outcome"])
        time.sleep(0.25)
    if proc_state(e4, srv.master_pid) not in ("T", "t"):
        return "the master did not stay stopped"
    info["master_paused_for"] = round(time.monotonic() - t_s, 2)
    info["answers_while_master_paused"] = "%d ok of %d" % (answers.count("ok"), len(answers))
    if not srv.signal(signal.SIGCONT) or not wait_state(e4, srv.master_pid, False):
        return "the master could not be continued"
    time.sleep(2.5)
    w1 = srv.worker_pids()
    log = srv.error_log()
    if "WORKER TIMEOUT" in log or set(w1) != set(w0):
        maxlag = lag.max_lag(since=t_p)
        if maxlag > 0.5:
            return "worker lost after the master was paused but scheduling lag was %.2f s" % maxlag
        v.append(("healthy-worker-killed/after-master-pause", "%s: the master alone was stopped for %.1f s and continued; its workers "
                  "ran on: worker set %s -> %s, WORKER TIMEOUT in log: %s (timeout %d s)" % (
                      srv.worker_class, info["master_paused_for"], w0, w1, "WORKER TIMEOUT" in log, TIMEOUT)))
    return None


def probe_loop(e4, srv, stop, log):
    while not stop.is_set():
        r = e4.request(srv.addr, "/pid", timeout=6)
        log.append(r)
        time.sleep(0.1)


# ---- healthy workers whose CLIENTS are slow or stall (the worker itself never hangs) -----------------------------------------

HEAD = b"GET /pid HTTP/1.1\r\nHost: t\r\nConnection: close\r\n\r\n"


def client_context():
    import ssl
    ctx = ssl.create_default_context()
    ctx.check_hostname = False
    ctx.verify_mode = ssl.CERT_NONE
    return ctx


class HandDrivenClient:
    """One client connection, plain or TLS.  The TLS side is driven by hand over memory BIOs, so that the client can stop after
    any byte of its handshake (or of its request) and go on later, as a slow, overloaded or half-dead peer does."""

    def __init__(self, e4, addr, ctx):
        import ssl
        self.ssl = ssl
        self.sock = e4.connect(addr, 8)
        self.o = None
        if ctx is not None:
            self.inc, self.out = ssl.MemoryBIO(), ssl.MemoryBIO()
            self.o = ctx.wrap_bio(self.inc, self.out, server_hostname="h")

    def client_hello(self):
        try:
            self.o.do_handshake()
        except self.ssl.SSLWantReadError:
            pass
        return self.out.read()

    def _flush(self):
        d = self.out.read()
        if d:
            self.sock.sendall(d)

    def _step(self, fn, *a):
        while True:
            try:
                r = fn(*a)
            except self.ssl.SSLWantReadError:
                self._flush()
                d = self.sock.recv(65536)
                if not d:
                    raise ConnectionError("closed by the server")
                self.inc.write(d)
                continue
            self._flush()
            return r

    def handshake(self):
        if self.o is not None:
            self._step(self.o.do_handshake)

    def send(self, data):
        if self.o is None:
            self.sock.sendall(data)
        else:
            self._step(self.o.write, data)

    def read_response(self, e4):
        buf = b""
        while not e4.complete_response(buf):
            try:
                d = self.sock.recv(65536) if self.o is None else self._step(self.o.read, 65536)
            except (self.ssl.SSLZeroReturnError, self.ssl.SSLEOFError, ConnectionError):
                break
            if not d:
                break
            buf += d
        return buf

    def still_open(self):
        """Has the server neither closed nor reset the TCP connection so far?"""
        import socket
        try:
            self.sock.setblocking(False)
            try:
                return self.sock.recv(1, socket.MSG_PEEK) != b""
            finally:
                self.sock.settimeout(8)
        except (BlockingIOError, InterruptedError):
            return True
        except OSError:
            return False

    def close(self):
        try:
            self.sock.close()
        except OSError:
            pass


class PausingClient(HandDrivenClient):
    """A client that sends its request in pieces: `where` names the byte at which it stops.
    hello-cut: after the first n bytes of its TLS ClientHello; hello-sent: after the whole ClientHello (it never answers the
    server's flight); head-cut: inside the request head (after the TLS handshake, if any); silent: right after connecting."""

    def __init__(self, e4, addr, ctx, where, n=11):
        HandDrivenClient.__init__(self, e4, addr, ctx)
        self.e4, self.where, self.rest, self.sent_head = e4, where, b"", 0
        self.n = n

    def advance(self):
        """Send up to the stopping point."""
        if self.where in ("hello-cut", "hello-sent"):
            hello = self.client_hello()
            n = max(1, min(self.n, len(hello) - 1)) if self.where == "hello-cut" else len(hello)
            self.sock.sendall(hello[:n])
            self.rest = hello[n:]
        elif self.where == "head-cut":
            self.handshake()
            self.sent_head = len(HEAD) // 2
            self.send(HEAD[:self.sent_head])

    def finish(self):
        """Go on where the client stopped; the complete response, or what came of it."""
        if self.rest:
            self.sock.sendall(self.rest)
            self.rest = b""
        self.handshake()
        self.send(HEAD[self.sent_head:])
        return self.read_response(self.e4)


def short_request(e4, addr, ctx, timeout=6.0):
    """One short request on a fresh connection (inside TLS when ctx is given): (outcome, pid of the worker that answered)."""
    import re
    import socket
    c = None
    data = b""
    try:
        c = HandDrivenClient(e4, addr, ctx)
        c.sock.settimeout(timeout)
        c.handshake()
        c.send(HEAD)
        data = c.read_response(e4)
        out = "ok" if e4.complete_response(data) else ("truncated" if data else "empty")
    except socket.timeout:
        out = "timeout"
    except ConnectionRefusedError:
        out = "refused"
    except OSError as e:
        out = "error %s" % type(e).__name__
    finally:
        if c is not None:
            c.close()
    m = re.search(rb"pid=(\d+)", e4.body_of(data)) if out == "ok" else None
    return out, int(m.group(1)) if m else None


STALLED_KINDS = ("healthy-stalled-tls-lazy", "healthy-stalled-tls-onconnect", "healthy-stalled-plain")
SLOW_KINDS = ("healthy-slow-tls-lazy", "healthy-slow-tls-onconnect", "healthy-slow-plain")


def client_paced(run, e4, sc):
    """ONE healthy worker and clients that are slow.
    healthy-stalled-*: two clients stop in the middle of their TLS handshake / request head and stay silent for 3 x timeout (a
    worker class that serves connections concurrently), short requests of other clients go on meanwhile: the worker is the same
    process afterwards, nothing in the log says WORKER TIMEOUT, and every short request was answered by it.
    healthy-slow-*: one client after the other, each pausing twice for 0.2 x timeout (inside its ClientHello / before its
    handshake is answered, and inside its request head), for 4 x timeout: every request is far shorter than the timeout.
    -tls-lazy / -tls-onconnect: a TLS listener with do_handshake_on_connect off (default) / on; -plain: no TLS."""
    import random
    v = []
    info = {}
    wc, kind = sc["class"], sc["kind"]
    rng = random.Random("%s/%s/%s" % (sc.get("seed", 0), wc, kind))
    settings = {"timeout": TIMEOUT, "graceful_timeout": 2}
    if wc == "gthread":
        settings["threads"] = 4
    tls = "-tls-" in kind
    ctx = None
    if tls:
        from vlib import common
        crt, key = os.path.join(common.REPO, "examples", "server.crt"), os.path.join(common.REPO, "examples", "server.key")
        if not (os.path.exists(crt) and os.path.exists(key)):
            return v, "example certificate not found in the tree", info
        settings.update({"certfile": crt, "keyfile": key, "do_handshake_on_connect": kind.endswith("onconnect")})
        ctx = client_context()
    srv = e4.Server("c11", worker_class=wc, workers=1, settings=settings)
    lag = e4.LagProbe()
    lag.start()
    clients = []
    try:
        srv.start()
        w0 = srv.wait_workers(1, 25)
        up = False
        t1 = time.monotonic()
        while w0 and not up and time.monotonic() - t1 < 10:
            out, pid = short_request(e4, srv.addr, ctx)
            up = out == "ok" and pid == w0[0]
            if not up:
                time.sleep(0.1)
        if not w0 or not up:
            return v, "server did not boot: %s" % srv.stderr()[-300:], info
        t0 = time.monotonic()
        answers = []
        if kind in STALLED_KINDS:
            first = ["hello-cut", "hello-sent"] if tls else ["head-cut"]
            more = ["hello-cut", "hello-sent", "head-cut", "silent"] if tls else ["head-cut", "silent"]
            wheres = [rng.choice(first), rng.choice(more)]
            for i, w in enumerate(wheres):
                try:
                    c = PausingClient(e4, srv.addr, ctx, w, n=rng.choice([1, 3, 5, 6, 11, 60, 10 ** 6]))
                    clients.append(c)
                    c.advance()
                except OSError as e:
                    if i == 0:
                        return v, "the first pausing client could not be set up: %r" % e, info
                    # the second client may have to finish a handshake first, while the first one is silent already: that is one
                    # of the short exchanges the worker has to go on serving
                    answers.append(("error %s (handshake of the second pausing client)" % type(e).__name__, None))
            info["clients_stop_at"] = ["%s%s" % (c.where, "/%d" % c.n if c.where == "hello-cut" else "") for c in clients]
            t_s = time.monotonic()
            while time.monotonic() - t_s < 3 * TIMEOUT:
                answers.append(short_request(e4, srv.addr, ctx))
                time.sleep(0.25)
            info["stalled_for"] = round(time.monotonic() - t_s, 2)
            info["stalled_connections_still_open"] = [c.still_open() for c in clients]
            # not judged: what becomes of the slow clients when they go on at last
            late = []
            for c in clients:
                try:
                    late.append("ok" if e4.complete_response(c.finish()) else "no complete response")
                except OSError as e:
                    late.append(type(e).__name__)
            info["slow_clients_going_on_afterwards"] = late
        else:
            pause = 0.2 * TIMEOUT
            t_s = time.monotonic()
            while time.monotonic() - t_s < 4 * TIMEOUT:
                c = None
                try:
                    c = PausingClient(e4, srv.addr, ctx, rng.choice(["hello-cut", "hello-sent"]) if tls else "silent",
                                      n=rng.choice([1, 5, 11, 60]))
                    clients.append(c)
                    c.advance()
                    time.sleep(pause)
                    c.where = "head-cut"
                    if c.rest:
                        c.sock.sendall(c.rest)
                        c.rest = b""
                    c.advance()
                    time.sleep(pause)
                    data = c.finish()
                    m = __import__("re").search(rb"pid=(\d+)", e4.body_of(data))
                    answers.append(("ok" if e4.complete_response(data) else ("truncated" if data else "empty"),
                                    int(m.group(1)) if m else None))
                except OSError as e:
                    answers.append(("error %s" % type(e).__name__, None))
                finally:
                    if c is not None:
                        c.close()
        time.sleep(1.2)
        maxlag = lag.max_lag(since=t0)
        info["max_lag"] = round(maxlag, 3)
        info["short_requests"] = "%d ok of %d" % (len([a for a in answers if a[0] == "ok"]), len(answers))
        w1 = srv.worker_pids()
        log = srv.error_log()
        guard = 0.5 if kind in STALLED_KINDS else 0.25
        mk = kind
        if (wc, kind) == ("gthread", "healthy-stalled-tls-onconnect"):
            # the threaded worker does this handshake in its main loop, on a blocking socket (TConn.init() from enqueue_req()): F30
            mk = kind + "/handshake-in-the-main-loop"
        if "WORKER TIMEOUT" in log or set(w1) != set(w0):
            if maxlag > guard:
                return v, "healthy worker killed but scheduling lag was %.2f s" % maxlag, info
            v.append(("healthy-worker-killed/" + mk, "%s, one worker, %s: worker set changed %s -> %s, WORKER TIMEOUT in log: %s "
                      "(timeout %d s); the application was never busy for longer than a few milliseconds" % (
                          wc, "clients stopped at %s and stayed silent for %s s while short requests went on" % (
                              info["clients_stop_at"], info["stalled_for"]) if kind in STALLED_KINDS else
                          "one client after the other, each pausing twice for %.1f s" % (0.2 * TIMEOUT),
                          w0, w1, "WORKER TIMEOUT" in log, TIMEOUT)))
        else:
            run.count("live_healthy_checks")
            run.count("live_client_paced_checks")
            if kind in STALLED_KINDS and tls and clients[0].where in ("hello-cut", "hello-sent"):
                run.count("live_stalled_tls_handshake_checks")
            if kind in SLOW_KINDS:
                run.count("live_slow_client_checks")
        bad = [a for a in answers if a[0] != "ok" or a[1] != w0[0]]
        if not answers:
            return v, "no short request was made", info
        if bad:
            if maxlag > guard and not v:
                return v, "short requests failed but scheduling lag was %.2f s" % maxlag, info
            v.append(("healthy-worker-not-serving-while-clients-are-slow/" + mk,
                      "%s, one worker %s (timeout %d s): %d of %d short requests were not answered by it within 6 s while %s: %s" % (
                          wc, w0, TIMEOUT, len(bad), len(answers),
                          "two other clients stopped at %s" % info["clients_stop_at"] if kind in STALLED_KINDS else
                          "each client paused twice for %.1f s" % (0.2 * TIMEOUT), bad[:4])))
        elif not v:
            run.count("live_client_paced_serving_checks")
        return v, None, info
    finally:
        lag.stop_flag = True
        for c in clients:
            c.close()
        srv.cleanup()


def scenario(run, e4, sc):
    if sc["kind"] in STALLED_KINDS + SLOW_KINDS:
        return client_paced(run, e4, sc)
    v = []
    info = {}
    wc = sc["class"]
    settings = {"timeout": TIMEOUT, "graceful_timeout": 2}
    if wc == "gthread":
        settings["threads"] = 3
    if sc["kind"] == "healthy-long-retired":
        settings["graceful_timeout"] = 5 * TIMEOUT      # the retired worker may finish its request
    if sc["kind"] == "healthy-idle-keepalive":
        settings["keepalive"] = 6 * TIMEOUT             # a parked keep-alive connection outlives the worker timeout
    app_source = None
    if sc["kind"] == "hang-at-boot":
        # the application blocks while it is being loaded - in the one worker that finds the flag file (it removes it: the
        # replacement loads normally).  That worker has never sent a heartbeat.
        app_source = e4.APP_SOURCE.replace(
            "START = time.time()\n",
            "START = time.time()\n"
            "try:\n"
            "    os.rename(os.path.join(os.path.dirname(os.path.abspath(__file__)), 'hang_boot'),\n"
            "              os.path.join(os.path.dirname(os.path.abspath(__file__)), 'hang_boot.taken.%d' % os.getpid()))\n"
            "    _hang = True\n"
            "except OSError:\n"
            "    _hang = False\n"
            "if _hang:\n"
            "    while True:\n"
            "        time.sleep(3600)\n", 1)
    nw = sc.get("workers", 2)
    srv = e4.Server("c11", worker_class=wc, workers=nw, settings=settings, bind=sc.get("bind", "tcp"), app_source=app_source)
    note = os.path.join(srv.dir, "listener_handed_over")
    if "inherited" in sc["kind"]:
        systemd = sc["kind"].endswith("systemd")
        fd = 3 if systemd else 7
        srv.launcher_prelude = PRELUDE % {"addr": srv.addr, "fd": fd, "systemd": systemd, "note": note}
        if not systemd:
            srv.bind = "fd://%d" % fd
            srv.write_conf()
        # (systemd way: the configured bind names the same address - a master that did not take the descriptor could not bind it)
    lag = e4.LagProbe()
    lag.start()
    stop = threading.Event()
    try:
        srv.start()
        w0 = srv.wait_workers(nw, 25)
        if not w0 or not srv.wait_listening(5):
            return v, "server did not boot: %s" % srv.stderr()[-300:], info
        kind = sc["kind"]
        if kind.startswith("healthy"):
            t0 = time.monotonic()
            threads = []
            if kind == "healthy-idle":
                time.sleep(4 * TIMEOUT)
            elif kind.startswith("healthy-idle-inherited"):
                try:
                    with open(note) as f:
                        mode, ino = f.read().split()
                except (OSError, ValueError):
                    return v, "the launcher did not report the listener it handed over", info
                if mode != "blocking" or int(ino) not in socket_inodes(srv.master_pid) or \
                        not all(int(ino) in socket_inodes(p) for p in w0):
                    return v, "the master and its workers do not listen on the (blocking) socket that was handed over", info
                r = e4.request(srv.addr, "/pid", timeout=6)
                if r["outcome"] != "ok":
                    return v, "no answer on the inherited listener: %s" % r["outcome"], info
                time.sleep(4 * TIMEOUT)
                r = e4.request(srv.addr, "/pid", timeout=6)
                info["request_after_idle"] = r["outcome"]
            elif kind == "healthy-busy":
                # back-to-back requests of 0.5 x timeout on every worker for 4 x timeout
                def hammer():
                    t1 = time.monotonic()
                    while time.monotonic() - t1 < 4 * TIMEOUT:
                        e4.request(srv.addr, "/sleep/%.1f" % (0.5 * TIMEOUT), timeout=10)
                threads = [threading.Thread(target=hammer, daemon=True) for _ in range(3)]
            elif kind == "healthy-mixed":
                # requests of 0.7 x timeout separated by idle gaps of 0.1-0.6 x timeout, for 6 x timeout, one client per worker
                def mixed(i):
                    rng = __import__("random").Random(sc.get("seed", 0) * 7 + i)
                    t1 = time.monotonic()
                    while time.monotonic() - t1 < 6 * TIMEOUT:
                        time.sleep(rng.choice([0.1, 0.3, 0.45, 0.6]) * TIMEOUT)
                        e4.request(srv.addr, "/sleep/%.1f" % (0.7 * TIMEOUT), timeout=10)
                threads = [threading.Thread(target=mixed, args=(i,), daemon=True) for i in range(2)]
            elif kind == "healthy-long-retired":
                # a cooperative request of 3 x timeout is in flight when its worker is retired (reload / TTOU) while the master
                # runs on: finishing it within graceful_timeout is not a hang
                res = {}

                def long_req():
                    res["r"] = e4.request(srv.addr, "/sleep/%.1f" % (3 * TIMEOUT), timeout=25)

                def retire():
                    time.sleep(0.5)
                    srv.signal(signal.SIGHUP)
                threads = [threading.Thread(target=long_req, daemon=True), threading.Thread(target=retire, daemon=True)]
            elif kind == "healthy-idle-keepalive":
                # one client keeps an idle keep-alive connection open (keepalive > timeout); nothing else happens for 3 x timeout;
                # then the same connection is used again
                res = {}

                def idle_ka():
                    try:
                        c = e4.connect(srv.addr, 5)
                        r1 = e4.request(srv.addr, "/pid", sock=c, close=False, timeout=8)
                        time.sleep(3 * TIMEOUT)
                        r2 = e4.request(srv.addr, "/pid", sock=c, close=False, timeout=8)
                        c.close()
                        res["r1"], res["r2"] = r1, r2
                    except OSError as e:
                        res["err"] = repr(e)
                threads = [threading.Thread(target=idle_ka, daemon=True)]
            else:   # healthy-long: one request of 3 x timeout inside a handler of a concurrent worker
                res = {}

                def long_req():
                    res["r"] = e4.request(srv.addr, "/sleep/%.1f" % (3 * TIMEOUT), timeout=20)
                threads = [threading.Thread(target=long_req, daemon=True)]
            for t in threads:
                t.start()
            for t in threads:
                t.join(30)
            if kind == "healthy-idle-keepalive":
                r1, r2 = res.get("r1"), res.get("r2")
                if not r1 or r1["outcome"] != "ok":
                    return v, "first request on the keep-alive connection failed: %s" % (res.get("err") or (r1 and r1["outcome"])), info
                if not r2 or r2["outcome"] != "ok" or e4.body_of(r2["data"]).split(b" ")[0] != e4.body_of(r1["data"]).split(b" ")[0]:
                    v.append(("idle-keepalive-connection-lost", "%s (keepalive %d, timeout %d): after %d s idle the parked connection gave %s "
                              "(first: %r, then: %r)" % (wc, 6 * TIMEOUT, TIMEOUT, 3 * TIMEOUT, r2 and r2["outcome"],
                                                         e4.body_of(r1["data"])[:20], r2 and e4.body_of(r2["data"])[:20])))
            if kind in ("healthy-long", "healthy-long-retired"):
                r = res.get("r")
                if not r or r["outcome"] != "ok":
                    v.append(("long-request-in-concurrent-worker-cut", "a %d s request on %s (timeout %d) -> %s" % (
                        3 * TIMEOUT, wc, TIMEOUT, r and r["outcome"])))
            time.sleep(1.2)
            maxlag = lag.max_lag(since=t0)
            info["max_lag"] = round(maxlag, 3)
            w1 = srv.worker_pids()
            log = srv.error_log()
            if "WORKER TIMEOUT" in log or (set(w1) != set(w0) and kind != "healthy-long-retired"):
                if maxlag > (0.25 if kind == "healthy-mixed" else 0.5):
                    return v, "healthy worker killed but scheduling lag was %.2f s" % maxlag, info
                v.append(("healthy-worker-killed/" + kind, "%s worker set changed %s -> %s, WORKER TIMEOUT in log: %s (timeout %d s, pattern %s)" % (
                    wc, w0, w1, "WORKER TIMEOUT" in log, TIMEOUT, kind)))
            else:
                run.count("live_healthy_checks")
                if "inherited" in kind:
                    run.count("live_inherited_blocking_listener_checks")
            return v, None, info
        # ---- hang scenarios ----------------------------------------------------------------------
        plog = []
        pt = threading.Thread(target=probe_loop, args=(e4, srv, stop, plog), daemon=True)
        harness_killed = []
        if kind == "hang-at-boot":
            # kill one worker: its replacement hangs while loading the application
            open(os.path.join(srv.dir, "hang_boot"), "w").close()
            os.chmod(os.path.join(srv.dir, "hang_boot"), 0o666)
            os.kill(w0[0], signal.SIGKILL)
            harness_killed.append(w0[0])
            victim = None
            t1 = time.monotonic()
            while time.monotonic() - t1 < 10 and victim is None:
                for name in os.listdir(srv.dir):
                    if name.startswith("hang_boot.taken."):
                        victim = int(name.rsplit(".", 1)[1])
                time.sleep(0.05)
            if victim is None:
                return v, "no worker picked up the boot hang", info
        elif kind in ("block", "block-ignabrt", "busy", "block-then-hup", "block-then-ttou"):
            path = {"block": "/block/x", "block-ignabrt": "/block/ignabrt", "busy": "/busy/60", "block-then-hup": "/block/x",
                    "block-then-ttou": "/block/x"}[kind]
            ht = threading.Thread(target=lambda: e4.request(srv.addr, path, timeout=30), daemon=True)
            ht.start()
            msg = {"block": "blocking x", "block-ignabrt": "blocking ignabrt", "busy": "busy 60", "block-then-hup": "blocking x",
                   "block-then-ttou": "blocking x"}[kind]
            victim = srv.wait_phase(msg, 10)
            if victim is None:
                return v, "hang phase not established", info
            if kind == "block-then-hup":
                time.sleep(0.4)
                srv.signal(signal.SIGHUP)       # the hung worker becomes an old-generation worker that was asked to stop
            elif kind == "block-then-ttou":
                time.sleep(0.4)
                if victim == min(w0):           # only the oldest worker becomes surplus
                    srv.signal(signal.SIGTTOU)
        else:   # stop, stop-after-master-pause
            ages = {e["wpid"]: e["age"] for e in srv.events() if e["kind"] == "post_fork"}
            by_age = sorted(w0, key=lambda p: (ages.get(p, 0), p))
            if kind == "stop-after-master-pause":
                reason = pause_master(e4, srv, lag, w0, v, info)
                if reason is not None or v:
                    return v, reason, info
                run.count("live_master_pause_established")
            victim = by_age[{"oldest": 0, "youngest": -1, "middle": len(by_age) // 2}[sc.get("victim", "oldest")]]
            info["victim"] = "%s of %d" % (sc.get("victim", "oldest"), len(by_age))
            os.kill(victim, signal.SIGSTOP)
        t_hang = time.monotonic()
        pt.start()
        needs_kill = kind in ("block-ignabrt", "stop", "stop-after-master-pause")
        limit_dead = TIMEOUT + 2 + (2 if needs_kill else 0) + 2.0
        dead_at = None
        while time.monotonic() - t_hang < limit_dead + 4:
            srv.reap()
            if not e4.alive(victim):
                dead_at = time.monotonic()
                break
            time.sleep(0.05)
        maxlag = lag.max_lag(since=t_hang)
        info["max_lag"] = round(maxlag, 3)
        info["dead_after"] = None if dead_at is None else round(dead_at - t_hang, 2)
        if dead_at is None or dead_at - t_hang > limit_dead:
            if maxlag > 0.5:
                return v, "late kill but scheduling lag was %.2f s" % maxlag, info
            v.append(("hung-worker-not-killed-in-time/" + ("hang-before-first-heartbeat" if kind == "hang-at-boot" else kind),
                      "%s worker %d hung (%s) at t0: %s after %.1f s (limit %.1f s, timeout %d)" % (
                          wc, victim, kind, "still alive" if dead_at is None else "died", time.monotonic() - t_hang if dead_at is None
                          else dead_at - t_hang, limit_dead, TIMEOUT)))
            if dead_at is None:
                return v, None, info
        else:
            run.count("live_hung_worker_killed")
            if kind == "stop-after-master-pause":
                run.count("live_hung_worker_killed_after_master_pause")
        if kind == "block-then-ttou":
            stop.set()
            return v, None, info
        # replaced
        t1 = time.monotonic()
        neww = None
        while time.monotonic() - t1 < 4.0 + 2.0:
            ws = srv.worker_pids()
            if len(ws) == nw and victim not in ws:
                inited = set(e["wpid"] for e in srv.events() if e["kind"] == "post_worker_init")
                if all(p in inited for p in ws):
                    neww = ws
                    break
            time.sleep(0.05)
        if neww is None:
            v.append(("killed-worker-not-replaced", "pool %s 6 s after the hung worker died" % srv.worker_pids()))
        else:
            run.count("live_replacement_checks")
            if kind != "block-then-hup":        # (there every worker of the old generation is retired, as asked)
                # the workers that did not hang are the same live processes, and one worker was started for the one that hung
                time.sleep(1.0)
                ws = srv.worker_pids()
                others = [p for p in w0 if p != victim and p not in harness_killed]
                gone = [p for p in others if p not in ws]
                started = sorted(set(e["wpid"] for e in srv.events() if e["kind"] == "post_fork") - set(w0) - {victim})
                info["started_after_hang"] = len(started)
                if gone or len(started) > 1:
                    maxlag = lag.max_lag(since=t_hang)
                    if maxlag > 0.5:
                        return v, "bystander lost but scheduling lag was %.2f s" % maxlag, info
                    if gone:
                        v.append(("healthy-bystander-of-a-hung-worker-replaced/" + kind,
                                  "%s, %d workers %s, worker %d hung (%s, %s): afterwards the healthy worker(s) %s are gone, pool %s, "
                                  "%d workers started since" % (wc, nw, w0, victim, kind, info.get("victim", "the one that took the "
                                                                "request"), gone, ws, len(started))))
                    if len(started) > 1:
                        v.append(("more-than-one-worker-started-for-one-hung-worker/" + kind,
                                  "%s, %d workers %s, worker %d hung (%s): %d workers were started afterwards: %s" % (
                                      wc, nw, w0, victim, kind, len(started), started)))
                elif len(started) == 1:
                    run.count("live_bystander_checks")
        stop.set()
        pt.join(8)
        failed = [r for r in plog if r["outcome"] != "ok"]
        info["probes"] = len(plog)
        if failed:
            v.append(("server-stopped-serving-while-worker-hung", "%d of %d probe requests failed (%s) while one of two %s workers "
                      "was hung" % (len(failed), len(plog), sorted(set(r["outcome"] for r in failed)), wc)))
        elif plog:
            run.count("live_probe_checks")
        return v, None, info
    finally:
        stop.set()
        lag.stop_flag = True
        srv.cleanup()


def plan(run, tier, seed):
    run.require("live_healthy_checks", "live_hung_worker_killed", "live_replacement_checks", "live_probe_checks",
                "live_inherited_blocking_listener_checks", "live_bystander_checks", "live_master_pause_established",
                "live_hung_worker_killed_after_master_pause", "live_client_paced_checks", "live_stalled_tls_handshake_checks",
                "live_slow_client_checks", "live_client_paced_serving_checks")
    cells = [("sync", "block"), ("sync", "block-ignabrt"), ("sync", "stop"), ("gthread", "stop"), ("gevent", "busy"),
             ("eventlet", "busy"), ("gevent", "stop"), ("eventlet", "stop"),
             ("sync", "healthy-idle"), ("gthread", "healthy-idle"), ("gevent", "healthy-idle"), ("eventlet", "healthy-idle"),
             ("sync", "healthy-busy"), ("gthread", "healthy-busy"), ("gevent", "healthy-busy"), ("eventlet", "healthy-busy"),
             ("gthread", "healthy-long"), ("gevent", "healthy-long"), ("eventlet", "healthy-long"),
             ("sync", "healthy-mixed"), ("sync", "block-then-hup"), ("sync", "block-then-ttou"),
             ("gevent", "healthy-long-retired"), ("gthread", "healthy-long-retired"), ("eventlet", "healthy-long-retired"),
             ("gthread", "healthy-idle-keepalive"), ("gevent", "healthy-idle-keepalive"), ("eventlet", "healthy-idle-keepalive"),
             ("sync", "hang-at-boot"), ("gthread", "hang-at-boot"), ("gevent", "hang-at-boot")]
    # idle on a listener that was handed to the master in blocking mode (systemd socket activation / --bind fd://N)
    how = ["systemd", "fd"]
    inherited = [(c, "healthy-idle-inherited-" + h) for c in ("sync", "gthread", "gevent", "eventlet") for h in how]
    if tier == "quick":
        # the sync worker (the one whose idle wait is an accept() on the listener itself) in every run, one concurrent class besides
        inherited = [("sync", "healthy-idle-inherited-" + how[seed % 2]),
                     (["gthread", "gevent", "eventlet"][(seed + 2) % 3], "healthy-idle-inherited-" + how[(seed + 1) % 2])]
    binds = {c: ["tcp", "unix"][(seed // 2 + i) % 2] for i, c in enumerate(inherited)}
    if tier == "quick":
        # every hang kind and every healthy pattern once per run, classes rotated by the seed
        rot = ["gevent", "gthread", "eventlet"]
        boot = ["sync", "gthread", "gevent"][seed % 3]
        # one hang of every worker class in every run
        always = {("sync", "block"), ("gthread", "stop"), ("gevent", ["busy", "stop"][seed % 2]), ("eventlet", ["stop", "busy"][seed % 2]),
                  (boot, "hang-at-boot")}
        pick = [c for i, c in enumerate(cells) if c in always or (c[1] == "hang-at-boot" and False)
                or c[1] in ("block", "block-ignabrt", "healthy-mixed", "block-then-hup")
                or (c[1] in ("healthy-long-retired", "healthy-idle-keepalive") and c[0] in (rot[seed % 3], rot[(seed + 1) % 3]))
                or (c[1] not in ("healthy-long-retired", "healthy-idle-keepalive", "hang-at-boot") and (i + seed) % 2 == 0)]
        cells = pick
    # which worker of the pool is the one that gets stopped: rotated over the table positions
    pos = ["youngest", "oldest"]
    out = [{"kind": "live", "scenario": dict({"class": c, "kind": k, "idx": i, "seed": seed},
                                             **({"victim": pos[(i + seed) % 2] if c in ("gevent", "eventlet") else "youngest"}
                                                if k == "stop" else {})),
            "seed": seed, "tier": tier} for i, (c, k) in enumerate(cells)]
    # the master alone is paused for longer than the timeout and continued; afterwards one of three workers is stopped
    classes = ["sync", "gthread", "gevent", "eventlet"]
    paused = [classes[seed % 4]] if tier == "quick" else classes
    first = [{"kind": "live", "scenario": {"class": c, "kind": "stop-after-master-pause", "idx": 1000 + j, "seed": seed, "workers": 3,
                                           "victim": ["youngest", "middle"][(seed + j) % 2]}, "seed": seed, "tier": tier}
             for j, c in enumerate(paused)]
    # healthy workers with slow clients.  Clients that stall for longer than the timeout: the classes that serve connections
    # concurrently (a sync worker handles one connection at a time and waits for that client: whether that is a hang is not
    # decided here); gthread with do_handshake_on_connect does the handshake in its main loop: a worker that serves connections
    # concurrently is then stopped by one silent client (known finding F30, a mechanism name of its own).
    # Clients that are slow but take far less than the timeout: every class.
    conc = ["gthread", "gevent", "eventlet"]
    paced = [(c, k) for c in conc for k in STALLED_KINDS] + \
            [(c, k) for c in classes for k in SLOW_KINDS]
    if tier == "quick":
        paced = [("gthread", "healthy-stalled-tls-lazy"), ("gthread", "healthy-stalled-tls-onconnect"),
                 (["gevent", "eventlet"][seed % 2], STALLED_KINDS[(seed // 2) % 2]),
                 (conc[(seed + 1) % 3], "healthy-stalled-plain"),
                 ("sync", SLOW_KINDS[seed % 3])]
    first += [{"kind": "live", "scenario": {"class": c, "kind": k, "idx": 2000 + j, "seed": seed}, "seed": seed, "tier": tier}
              for j, (c, k) in enumerate(paced)]
    # (started first: they take 4 x timeout + boot each and would otherwise be the tail of the run)
    return first + [{"kind": "live", "scenario": {"class": c, "kind": k, "idx": len(out) + j, "seed": seed, "bind": binds[(c, k)]},
             "seed": seed, "tier": tier} for j, (c, k) in enumerate(inherited)] + out


def shard(run, sh):
    from vlib import e4_live as e4
    sc = sh["scenario"]
    reason = None
    for attempt in range(3):
        v, reason, info = scenario(run, e4, sc)
        if reason is None or v:
            break
        run.count("live_retries_after_inconclusive")
    run.case(("live", sc["class"], sc["kind"]))
    run.count("live_scenarios")
    run.count("live_cell/%s/%s" % (sc["class"], sc["kind"]))
    for mech, summary in v:
        run.violation(mech, summary + " | info=%s" % info, {"live": sc})
    if reason is not None and not v:
        if "scheduling lag" in reason:
            run.count("cells_skipped_for_scheduling_lag")      # measured lag made the wall-clock judgement unsafe, three times
        else:
            run.inconclusive_because("live scenario %s/%s: %s" % (sc["class"], sc["kind"], reason))
    run.sample({"live": sc, "observed": info}, cap=2)


def replay_case(run, c):
    from vlib import e4_live as e4
    v, reason, info = scenario(run, e4, c["live"])
    print("info:", info, "inconclusive:", reason)
    return v
