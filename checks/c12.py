"""C12 Request-head limits are enforced and parser buffering is bounded.

Part A: well-formed requests at limit-3..limit+3 for each of the three limits, for a matrix of
limit settings, under several segmentations - must be accepted when within (with a tolerance band
where the docs do not say whether CRLF counts), must be rejected when over.
Part B: endless metered sources that never send the delimiter the parser waits for - the bytes
pulled but not surfaced as body must stay under a generous configuration-derived bound.
Where the documentation leaves the verdict open (the CRLF tolerance band, limit_request_fields=0) one thing still
follows from the statement: one and the same request either exceeds a limit or is within all of them, so it cannot be
served in one delivery and refused for its size in another - whichever reading is right, one of the two runs breaks it.
"""
import json

from vlib import common, gen
from vlib.common import Run, rng_for

PROP = "C12"
RULE = ("Part A cell = (limit configuration, element in {line, field-count, field-size}, offset -3..+3, "
        "body/no body, header_map, segmentation - incl. every position around the CRLF of the request line); Part B cell = (configuration, endless element in {request line, "
        "one header line, many short header lines, chunk-size digits, chunk extension, trailer lines, one trailer "
        "line}, read size, body read by the application or left to the parser to skip); non-trivial = every cell (each has a limit edge or an endless source); distinct by cell")

LINE_LIMITS = [0, 1, 10, 20, 100, 4094, 8190, 8191, 20000]
FIELD_LIMITS = [1, 2, 10, 100, 32768, 40000]
FSIZE_LIMITS = [0, 1, 10, 20, 100, 8190, 20000]
MAX_REQUEST_LINE = 8190
MAX_HEADERS = 32768
DEFAULT_FS = 8190


def effective(cfgset):
    ll = cfgset.get("limit_request_line", 4094)
    nf = cfgset.get("limit_request_fields", 100)
    fs = cfgset.get("limit_request_field_size", 8190)
    # documented clamping: line 0 = unlimited, max 8190; fields max 32768; field size 0 = unlimited
    eff_ll = None if ll == 0 else min(ll, MAX_REQUEST_LINE)
    eff_nf = min(nf, MAX_HEADERS) if nf > 0 else None     # 0: meaning undocumented -> not judged
    eff_fs = None if fs == 0 else fs
    cap = (eff_nf or MAX_HEADERS) * ((eff_fs or DEFAULT_FS) + 2) + 4
    return eff_ll, eff_nf, eff_fs, cap


def build(line_len, nfields, field_len, body, underscore=0, long_underscore=False, pad=None):
    """Well-formed request: request line of exactly line_len bytes (>= 14), nfields field lines, the
    longest exactly field_len bytes (others short); `underscore` of them have an underscore name."""
    pad = line_len - len(b"POST / HTTP/1.1")
    if pad < 0:
        return None
    target = b"/" + b"p" * pad
    fields = []
    need = []
    if body is not None:
        need.append(b"Content-Length: %d" % len(body))
    if nfields < len(need):
        return None
    fields.extend(need)
    i = 0
    while len(fields) < nfields:
        if underscore > 0:
            fields.append(b"X_U%d: u" % i)
            underscore -= 1
        else:
            fields.append(b"X-%d: v" % i)
        i += 1
    if field_len is not None and fields:
        # make the last added optional field exactly field_len long (or the only field if fits)
        k = len(fields) - 1
        name = b"X_L" if long_underscore else b"X-L"
        if field_len < len(name) + 1:
            return None
        if k < len(need):
            return None
        room = field_len - len(name) - 1
        if pad is None:
            fields[k] = name + b":" + b"v" * room
        elif room < 2:
            return None
        elif pad == "trailing":         # the field line is as long as it is, whatever it consists of: blanks in front of the line end
            fields[k] = name + b":v" + b" " * (room - 1)
        elif pad == "trailing-tabs":
            fields[k] = name + b":" + b"v" * (room // 2) + b"\t" * (room - room // 2)
        elif pad == "leading":
            fields[k] = name + b":" + b" " * (room - 1) + b"v"
        else:                           # nothing but blanks
            fields[k] = name + b":" + b" " * room
    head = b"POST " + target + b" HTTP/1.1\r\n" + b"".join(f + b"\r\n" for f in fields) + b"\r\n"
    return head + (body or b"")


def expect(cfgset, line_len, nfields, field_lens, head_len):
    """'accept' / 'reject' / 'either' per the documented limits with the CRLF tolerance band."""
    eff_ll, eff_nf, eff_fs, cap = effective(cfgset)
    verdicts = []
    if eff_ll is not None:
        verdicts.append("reject" if line_len > eff_ll else "accept" if line_len <= eff_ll - 2 else "either")
    if eff_nf is None:
        # limit_request_fields=0: "no field allowed" or "no limit of its own" - a request without any field is within both readings
        verdicts.append("accept" if nfields == 0 else "either")
    else:
        verdicts.append("reject" if nfields > eff_nf else "accept")
    if eff_fs is not None:
        for fl in field_lens:
            verdicts.append("reject" if fl > eff_fs else "accept" if fl <= eff_fs - 2 else "either")
    if head_len > cap - 8:
        verdicts.append("either")
    if "reject" in verdicts:
        return "reject"
    if "either" in verdicts:
        return "either"
    return "accept"


def part_a_cells(rng, tier):
    cells = []
    q = tier == "quick"
    for ll in LINE_LIMITS:
        cfgset = {"limit_request_line": ll}
        eff = effective(cfgset)[0]
        for d in range(-3, 4):
            L = (eff if eff is not None else 9000) + d
            cells.append((cfgset, "line", d, L, 3, None))
    for nf in FIELD_LIMITS:
        cfgset = {"limit_request_fields": nf}
        eff = effective(cfgset)[1]
        if eff > 1000 and q:
            offs = [-1, 0, 1]
        else:
            offs = range(-3, 4)
        for d in offs:
            n = eff + d
            if n < 0:
                continue
            cells.append((cfgset, "fields", d, 20, n, None))
    # limit_request_fields=0 (accepted by the validator, meaning not documented): acceptance is only demanded for a request without
    # fields; for the others the verdict is open - but it must be ONE verdict (see run_part_a)
    for cfgset in ({"limit_request_fields": 0}, {"limit_request_fields": 0, "limit_request_field_size": 20},
                   {"limit_request_fields": 0, "limit_request_line": 30}):
        for n in (0, 1, 2, 3, 7):
            cells.append((cfgset, "fields0", n, 20, n, None))
    for fs in FSIZE_LIMITS:
        cfgset = {"limit_request_field_size": fs}
        eff = effective(cfgset)[2]
        for d in range(-3, 4):
            F = (eff if eff is not None else 30000) + d
            cells.append((cfgset, "fsize", d, 20, 3, F))
    # combined small configurations
    for _ in range(40 if q else 400):
        cfgset = {"limit_request_line": rng.choice([20, 30, 100]), "limit_request_fields": rng.choice([1, 2, 3, 5]),
                  "limit_request_field_size": rng.choice([10, 20, 40])}
        el = rng.choice(["line", "fields", "fsize"])
        d = rng.randint(-3, 3)
        ell, enf, efs, _ = effective(cfgset)
        L, n, F = min(ell - 2, 18), min(enf, 2), None
        if el == "line":
            L = ell + d
        elif el == "fields":
            n = enf + d
        else:
            F = efs + d
            n = max(n, 1)
        cells.append((cfgset, el, d, L, max(n, 0), F))
    return cells


def run_part_a(run, e1, cell, rng, tier):
    cfgset, el, d, L, n, F = cell
    PROXY_LINES = {"short": b"PROXY TCP4 1.2.3.4 5.6.7.8 11 22\r\n",
                   "long": b"PROXY TCP6 ffff:ffff:ffff:ffff:ffff:ffff:ffff:ffff ffff:ffff:ffff:ffff:ffff:ffff:ffff:fff0 65535 65534\r\n"}
    for body in (None, b"hello-body"):
        for hm, under in (("drop", 0), ("drop", 1), ("refuse", 0), ("drop", "long"), ("proxy-short", 0), ("proxy-long", 0), ("folded", 0),
                          ("pad-trailing", 0), ("pad-trailing-tabs", 0), ("pad-leading", 0), ("pad-blank", 0)):
            cs = dict(cfgset)
            pad = None
            if hm.startswith("pad-"):
                if el != "fsize" or F is None:
                    continue
                pad = hm[4:]
                hm = "drop"
                run.count("A_long_field_made_of_blanks_cases")
            proxy_line = b""
            folded = False
            if hm == "folded":
                # obsolete line folding permitted: one field spread over several lines is still one field
                if el != "fields" or n < 1 or "limit_request_field_size" in cfgset:
                    continue        # (how long a folded field is under a small field-size limit is not pinned down: default size only)
                cs["permit_obsolete_folding"] = True
                folded = True
                hm = "drop"
            if hm.startswith("proxy"):
                # PROXY protocol switched on, the peer is an allowed proxy: the line it puts in front changes nothing about the limits
                if el != "line":
                    continue
                cs["proxy_protocol"] = True
                proxy_line = PROXY_LINES[hm.split("-")[1]]
                hm = "drop"
            if hm != "drop":
                cs["header_map"] = hm
            if under == 1 and n < 2:
                continue
            if under == "long" and F is None:
                continue
            s = build(L, n, F, body, underscore=1 if under == 1 else 0, long_underscore=(under == "long"), pad=pad)
            if s is None:
                continue
            if folded:
                # fold the first optional field over 4 + (fields limit) lines; the number of FIELDS stays n
                eff_nf = effective(cs)[1] or 3
                marker = b"X-0: v\r\n"
                if marker not in s:
                    continue
                s = s.replace(marker, b"X-0: v" + b"".join(b"\r\n w%d" % i for i in range(min(eff_nf + 4, 300))) + b"\r\n", 1)
                run.count("A_folded_field_cases")
            head_len = s.index(b"\r\n\r\n") + 4 - (L + 2)
            if folded:
                # field lengths counted per field (a folded field's length is not pinned down by the documentation: keep it small)
                flens = [len(x) for x in s[:s.index(b"\r\n\r\n")].replace(b"\r\n w", b" w").split(b"\r\n")[1:]]
            else:
                flens = [len(x) for x in s[:s.index(b"\r\n\r\n")].split(b"\r\n")[1:]]
            want = expect({k: v for k, v in cs.items() if k not in ("proxy_protocol", "permit_obsolete_folding")}, L, n, flens, head_len)
            s = proxy_line + s
            stream = s + gen.marker(1, b"end")
            if proxy_line:
                run.count("A_proxy_line_cases")
                eff_ll = effective(cs)[0]
                if want == "accept" and eff_ll is not None and len(proxy_line) - 2 > eff_ll:
                    want = "either"         # gunicorn applies limit_request_line to the PROXY line as well: not judged
            cfg = e1.make_cfg(**cs)
            nn = len(stream)
            segs = [[], sorted(rng.sample(range(1, nn), min(nn - 1, 3)))]
            if nn <= 3000:
                segs.append(list(range(1, nn)))
            p = s.index(b"\r\n\r\n")
            segs.append([p + 4])                    # head alone, then body
            segs.append([max(1, p - 1), min(nn - 1, p + 5)])
            for d in (1, 2, 3):
                segs.append([p + d])                # a read boundary inside the empty line that ends the head
            segs.append([max(1, p - 3), p + 2])
            # a read boundary just before, inside and just behind the CRLF that ends the request line (and the PROXY line)
            q = len(proxy_line) + L                 # index of the request line's CR
            for c in (q - 1, q, q + 1, q + 2):
                if 0 < c < nn:
                    segs.append([c])
            run.count("A_cut_between_cr_lf_of_request_line")
            if proxy_line:
                segs.append([len(proxy_line) - 1])
                segs.append([3])                    # the first read too short to tell what kind of line this is
            if el == "fields0":
                run.count("A_fields_limit_zero_cases")
            served, refused_for_size = None, None
            for cuts in segs:
                obs = e1.observe(cfg, gen.cut(stream, cuts), **({"peer": ("127.0.0.1", 5000)} if proxy_line else {}))
                run.case(("A", json.dumps(cs, sort_keys=True), el, d, body is not None, str(under), pad, len(cuts), tuple(cuts[:2])))
                accepted = bool(obs["reqs"]) and obs["reqs"][0]["uri"].startswith("/p") or \
                    (bool(obs["reqs"]) and obs["reqs"][0]["uri"] == "/")
                run.count("A_" + want)
                if accepted and served is None:
                    served = cuts
                if not accepted and refused_for_size is None and obs["terminal"][0] == "reject" and obs["terminal"][1].startswith("Limit"):
                    refused_for_size = (cuts, obs["terminal"])
                if want == "accept":
                    if not accepted:
                        run.violation("within-limits-rejected/" + el,
                                      "request within all limits rejected: %s cfg=%s line=%d fields=%d longest_field=%s "
                                      "cuts=%s" % (obs["terminal"], cs, L, n, F, cuts[:6]),
                                      {"part": "A", "cfg": cs, "stream": stream.hex(), "cuts": cuts, "want": want})
                    else:
                        run.count("A_accept_ok")
                        r0 = obs["reqs"][0]
                        if body is not None and r0.get("body") != body:
                            run.violation("within-limits-body-wrong", "body %r" % r0.get("body"),
                                          {"part": "A", "cfg": cs, "stream": stream.hex(), "cuts": cuts, "want": want})
                elif want == "reject":
                    if accepted:
                        run.violation("over-limit-accepted/" + el + ("+underscore" if under else ""),
                                      "request over a limit reached the application: cfg=%s line=%d fields=%d "
                                      "longest_field=%s underscore_fields=%s cuts=%s" % (cs, L, n, F, under, cuts[:6]),
                                      {"part": "A", "cfg": cs, "stream": stream.hex(), "cuts": cuts, "want": want})
                    else:
                        run.count("A_reject_ok")
            if want == "either":
                run.count("A_either_one_verdict_for_all_deliveries")
                if served is not None and refused_for_size is not None:
                    # whether this request counts as within the limits is left open - but it is one request: served in one delivery
                    # and refused for its size in another, one of the two runs breaks the statement under either reading
                    run.violation("size-verdict-depends-on-delivery/" + el,
                                  "the same request is served when delivered with cuts %s and refused for its size (%s) with cuts %s: "
                                  "cfg=%s line=%d fields=%d longest_field=%s" % (served[:6], refused_for_size[1], refused_for_size[0][:6], cs, L, n, F),
                                  {"part": "A", "cfg": cs, "stream": stream.hex(), "cuts": refused_for_size[0], "cuts_served": served,
                                   "want": "one-verdict", "proxy": bool(proxy_line)})


# ---- Part A2: chunked bodies of requests that are within every limit ---------------------------

A2_CFGS = [
    {"limit_request_fields": 1, "limit_request_field_size": 40},
    {"limit_request_fields": 2, "limit_request_field_size": 100},
    {"limit_request_fields": 10, "limit_request_field_size": 100},
    {"limit_request_fields": 3, "limit_request_field_size": 1000},
    {"limit_request_fields": 3},
    {"limit_request_line": 30, "limit_request_fields": 1, "limit_request_field_size": 30},
    {},
]


def a2_judge(e1, cs, stream, cuts, body):
    obs = e1.observe(e1.make_cfg(**cs), gen.cut(stream, cuts))
    r0 = obs["reqs"][0] if obs["reqs"] else None
    ok = r0 is not None and "body_error" not in r0 and r0.get("body") == body and len(obs["reqs"]) == 2
    return ok, obs


def run_part_a2(run, e1, cs, rng):
    """The limits speak about the request line, the field lines, the chunk-size lines and the trailer block - not about chunk
    data: a chunked request whose protocol elements are all tiny is within all limits however much data its chunks carry and
    however the data shares reads with the lines around it."""
    cap = effective(cs)[3]
    base = min(cap, 30000)
    shapes = [[base + 50], [3, 2 * base + 1, 1], [base - 1, base, base + 1], [1, 1, base * 3], [8192, 8192, 5]]
    for sizes in shapes:
        for ext in (b"", b";x=1"):
            chunks = [bytes([97 + (i % 26)]) * n for i, n in enumerate(sizes) if n > 0]
            body = b"".join(chunks)
            framed = b"".join(b"%x%s\r\n" % (len(c), ext) + c + b"\r\n" for c in chunks) + b"0\r\n\r\n"
            head = b"POST /p HTTP/1.1\r\nTransfer-Encoding: chunked\r\n\r\n"
            stream = head + framed + gen.marker(1, b"end")
            nn = len(stream)
            segs = [[], [len(head)], list(range(400, nn, 400)), list(range(8192, nn, 8192)),
                    sorted(rng.sample(range(1, nn), 3)), sorted(rng.sample(range(1, nn), 9))]
            # a read boundary right behind every chunk-size line, and one in front of every chunk's closing CRLF
            pos, lines_end, data_end = len(head), [], []
            for c in chunks:
                pos += len(b"%x%s\r\n" % (len(c), ext))
                lines_end.append(pos)
                pos += len(c)
                data_end.append(pos)
                pos += 2
            segs.append(sorted(set(lines_end)))
            segs.append(sorted(set(data_end)))
            for cuts in segs:
                cuts = [c for c in cuts if 0 < c < nn]
                run.case(("A2", json.dumps(cs, sort_keys=True), tuple(sizes), ext.decode(), tuple(cuts[:3]), len(cuts)))
                ok, obs = a2_judge(e1, cs, stream, cuts, body)
                run.count("A2_chunked_within_limits_cases")
                if ok:
                    run.count("A2_served_in_full")
                else:
                    r0 = obs["reqs"][0] if obs["reqs"] else {}
                    run.violation("within-limits-rejected/chunk-data-beside-its-size-line",
                                  "chunked request (request line 16 bytes, one 26-byte field, chunk-size lines of <= %d bytes, chunks of %s "
                                  "bytes) not served in full under cfg=%s cuts=%s: terminal=%s body_error=%s body_len=%s requests=%d" % (
                                      len(b"%x%s" % (max(sizes), ext)), sizes, cs, cuts[:6], obs["terminal"], r0.get("body_error"),
                                      len(r0.get("body") or b""), len(obs["reqs"])),
                                  {"part": "A2", "cfg": cs, "stream": stream.hex() if nn < 40000 else None, "sizes": sizes,
                                   "ext": ext.decode(), "cuts": cuts})


# ---- Part B ---------------------------------------------------------------------------------

def endless(prefix, unit, piece, stop_at):
    """Generator of pieces: prefix, then `unit` repeated forever in reads of `piece` bytes."""
    yield prefix
    sent = len(prefix)
    block = (unit * (piece // len(unit) + 2))
    off = 0
    while sent < stop_at:
        p = block[off:off + piece]
        off = (off + piece) % len(unit)
        yield p
        sent += len(p)


FLOODS = {
    # name: (prefix, unit, needs body read)
    "request-line": (b"GET /", b"a", False),
    "header-line": (b"GET / HTTP/1.1\r\nX-Flood: ", b"v", False),
    "header-lines": (b"GET / HTTP/1.1\r\n", b"X-F: v\r\n", False),
    "chunk-size-digits": (b"POST / HTTP/1.1\r\nTransfer-Encoding: chunked\r\n\r\n", b"0", True),
    "chunk-extension": (b"POST / HTTP/1.1\r\nTransfer-Encoding: chunked\r\n\r\n5;x=", b"e", True),
    "later-chunk-size": (b"POST / HTTP/1.1\r\nTransfer-Encoding: chunked\r\n\r\n3\r\nabc\r\n", b"1", True),
    "trailer-lines": (b"POST / HTTP/1.1\r\nTransfer-Encoding: chunked\r\n\r\n3\r\nabc\r\n0\r\n", b"X-T: v\r\n", True),
    "trailer-line": (b"POST / HTTP/1.1\r\nTransfer-Encoding: chunked\r\n\r\n0\r\nX-T: ", b"t", True),
    # after a served request: where the next request line should start
    "empty-lines-after-request": (b"GET /first HTTP/1.1\r\nHost: h\r\n\r\n", b"\r\n", False),
    "garbage-after-request": (b"GET /first HTTP/1.1\r\nHost: h\r\n\r\n", b"z", False),
    "header-lines-after-request": (b"GET /first HTTP/1.1\r\nHost: h\r\n\r\nGET /second HTTP/1.1\r\n", b"X-F: v\r\n", False),
    "empty-lines-first": (b"\r\n", b"\r\n", False),
}
FLOOD_CFGS = [
    {},
    {"limit_request_line": 100, "limit_request_fields": 5, "limit_request_field_size": 100},
    {"limit_request_fields": 10, "limit_request_field_size": 0},
    {"limit_request_line": 8190, "limit_request_fields": 2, "limit_request_field_size": 50},
]


def bound(cfgset):
    eff_ll, eff_nf, eff_fs, cap = effective(cfgset)
    return (eff_ll or 0) + cap + 65536


def run_part_b(run, e1, name, cfgset, piece, factor, unread=False):
    prefix, unit, _ = FLOODS[name]
    if name == "request-line" and effective(cfgset)[0] is None:
        return
    b = bound(cfgset)
    stop_at = factor * b
    cfg = e1.make_cfg(**cfgset)
    surfaced = [0]

    def consumer(body):
        if unread:
            # the application answers without touching wsgi.input: the parser itself has to get past the body (and its chunk-size
            # lines and trailer section) before the next request - under the same bound
            return b""
        while True:
            d = body.read(8192)
            if not d:
                break
            surfaced[0] += len(d)
        return b""

    src = endless(prefix, unit, piece, stop_at)
    obs = e1.observe(cfg, src, consumer=consumer, max_reqs=4)
    held = obs["pulled"] - surfaced[0]
    run.case(("B", name, json.dumps(cfgset, sort_keys=True), piece, unread))
    run.count("B_floods")
    if unread:
        run.count("B_floods_body_left_unread")
    run.info["B_max_held_over_bound_permille#max"] = max(
        run.info.get("B_max_held_over_bound_permille#max", 0), int(1000 * held / b))
    rejected = obs["terminal"][0] in ("reject", "body_error")
    if rejected and held <= b:
        run.count("B_rejected_within_bound")
    if held > b:
        run.violation("unbounded-buffering/" + name + ("/body-left-unread" if unread else ""),
                      "endless %s: parser pulled %d bytes (surfaced %d as body) without rejecting; bound for this "
                      "configuration is %d; terminal=%s" % (name, obs["pulled"], surfaced[0], b, obs["terminal"]),
                      {"part": "B", "flood": name, "cfg": cfgset, "piece": piece, "factor": factor, "unread": unread})
    elif not rejected:
        # source ran dry below the bound without a rejection: cannot happen (stop_at > bound)
        run.inconclusive_because("flood %s ended below the bound without rejection: %s" % (name, obs["terminal"]))


def run_part_c(run, e2, kind, name, cfgset, unread=False):
    """The same floods against a real worker loop (engine E2): once the head is refused, the worker must let go - what the client can
    still push into the connection is bounded by the configuration-derived bound plus what sockets buffer on their own.
    unread: the application answers without reading the body; a keep-alive worker then skips it on its way to the next request."""
    prefix, unit, needs_body = FLOODS[name]
    h = e2.Harness(kind, dict(cfgset, keepalive=2))

    def app(environ, start_response):
        if needs_body and not unread:
            environ["wsgi.input"].read()
        start_response("200 OK", [("Content-Length", "2")])
        return [b"ok"]
    try:
        b = bound(cfgset)
        limit = b + 12 * 1024 * 1024
        out = h.connection(prefix, app, flood=(unit, limit), timeout=20.0, mode="close")
        run.case(("C", kind, name, json.dumps(cfgset, sort_keys=True), unread))
        run.count("C_worker_floods")
        if unread:
            run.count("C_worker_floods_body_left_unread")
        sent = out["flood_sent"] or 0
        run.info["C_max_flood_taken#max"] = max(run.info.get("C_max_flood_taken#max", 0), sent)
        if sent > b + 4 * 1024 * 1024:
            run.violation("worker-keeps-taking-input/" + name + ("/body-left-unread" if unread else ""),
                          "%s worker, endless %s: the client pushed %d bytes into the connection (bound for this configuration %d, "
                          "plus socket buffers) and was %s" % (kind, name, sent, b, out["client_err"] or "never turned away"),
                          {"part": "C", "kind": kind, "flood": name, "cfg": cfgset, "unread": unread})
        else:
            run.count("C_client_turned_away_within_bound")
    finally:
        h.close()


def shard(sh):
    from vlib import e1_wire as e1
    tier = sh.get("tier", "quick")
    run = Run(PROP, tier, sh["seed"], "exploration", RULE)
    rng = rng_for(sh["seed"], "c12", sh["kind"], sh.get("sub", 0))
    if sh["kind"] == "A":
        cells = part_a_cells(rng_for(sh["seed"], "c12-cells"), tier)
        for cell in cells[sh["sub"]::sh["of"]]:
            run_part_a(run, e1, cell, rng, tier)
        if sh["sub"] == 0:
            c = cells[0]
            run.sample({"part": "A", "cfg": c[0], "element": c[1], "offset": c[2], "line_len": c[3],
                        "fields": c[4], "longest_field": c[5]})
    elif sh["kind"] == "A2":
        run_part_a2(run, e1, sh["cfg"], rng)
        run.sample({"part": "A2", "cfg": sh["cfg"], "buffer_cap": effective(sh["cfg"])[3]}, cap=1)
    elif sh["kind"] == "C":
        from vlib import e2_worker as e2
        for cell in sh["cells"]:
            run_part_c(run, e2, cell[0], cell[1], sh["cfg"], unread=len(cell) > 2 and bool(cell[2]))
        run.sample({"part": "C", "cells": sh["cells"][:3], "cfg": sh["cfg"]}, cap=1)
    else:
        run_part_b(run, e1, sh["flood"], sh["cfg"], sh["piece"], sh["factor"], unread=sh.get("unread", False))
        for name in sh.get("more_unread", ()):
            run_part_b(run, e1, name, sh["cfg"], sh["piece"], sh["factor"], unread=True)
        run.sample({"part": "B", "flood": sh["flood"], "cfg": sh["cfg"], "read_size": sh["piece"],
                    "bound": bound(sh["cfg"])}, cap=1)
    return run


def main(tier, seed):
    run = Run(PROP, tier, seed, "exploration", RULE)
    run.require("A_accept_ok", "A_reject_ok", "A_either", "B_floods", "B_rejected_within_bound", "A_proxy_line_cases", "A_folded_field_cases", "C_worker_floods",
                "C_client_turned_away_within_bound", "A_either_one_verdict_for_all_deliveries", "A_fields_limit_zero_cases",
                "A_cut_between_cr_lf_of_request_line", "B_floods_body_left_unread", "C_worker_floods_body_left_unread")
    q = tier == "quick"
    shards = [{"kind": "A", "sub": i, "of": 16, "seed": seed, "tier": tier} for i in range(16)]
    shards += [{"kind": "A2", "cfg": cs, "sub": i, "seed": seed, "tier": tier} for i, cs in enumerate(A2_CFGS)]
    run.require("A2_served_in_full", "A_long_field_made_of_blanks_cases")
    rng = rng_for(seed, "c12-main")
    for name in FLOODS:
        for cfgset in FLOOD_CFGS:
            for piece in ([1, 8192, rng.randint(2, 8191)] if not q else [8192, rng.randint(2, 4000)]):
                if piece == 1 and bound(cfgset) > 400000:
                    continue
                shards.append({"kind": "B", "flood": name, "cfg": cfgset, "piece": piece,
                               "factor": 4 if q else 16, "seed": seed, "tier": tier})
                if FLOODS[name][2]:
                    # the same flood once more with an application that leaves the body unread (the parser skips it)
                    shards[-1]["more_unread"] = [name]
    if q:
        shards.append({"kind": "B", "flood": "trailer-lines", "cfg": FLOOD_CFGS[1], "piece": 1, "factor": 4,
                       "seed": seed, "tier": tier})
        shards.append({"kind": "B", "flood": "header-line", "cfg": FLOOD_CFGS[1], "piece": 1, "factor": 4,
                       "seed": seed, "tier": tier})
    ccells = [(k, n) for n in FLOODS for k in ("sync", "gthread", "async")]
    # ... and with the body left unread, on the loops that keep the connection (the sync worker closes after its one response)
    ccells += [(k, n, True) for n in FLOODS if FLOODS[n][2] for k in ("gthread", "async")]
    for i, cfgset in enumerate([FLOOD_CFGS[1], FLOOD_CFGS[3]] + ([] if q else [FLOOD_CFGS[0], FLOOD_CFGS[2]])):
        for j in range(4):
            shards.append({"kind": "C", "cells": ccells[j::4], "cfg": cfgset, "seed": seed, "tier": tier})
    run.assumptions = [
        "tolerance band: an element of exactly limit-1 or limit bytes may be accepted or rejected (docs do not say whether CRLF counts)",
        "limit_request_fields=0 (undocumented) is judged for acceptance only for a request without fields; heads larger than the configuration-derived "
        "buffer cap are not judged for acceptance",
        "where the verdict is left open (tolerance band, limit_request_fields=0, PROXY line longer than limit_request_line) it must still be ONE verdict: "
        "the same request served in one delivery and refused with a Limit* error in another breaks the statement under either reading",
        "floods are repeated with an application that does not read the body: the parser's own skipping of an unread body is under the same bound",
        "bound(cfg) = limit_request_line + fields*(field_size+2)+4 + 64 KiB; anything below passes, the source stops at 4x (16x thorough)",
        "header fields dropped by header_map=drop still count against limit_request_fields (settings documentation / code comment)",
    ]
    common.run_sharded(run, shards, timeout=900 if q else 7200)
    return run.finish()


def replay_c(case):
    from vlib import e2_worker as e2
    run = Run(PROP, "quick", 0, "exploration", RULE)
    run_part_c(run, e2, case["kind"], case["flood"], case["cfg"], unread=case.get("unread", False))
    return run


def replay(path):
    from vlib import e1_wire as e1
    with open(path) as f:
        rec = json.load(f)
    c = rec["case"]
    run = Run(PROP, "quick", 0, "exploration", RULE)
    if c["part"] == "B":
        run_part_b(run, e1, c["flood"], c["cfg"], c["piece"], c["factor"], unread=c.get("unread", False))
    elif c["part"] == "C":
        run = replay_c(c)
    elif c["part"] == "A2":
        sizes, ext = c["sizes"], c["ext"].encode()
        chunks = [bytes([97 + (i % 26)]) * n for i, n in enumerate(sizes) if n > 0]
        stream = b"POST /p HTTP/1.1\r\nTransfer-Encoding: chunked\r\n\r\n" + \
            b"".join(b"%x%s\r\n" % (len(x), ext) + x + b"\r\n" for x in chunks) + b"0\r\n\r\n" + gen.marker(1, b"end")
        ok, obs = a2_judge(e1, c["cfg"], stream, c["cuts"], b"".join(chunks))
        print("served in full=%s terminal=%s" % (ok, obs["terminal"]))
        if not ok:
            run.violation(rec["mechanism"], rec["summary"], c)
    else:
        cfg = e1.make_cfg(**c["cfg"])
        stream = bytes.fromhex(c["stream"])
        kw = {"peer": ("127.0.0.1", 5000)} if c["cfg"].get("proxy_protocol") else {}
        obs = e1.observe(cfg, gen.cut(stream, c["cuts"]), **kw)
        accepted = bool(obs["reqs"])
        print("want=%s accepted=%s terminal=%s" % (c["want"], accepted, obs["terminal"]))
        if c["want"] == "one-verdict":
            obs2 = e1.observe(cfg, gen.cut(stream, c["cuts_served"]), **kw)
            print("with cuts %s: accepted=%s terminal=%s" % (c["cuts_served"][:6], bool(obs2["reqs"]), obs2["terminal"]))
            if accepted != bool(obs2["reqs"]):
                run.violation(rec["mechanism"], rec["summary"], c)
        elif (c["want"] == "accept") != accepted:
            run.violation(rec["mechanism"], rec["summary"], c)
    for mech, s, _ in run.violations:
        print("VIOLATION property=%s replay=%s\n  %s %s" % (PROP, path, mech, s))
    if not run.violations:
        print("no violation on replay")
    return 1 if run.violations else 0
