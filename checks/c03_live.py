"""Live validation part of C03 (engine E4): the same kinds of histories as the simulated part, against a real
master.  The process table at quiescence (live children of the master in /proc, zombies) must equal the reference
model; real boot failures (exit status 3 and 4) must stop the master with that status.  Also covers the child branch
of spawn_worker, which the simulation cannot execute.
"""
import os
import signal
import time

BAD_APP_NO_ATTR = "x = 1\n"                                   # import works, attribute 'app' missing -> AppImportError -> exit 4
BAD_APP_RAISES = "raise RuntimeError('boom at import')\n"     # exception while loading -> worker not booted -> exit 3

# boot failures produced by a server hook of the configuration instead of the application: the hook still calls the event
# logger of the generated config (wait_workers relies on the post_worker_init events), then raises for every worker whose
# age (spawn counter) has reached FROM_AGE.  post_fork runs first thing in the child, post_worker_init last thing before the
# worker's main loop: both belong to the boot sequence (the worker has not served anything yet).
HOOK_FAILS = {
    "post_worker_init": ("_c03_orig_hook = post_worker_init\n"
                         "def post_worker_init(worker):\n"
                         "    _c03_orig_hook(worker)\n"
                         "    if worker.age >= %d:\n"
                         "        raise RuntimeError('post_worker_init hook fails (scripted)')\n"),
    "post_fork": ("_c03_orig_hook = post_fork\n"
                  "def post_fork(server, worker):\n"
                  "    _c03_orig_hook(server, worker)\n"
                  "    if worker.age >= %d:\n"
                  "        raise RuntimeError('post_fork hook fails (scripted)')\n"),
}

# The environment's part of "SIGCHLD is handled between fork() returning and the master recording the pid": the master's NTH
# fork() returns late - the new child has been killed meanwhile and the master's own SIGCHLD handler has run (inside the
# sleep) - exactly what the master sees when it is descheduled right after fork().  gunicorn's code is untouched.
EARLY_DEATH_CONF = r"""
if not hasattr(_os, "_c03_real_fork"):
    _os._c03_real_fork = _os.fork
    _c03_master = _os.getpid()
    _c03_forks = [0]
    def _c03_fork():
        pid = _os._c03_real_fork()
        if pid == 0 or _os.getpid() != _c03_master:
            return pid
        _c03_forks[0] += 1
        if _c03_forks[0] == %d:
            import signal as _signal
            _os.kill(pid, _signal.SIGKILL)
            limit = _time.monotonic() + 5
            while _os.path.exists("/proc/%%d" %% pid) and _time.monotonic() < limit:
                _time.sleep(0.02)
            _ev("early_death", wpid=pid, reaped=not _os.path.exists("/proc/%%d" %% pid))
            _c03_stale.append(pid)
        return pid
    _os.fork = _c03_fork
    # safety net for the shared machine (pid_max is small here): should that pid number be handed to an unrelated process while a
    # master still signals it, the signal is not sent and the master gets the answer it would get without the reuse
    _c03_stale = []
    _c03_real_kill = _os.kill
    def _c03_kill(pid, sig):
        if pid in _c03_stale and _os.getpid() == _c03_master:
            try:
                with open("/proc/%%d/stat" %% pid) as f:
                    ppid = int(f.read().rsplit(")", 1)[1].split()[1])
            except (OSError, ValueError, IndexError):
                ppid = None
            if ppid is not None and ppid != _c03_master:
                _ev("foreign_pid_spared", wpid=pid, sig=int(sig))
                raise ProcessLookupError(3, "No such process")
        return _c03_real_kill(pid, sig)
    _os.kill = _c03_kill
"""
STALE_GRACE = 3         # as in the simulated part: seconds beyond `timeout` the master is given to drop a pid that no longer exists


def worker_exit_codes(srv):
    """Exit codes of workers as the master logged them."""
    import re
    return [int(m) for m in re.findall(r"Worker \(pid:\d+\) exited with code (\d+)(?![\d.])", srv.error_log() + srv.stderr())]


PRELOAD_SIGNALS = """
import signal as _c03_signal
_c03_signal.signal(_c03_signal.SIGCHLD, _c03_signal.SIG_DFL)
for _c03_s in (_c03_signal.SIGTTIN, _c03_signal.SIGTTOU, _c03_signal.SIGHUP, _c03_signal.SIGTERM):
    _c03_signal.signal(_c03_s, _c03_signal.SIG_IGN)
"""


def wait_master_stops(srv, failure_seen, give_up=None):
    """Wait for the master to end after a boot failure.  Returns (wait status | None, seconds waited).  None = it outlived
    the failure: either it logged a worker's exit with status 3/4 itself and was still running 15 s after we saw that line,
    or the failure is (by `failure_seen()`, evidence from the worker's side; None = not yet) 60 s old.  On a busy machine
    starting an interpreter takes seconds: nothing here counts from the launch."""
    t0 = time.monotonic()
    logged = failed = None
    while True:
        st = srv.wait_exit(srv.master_pid, 0.25)
        now = time.monotonic()
        if st is not None:
            return st, now - t0
        if give_up is not None and give_up():
            return None, now - t0
        if logged is None and any(c in (3, 4) for c in worker_exit_codes(srv)):
            logged = now
        if failed is None and failure_seen():
            failed = now
        if (logged is not None and now - logged > 15) or (failed is not None and now - failed > 60):
            return None, now - t0
        if now - t0 > 180:
            return "no-failure", now - t0


def hook_bootfail(run, e4, sc):
    """A worker that cannot boot because a server hook raises.  `late`: the first pool boots and serves, a worker is then killed
    and it is the replacement that cannot boot.  Either way the master must stop with the boot-failure status (3), must not
    fork replacement after replacement, and must not leave workers behind."""
    v = []
    info = {}
    nw = sc["workers"]
    late = bool(sc.get("late"))
    srv = e4.Server("c03", worker_class=sc["class"], workers=nw, settings={"graceful_timeout": 2, "timeout": 5},
                    conf_extra=HOOK_FAILS[sc["hook"]] % (nw + 1 if late else 1))
    try:
        srv.start()
        forks0 = 0
        if late:
            w0 = srv.wait_workers(nw, 25)
            if not w0:
                return v, "server did not boot: %s" % srv.stderr()[-300:], info
            r = e4.request(srv.addr, "/pid", timeout=5)
            if r["outcome"] != "ok":
                v.append(("pool-not-serving", r["outcome"]))
            forks0 = nw
            try:
                os.kill(w0[0], signal.SIGKILL)
            except OSError:
                pass
        # a respawn loop shows within a second or two (tens of forks): no need to sit out the whole wait then
        allowed = forks0 + 2 * nw

        def hook_failed():
            return any(e["kind"] == sc["hook"] and e["age"] >= (nw + 1 if late else 1) for e in srv.events())

        st, waited = wait_master_stops(srv, hook_failed,
                                       give_up=lambda: len([e for e in srv.events() if e["kind"] == "pre_fork"]) > allowed + 6)
        if st == "no-failure":
            return v, "the failing hook never ran: %s" % srv.stderr()[-300:], info
        forks = len([e for e in srv.events() if e["kind"] == "pre_fork"])
        info["forks"] = forks
        info["worker_exit_codes"] = worker_exit_codes(srv)[:8]
        failed = len([e for e in srv.events() if e["kind"] == sc["hook"] and e["age"] >= (nw + 1 if late else 1)])
        info["hook_failures"] = failed
        if not failed:
            return v, "the failing hook never ran: %s" % srv.stderr()[-300:], info
        if forks > allowed:
            v.append(("respawn-after-boot-failure", "%d forks (%d allowed: %d configured workers%s) - the %s hook raises in every new worker, "
                      "worker exit codes logged by the master: %s" % (forks, allowed, nw, ", one killed" if late else "", sc["hook"],
                                                                      info["worker_exit_codes"])))
        if st is None:
            if forks <= allowed + 6:
                v.append(("boot-failure-did-not-stop-master", "master still running %.0f s after the start, long after a worker failed "
                          "to boot (%s hook raised), worker exit codes logged by the master: %s" % (waited, sc["hook"],
                                                                                             info["worker_exit_codes"])))
            return v, None, info
        code = None if st[0] is None else (st[0] >> 8)
        info["exit_code"] = code
        if code != 3:
            v.append(("wrong-exit-status-after-boot-failure", "master exited with %r, expected 3 (%s hook raised): %s" % (
                code, sc["hook"], srv.stderr()[-300:])))
        else:
            run.count("live_boot_failure_exit_status_checks")
            run.count("live_hook_boot_failure_checks")
            if late:
                run.count("live_late_boot_failure_checks")
        time.sleep(0.5)
        left = [p for p in srv.session_pids()]
        if left:
            time.sleep(1.0)
            left = [p for p in srv.session_pids()]
        if left:
            v.append(("orphan-at-master-exit", "processes %s of the server's session still alive after the master exited" % left))
        return v, None, info
    finally:
        srv.cleanup()


def early_death(run, e4, sc):
    """A freshly forked worker is dead and reaped before the master records its pid (recorded finding: the pool is one short
    for a while).  With timeout > 0 the master's heartbeat scan meets a pid that does not exist and has to drop it: the pool
    must be complete again once timeout + STALE_GRACE seconds have passed."""
    v = []
    info = {}
    nw = sc["workers"]
    tmo = 3
    srv = e4.Server("c03", worker_class=sc["class"], workers=nw, settings={"graceful_timeout": 2, "timeout": tmo},
                    conf_extra=EARLY_DEATH_CONF % sc["nth"])
    try:
        srv.start()
        if sc["nth"] > nw:
            w0 = srv.wait_workers(nw, 25)
            if not w0:
                return v, "server did not boot: %s" % srv.stderr()[-300:], info
            for p in w0[:sc["nth"] - nw]:
                try:
                    os.kill(p, signal.SIGKILL)
                except OSError:
                    pass
        t0 = time.monotonic()
        ev = None
        while time.monotonic() - t0 < 20 and ev is None:
            ev = next((e for e in srv.events() if e["kind"] == "early_death"), None)
            if ev is None:
                time.sleep(0.05)
        if ev is None or not ev["reaped"]:
            return v, "the interleaving was not produced (%r): %s" % (ev, srv.stderr()[-300:]), info
        info["stale_pid"] = ev["wpid"]
        run.count("live_reaped_before_recorded")
        time.sleep(max(0.0, ev["t"] + tmo + STALE_GRACE - time.monotonic()))
        w = wait_pool(e4, srv, nw, timeout=5.0)
        info["live"] = len(w)
        info["judged_after_s"] = round(time.monotonic() - ev["t"], 1)
        log = srv.error_log() + srv.stderr()
        info["timeout_scan_met_stale_pid"] = ("WORKER TIMEOUT (pid:%d)" % ev["wpid"]) in log
        if not e4.alive(srv.master_pid):
            v.append(("master-exited-without-cause", srv.stderr()[-300:]))
            return v, None, info
        if len(w) != nw:
            v.append(("phantom-worker/not-dropped-by-timeout-scan",
                      "real master: pid %d was reaped before the master recorded it; %.1f s later (timeout=%d) the master has %d live "
                      "workers %s, %d configured; WORKER TIMEOUT logged for that pid: %s" % (
                          ev["wpid"], time.monotonic() - ev["t"], tmo, len(w), w, nw, info["timeout_scan_met_stale_pid"])))
            return v, None, info        # such a master goes on signalling a pid it does not own: stop it at once (cleanup)
        run.count("live_stale_entry_dropped")
        run.count("traces_validated_against_impl")
        z = zombies_of(e4, srv.master_pid)
        if z:
            time.sleep(1.5)
            z = zombies_of(e4, srv.master_pid)
        if z:
            v.append(("zombie-at-quiescence", "zombie children %s of the master" % z))
        r = e4.request(srv.addr, "/pid", timeout=5)
        if r["outcome"] != "ok":
            v.append(("pool-not-serving", r["outcome"]))
        srv.signal(signal.SIGTERM)
        st = srv.wait_exit(srv.master_pid, 10)
        if st is None or (st[0] not in (0, None)):
            v.append(("nonzero-exit-after-stop-signal", "exit %r" % (st,)))
        return v, None, info
    finally:
        srv.cleanup()


def zombies_of(e4, master):
    t = e4.proc_table()
    return sorted(p for p, (pp, st, _) in t.items() if pp == master and st == "Z")


def wait_pool(e4, srv, n, timeout=12.0):
    t0 = time.monotonic()
    stable_since = None
    while time.monotonic() - t0 < timeout:
        w = srv.worker_pids()
        if len(w) == n:
            stable_since = stable_since or time.monotonic()
            if time.monotonic() - stable_since > 1.2:
                return w
        else:
            stable_since = None
        time.sleep(0.05)
    return srv.worker_pids()


def failed_upgrade(run, e4, sc):
    """A binary upgrade whose new master gives up (its workers cannot load the application: it exits with the boot-failure
    status).  That is not a boot failure of one of THIS master's workers: the pool stays as it is and the master runs on."""
    v = []
    info = {}
    app_source = e4.APP_SOURCE.replace(
        "import os, sys, time, signal, json\n",
        "import os, sys, time, signal, json\n"
        "if os.environ.get('GUNICORN_PID'):\n"
        "    raise RuntimeError('scripted failure while loading the application in the new release')\n", 1)
    srv = e4.Server("c03", worker_class=sc["class"], workers=sc["workers"], settings={"graceful_timeout": 2, "timeout": 5}, app_source=app_source)
    try:
        srv.start()
        w0 = srv.wait_workers(sc["workers"], 25)
        if not w0:
            return v, "server did not boot: %s" % srv.stderr()[-300:], info
        master = srv.master_pid
        srv.signal(signal.SIGUSR2)
        t0 = time.monotonic()
        seen_new = False
        while time.monotonic() - t0 < 25:
            if not e4.alive(master):
                break
            extra = [p for p in srv.children_of(master) if p not in w0]
            seen_new = seen_new or bool(extra)
            if seen_new and not extra:
                break
            time.sleep(0.1)
        if not seen_new:
            return v, "no new master appeared after USR2", info
        time.sleep(1.0)
        run.count("live_failed_upgrade_checks")
        if not e4.alive(master):
            st = srv.wait_exit(master, 2)
            v.append(("master-stopped-by-failed-upgrade", "the new master of a binary upgrade gave up with the boot-failure status; the old "
                      "master exited too (status %r): %s" % (st and st[0] is not None and st[0] >> 8,
                                                             [ln for ln in srv.error_log().splitlines() if "rror" in ln][-2:])))
            return v, None, info
        w = wait_pool(e4, srv, sc["workers"], timeout=8)
        if sorted(w) != sorted(w0):
            v.append(("pool-disturbed-by-failed-upgrade", "workers %s before the failed upgrade, %s after" % (w0, w)))
        r = e4.request(srv.addr, "/pid", timeout=5)
        if r["outcome"] != "ok":
            v.append(("pool-not-serving", r["outcome"]))
        srv.signal(signal.SIGTERM)
        srv.wait_exit(master, 10)
        return v, None, info
    finally:
        srv.cleanup()


def scenario(run, e4, sc):
    v = []
    info = {}
    kind = sc["kind"]
    wc = sc["class"]
    if kind == "failed_upgrade":
        return failed_upgrade(run, e4, sc)
    if kind == "bootfail_hook":
        return hook_bootfail(run, e4, sc)
    if kind == "early_death":
        return early_death(run, e4, sc)
    if kind in ("bootfail3", "bootfail4"):
        srv = e4.Server("c03", worker_class=wc, workers=sc["workers"], settings={"graceful_timeout": 2, "timeout": 5},
                        app_source=BAD_APP_RAISES if kind == "bootfail3" else BAD_APP_NO_ATTR)
        try:
            srv.start()
            # (the worker's side of the failure: its traceback on the server's stderr / error log)
            st, waited = wait_master_stops(srv, lambda: "Traceback" in srv.stderr() + srv.error_log() or bool(worker_exit_codes(srv)))
            if st == "no-failure":
                return v, "no worker got as far as failing to boot within 180 s: %s" % srv.stderr()[-300:], info
            if st is None:
                v.append(("boot-failure-did-not-stop-master", "master still running %.0f s after the start, long after its workers "
                          "failed to boot (%s)" % (waited, kind)))
                return v, None, info
            status = st[0]
            code = None if status is None else (status >> 8)
            info["exit_code"] = code
            want = 3 if kind == "bootfail3" else 4
            forks = len([e for e in srv.events() if e["kind"] == "pre_fork"])
            info["forks"] = forks
            if code != want:
                err = srv.stderr()
                if code == 1 and "HaltServer" in err and "Traceback" in err and sc["workers"] > 1:
                    v.append(("master-loop-exception/HaltServer-raised-while-already-halting",
                              "%d workers all failing with status %d: master exited with status 1 and a HaltServer traceback" % (
                                  sc["workers"], want)))
                else:
                    v.append(("wrong-exit-status-after-boot-failure", "master exited with %r, expected %d: %s" % (
                        code, want, err[-300:])))
            else:
                run.count("live_boot_failure_exit_status_checks")
            if forks > 2 * sc["workers"]:
                v.append(("respawn-after-boot-failure", "%d forks for %d configured workers" % (forks, sc["workers"])))
            time.sleep(0.5)
            left = [p for p in srv.session_pids()]
            if left:
                v.append(("orphan-at-master-exit", "processes %s of the server's session still alive after the master exited" % left))
            return v, None, info
        finally:
            srv.cleanup()
    settings = {"graceful_timeout": 2, "timeout": 5}
    app_source = None
    if sc.get("preload_signals"):
        # the application is loaded in the master (preload_app) and its imports set signal dispositions of their own (the idiom in
        # front of subprocess use: SIGCHLD back to the default; a library that ignores / handles the terminal and hang-up signals).
        # The master's own handlers are what drives the pool all the same.
        settings["preload_app"] = True
        app_source = PRELOAD_SIGNALS + e4.APP_SOURCE
        run.count("live_preloaded_application_sets_signal_dispositions")
    srv = e4.Server("c03", worker_class=wc, workers=sc["workers"], settings=settings, app_source=app_source)
    try:
        srv.start()
        w0 = srv.wait_workers(sc["workers"], 25)
        if not w0:
            return v, "server did not boot: %s" % srv.stderr()[-300:], info
        target = sc["workers"]
        killed_by_harness = set()
        if kind == "upgraded":
            # the master under observation is one that was started by a binary upgrade (USR2) and promoted
            from checks.c14 import find_new_master
            old = srv.master_pid
            srv.signal(signal.SIGUSR2)
            new = find_new_master(e4, srv, old, set(w0), timeout=20)
            if new is None:
                return v, "no new master after USR2: %s" % srv.error_log()[-200:], info
            srv.wait_workers(sc["workers"], 20, master=new)
            srv.signal(signal.SIGTERM, old)
            if srv.wait_exit(old, 15) is None:
                return v, "old master did not exit", info
            srv.master_pid = new
            time.sleep(1.2)
        for step in sc["steps"]:
            op = step[0]
            if op == "kill":
                ws = srv.worker_pids()
                for p in ws[:step[1]]:
                    killed_by_harness.add(p)
                    try:
                        os.kill(p, signal.SIGKILL)
                    except OSError:
                        pass
            elif op == "kill2fast":
                # two workers die a few milliseconds apart: the second death is reaped while the master is busy replacing the first
                ws = srv.worker_pids()
                for p in ws[:2]:
                    killed_by_harness.add(p)
                    try:
                        os.kill(p, signal.SIGKILL)
                    except OSError:
                        pass
                    time.sleep(step[1])
            elif op == "ttin":
                srv.signal(signal.SIGTTIN)
                target += 1
            elif op == "ttou":
                srv.signal(signal.SIGTTOU)
                if target > 1:
                    target -= 1
            elif op == "hup":
                srv.workers = step[1]
                srv.write_conf()
                srv.signal(signal.SIGHUP)
                target = step[1]
            elif op == "sleep":
                time.sleep(step[1])
            time.sleep(0.12)        # pace: the arbiter's signal queue holds 5
        w = wait_pool(e4, srv, target)
        info["target"] = target
        info["live"] = len(w)
        if not e4.alive(srv.master_pid):
            v.append(("master-exited-without-cause", srv.stderr()[-300:]))
            return v, None, info
        if len(w) != target:
            v.append(("pool-size-wrong-at-quiescence", "real master: %d live workers, model %d after %s" % (len(w), target, sc["steps"])))
        else:
            run.count("live_pool_checks")
            run.count("traces_validated_against_impl")
        if all(st[0] in ("kill", "kill2fast", "sleep") for st in sc["steps"]) and kind != "upgraded":
            # nothing asked the master to shrink the pool: a worker that nobody killed is not surplus and must still be there
            gone = [p for p in w0 if p not in killed_by_harness and p not in w]
            run.count("live_bystander_checks")
            if gone:
                v.append(("worker-that-was-not-surplus-stopped", "workers %s were neither killed by the harness nor surplus, yet they are gone "
                          "after %s (initial %s, now %s)" % (gone, sc["steps"], w0, w)))
        z = zombies_of(e4, srv.master_pid)
        if z:
            time.sleep(1.5)
            z = zombies_of(e4, srv.master_pid)
        if z:
            v.append(("zombie-at-quiescence", "zombie children %s of the master" % z))
        r = e4.request(srv.addr, "/pid", timeout=5)
        if r["outcome"] != "ok":
            v.append(("pool-not-serving", r["outcome"]))
        srv.signal(signal.SIGTERM)
        st = srv.wait_exit(srv.master_pid, 10)
        if st is None or (st[0] not in (0, None)):
            v.append(("nonzero-exit-after-stop-signal", "exit %r" % (st,)))
        return v, None, info
    finally:
        srv.cleanup()


def plan(run, tier, seed):
    run.require("live_preloaded_application_sets_signal_dispositions", "live_failed_upgrade_checks", "live_bystander_checks", "live_pool_checks", "live_boot_failure_exit_status_checks", "live_hook_boot_failure_checks",
                "live_late_boot_failure_checks", "live_reaped_before_recorded", "live_stale_entry_dropped")
    classes = ["sync", "gthread", "gevent", "eventlet"]
    hs = [
        {"workers": 2, "steps": [["kill", 1]]},
        {"workers": 2, "steps": [["ttin"], ["ttin"], ["ttou"]]},
        {"workers": 1, "steps": [["ttou"], ["ttou"]]},
        {"workers": 2, "steps": [["hup", 3]]},
        {"workers": 3, "steps": [["kill", 3], ["ttin"]]},
        {"workers": 2, "steps": [["hup", 1], ["sleep", 0.3], ["ttin"], ["kill", 1]]},
        {"workers": 1, "steps": [["ttin"], ["ttin"], ["ttin"], ["ttou"], ["kill", 2], ["hup", 2]]},
        {"workers": 4, "steps": [["ttou"], ["ttou"], ["ttou"], ["ttou"], ["kill", 1]]},
    ]
    fast = [{"workers": 4, "steps": [["kill2fast", 0.01], ["sleep", 1.0], ["kill2fast", 0.03]]},
            {"workers": 5, "steps": [["kill2fast", 0.0], ["sleep", 0.6], ["kill2fast", 0.05], ["sleep", 0.6], ["kill2fast", 0.02]]}]
    out = []
    for i, h in enumerate(hs):
        if tier == "quick" and (i + seed) % 2:
            continue
        out.append(dict(h, kind="history", **{"class": classes[(i + seed) % 4]}))
    for i, h in enumerate(fast):
        out.append(dict(h, kind="history", **{"class": classes[(i + seed) % 4]}))
    # a preloaded application whose imports set signal dispositions in the master
    out.append({"kind": "history", "workers": 2, "preload_signals": True, "class": classes[(seed + 1) % 4],
                "steps": [["kill", 1], ["sleep", 0.5], ["ttin"], ["kill", 2], ["sleep", 0.5], ["hup", 2]]})
    out.append({"kind": "failed_upgrade", "workers": 2, "class": classes[(seed + 2) % 3]})
    out.append({"kind": "upgraded", "workers": 2, "steps": [["kill", 1], ["sleep", 0.5], ["ttin"], ["kill", 2]], "class": classes[(seed + 1) % 3]})
    out.append({"kind": "bootfail3", "workers": 1, "class": "sync"})
    out.append({"kind": "bootfail4", "workers": 1, "class": classes[seed % 4]})
    out.append({"kind": "bootfail4", "workers": 2, "class": "sync"})
    # a server hook that raises in the child: first thing after fork (post_fork) / last thing before the main loop (post_worker_init)
    out.append({"kind": "bootfail_hook", "hook": "post_worker_init", "workers": 2, "class": classes[seed % 4]})
    out.append({"kind": "bootfail_hook", "hook": ["post_fork", "post_worker_init"][seed % 2], "workers": 2, "late": True,
                "class": classes[(seed + 2) % 4]})
    out.append({"kind": "bootfail_hook", "hook": "post_fork", "workers": 1, "class": classes[(seed + 1) % 4]})
    # a fresh worker dead and reaped before the master records it: the entry has to go once the heartbeat timeout has passed
    out.append({"kind": "early_death", "workers": 2, "nth": 1 + seed % 3, "class": classes[(seed + 3) % 4]})
    if tier == "thorough":
        for wc in classes:
            out.append({"kind": "bootfail3", "workers": 2, "class": wc})
        for i, wc in enumerate(classes):
            for nth in (1, 2, 3):
                sc = {"kind": "early_death", "workers": 2, "nth": nth, "class": wc}
                if sc not in out:
                    out.append(sc)
        for i, wc in enumerate(classes):
            for hook in ("post_fork", "post_worker_init"):
                for late in (False, True):
                    sc = {"kind": "bootfail_hook", "hook": hook, "workers": 1 + (i + late) % 2, "late": late, "class": wc}
                    if not any(all(o.get(k) == sc[k] for k in sc) for o in out):
                        out.append(sc)
    return [{"kind": "live", "scenario": dict(sc, idx=i), "seed": seed, "tier": tier} for i, sc in enumerate(out)]


def shard(run, sh):
    from vlib import e4_live as e4
    sc = sh["scenario"]
    reason = None
    for attempt in range(3):
        v, reason, info = scenario(run, e4, sc)
        if reason is None or v:
            break
    run.case(("live", sc["kind"], sc["class"], sc["workers"], str(sc.get("steps")), sc.get("hook"), sc.get("late"), sc.get("nth"), sc.get("preload_signals")))
    run.count("live_scenarios")
    for mech, summary in v:
        run.violation(mech, summary + " | info=%s" % info, {"live": sc})
    if reason is not None and not v:
        if "scheduling lag" in reason:
            run.count("cells_skipped_for_scheduling_lag")      # measured lag made the wall-clock judgement unsafe, three times
        else:
            run.inconclusive_because("live scenario %s: %s" % (sc["idx"], reason))
    run.sample({"live": sc, "observed": info}, cap=2)


def replay_case(run, c):
    from vlib import e4_live as e4
    v, reason, info = scenario(run, e4, c["live"])
    print("info:", info, "inconclusive:", reason)
    return v
