"""Live validation part of C03 (engine E4): the same kinds of histories as the simulated part, against a real
master.  The process table at quiescence (live children of the master in /proc, zombies) must equal the reference
model; real boot failures (exit status 3 and 4) must stop the master with that status.  Also covers the child branch
of spawn_worker, which the simulation cannot execute.
"""
import os
import signal
import time

BAD_APP_NO_ATTR = "x = 1\n"                                   # import works, attribute 'app' missing -> AppImportError -> exit 4
BAD_APP_RAISES = "raise RuntimeError('boom at import')\n"     # exception while loading -> worker not booted -> exit 3


def zombies_of(e4, master):
    t = e4.proc_table()
    return sorted(p for p, (pp, st, _) in t.items() if pp == master and st == "Z")


def wait_pool(e4, srv, n, timeout=12.0):
    t0 = time.monotonic()
    stable_since = None
    while time.monotonic() - t0 < timeout:
        w = srv.worker_pids()
        if len(w) == n:
            stable_since = stable_since or time.monotonic()
            if time.monotonic() - stable_since > 1.2:
                return w
        else:
            stable_since = None
        time.sleep(0.05)
    return srv.worker_pids()


def scenario(run, e4, sc):
    v = []
    info = {}
    kind = sc["kind"]
    wc = sc["class"]
    if kind in ("bootfail3", "bootfail4"):
        srv = e4.Server("c03", worker_class=wc, workers=sc["workers"], settings={"graceful_timeout": 2, "timeout": 5},
                        app_source=BAD_APP_RAISES if kind == "bootfail3" else BAD_APP_NO_ATTR)
        try:
            srv.start()
            st = srv.wait_exit(srv.master_pid, 20)
            if st is None:
                v.append(("boot-failure-did-not-stop-master", "master still running 20 s after its workers failed to boot (%s)" % kind))
                return v, None, info
            status = st[0]
            code = None if status is None else (status >> 8)
            info["exit_code"] = code
            want = 3 if kind == "bootfail3" else 4
            forks = len([e for e in srv.events() if e["kind"] == "pre_fork"])
            info["forks"] = forks
            if code != want:
                err = srv.stderr()
                if code == 1 and "HaltServer" in err and "Traceback" in err and sc["workers"] > 1:
                    v.append(("master-loop-exception/HaltServer-raised-while-already-halting",
                              "%d workers all failing with status %d: master exited with status 1 and a HaltServer traceback" % (
                                  sc["workers"], want)))
                else:
                    v.append(("wrong-exit-status-after-boot-failure", "master exited with %r, expected %d: %s" % (
                        code, want, err[-300:])))
            else:
                run.count("live_boot_failure_exit_status_checks")
            if forks > 2 * sc["workers"]:
                v.append(("respawn-after-boot-failure", "%d forks for %d configured workers" % (forks, sc["workers"])))
            time.sleep(0.5)
            left = [p for p in srv.session_pids()]
            if left:
                v.append(("orphan-at-master-exit", "processes %s of the server's session still alive after the master exited" % left))
            return v, None, info
        finally:
            srv.cleanup()
    srv = e4.Server("c03", worker_class=wc, workers=sc["workers"], settings={"graceful_timeout": 2, "timeout": 5})
    try:
        srv.start()
        w0 = srv.wait_workers(sc["workers"], 25)
        if not w0:
            return v, "server did not boot: %s" % srv.stderr()[-300:], info
        target = sc["workers"]
        if kind == "upgraded":
            # the master under observation is one that was started by a binary upgrade (USR2) and promoted
            from checks.c14 import find_new_master
            old = srv.master_pid
            srv.signal(signal.SIGUSR2)
            new = find_new_master(e4, srv, old, set(w0), timeout=20)
            if new is None:
                return v, "no new master after USR2: %s" % srv.error_log()[-200:], info
            srv.wait_workers(sc["workers"], 20, master=new)
            srv.signal(signal.SIGTERM, old)
            if srv.wait_exit(old, 15) is None:
                return v, "old master did not exit", info
            srv.master_pid = new
            time.sleep(1.2)
        for step in sc["steps"]:
            op = step[0]
            if op == "kill":
                ws = srv.worker_pids()
                for p in ws[:step[1]]:
                    try:
                        os.kill(p, signal.SIGKILL)
                    except OSError:
                        pass
            elif op == "ttin":
                srv.signal(signal.SIGTTIN)
                target += 1
            elif op == "ttou":
                srv.signal(signal.SIGTTOU)
                if target > 1:
                    target -= 1
            elif op == "hup":
                srv.workers = step[1]
                srv.write_conf()
                srv.signal(signal.SIGHUP)
                target = step[1]
            elif op == "sleep":
                time.sleep(step[1])
            time.sleep(0.12)        # pace: the arbiter's signal queue holds 5
        w = wait_pool(e4, srv, target)
        info["target"] = target
        info["live"] = len(w)
        if not e4.alive(srv.master_pid):
            v.append(("master-exited-without-cause", srv.stderr()[-300:]))
            return v, None, info
        if len(w) != target:
            v.append(("pool-size-wrong-at-quiescence", "real master: %d live workers, model %d after %s" % (len(w), target, sc["steps"])))
        else:
            run.count("live_pool_checks")
            run.count("traces_validated_against_impl")
        z = zombies_of(e4, srv.master_pid)
        if z:
            time.sleep(1.5)
            z = zombies_of(e4, srv.master_pid)
        if z:
            v.append(("zombie-at-quiescence", "zombie children %s of the master" % z))
        r = e4.request(srv.addr, "/pid", timeout=5)
        if r["outcome"] != "ok":
            v.append(("pool-not-serving", r["outcome"]))
        srv.signal(signal.SIGTERM)
        st = srv.wait_exit(srv.master_pid, 10)
        if st is None or (st[0] not in (0, None)):
            v.append(("nonzero-exit-after-stop-signal", "exit %r" % (st,)))
        return v, None, info
    finally:
        srv.cleanup()


def plan(run, tier, seed):
    run.require("live_pool_checks", "live_boot_failure_exit_status_checks")
    classes = ["sync", "gthread", "gevent", "eventlet"]
    hs = [
        {"workers": 2, "steps": [["kill", 1]]},
        {"workers": 2, "steps": [["ttin"], ["ttin"], ["ttou"]]},
        {"workers": 1, "steps": [["ttou"], ["ttou"]]},
        {"workers": 2, "steps": [["hup", 3]]},
        {"workers": 3, "steps": [["kill", 3], ["ttin"]]},
        {"workers": 2, "steps": [["hup", 1], ["sleep", 0.3], ["ttin"], ["kill", 1]]},
        {"workers": 1, "steps": [["ttin"], ["ttin"], ["ttin"], ["ttou"], ["kill", 2], ["hup", 2]]},
        {"workers": 4, "steps": [["ttou"], ["ttou"], ["ttou"], ["ttou"], ["kill", 1]]},
    ]
    out = []
    for i, h in enumerate(hs):
        if tier == "quick" and (i + seed) % 2:
            continue
        out.append(dict(h, kind="history", **{"class": classes[(i + seed) % 4]}))
    out.append({"kind": "upgraded", "workers": 2, "steps": [["kill", 1], ["sleep", 0.5], ["ttin"], ["kill", 2]], "class": classes[(seed + 1) % 3]})
    out.append({"kind": "bootfail3", "workers": 1, "class": "sync"})
    out.append({"kind": "bootfail4", "workers": 1, "class": classes[seed % 4]})
    out.append({"kind": "bootfail4", "workers": 2, "class": "sync"})
    if tier == "thorough":
        for wc in classes:
            out.append({"kind": "bootfail3", "workers": 2, "class": wc})
    return [{"kind": "live", "scenario": dict(sc, idx=i), "seed": seed, "tier": tier} for i, sc in enumerate(out)]


def shard(run, sh):
    from vlib import e4_live as e4
    sc = sh["scenario"]
    reason = None
    for attempt in range(3):
        v, reason, info = scenario(run, e4, sc)
        if reason is None or v:
            break
    run.case(("live", sc["kind"], sc["class"], sc["workers"], str(sc.get("steps"))))
    run.count("live_scenarios")
    for mech, summary in v:
        run.violation(mech, summary + " | info=%s" % info, {"live": sc})
    if reason is not None and not v:
        if "scheduling lag" in reason:
            run.count("cells_skipped_for_scheduling_lag")      # measured lag made the wall-clock judgement unsafe, three times
        else:
            run.inconclusive_because("live scenario %s: %s" % (sc["idx"], reason))
    run.sample({"live": sc, "observed": info}, cap=2)


def replay_case(run, c):
    from vlib import e4_live as e4
    v, reason, info = scenario(run, e4, c["live"])
    print("info:", info, "inconclusive:", reason)
    return v
