"""C13 Threaded worker accounts for every connection and never stops serving.

Deciding monitor (E5): the real ThreadWorker.run() with its selector, sockets, executor and clock
scripted by a seeded scheduler; a shadow connection table updated at boundary events (accept,
register/unregister, dispatch, handler return, close) and invariants evaluated at the loop's
quiescent points.  A live part (E4) observes a real gthread worker's sockets when built.
"""
import json

from vlib import common
from vlib.common import Run, rng_for

PROP = "C13"
RULE = ("case = (threads 1-3, worker_connections 1-5 incl. <= threads, keepalive 0-2, 1-2 listeners, history of 4-40 scheduler steps "
        "from {client connects, sends a keep-alive / close / gated / malformed request or half of one, handler released, virtual time "
        "advances 0.3-3 s, client disconnects, stop}); two directed families: idle keep-alive connections queued one behind the other of which "
        "a younger one becomes busy and idle again before all expire, and events on idle connections timed around their keep-alive "
        "deadline within one polling round; short histories enumerated for the smallest configuration; distinct = sha1(case); "
        "non-trivial = >= 2 connections")


def gen_history(rng, cfg, nlisteners, polite):
    steps = []
    nclients = 0
    connected = []
    n = rng.randint(4, 40)
    half = set()
    gated = set()
    cap = cfg["worker_connections"]
    phantoms = rng.random() < 0.4
    for _ in range(n):
        k = rng.random()
        if k < 0.25:
            # "polite" histories stay one below worker_connections (where the loop keeps polling); the others may fill it
            if polite and cap > 1 and len(connected) >= cap - 1:
                continue
            cid = nclients
            nclients += 1
            steps.append(("connect", cid, rng.randrange(nlisteners)))
            connected.append(cid)
            if polite or rng.random() < 0.7:
                steps.append(("send", cid, rng.choice(["ka", "ka", "close", "half", "gated", "bad", "boom"])))
                if steps[-1][2] == "half":
                    half.add(cid)
                if steps[-1][2] == "gated":
                    gated.add(cid)
        elif k < 0.5 and connected:
            cid = rng.choice(connected)
            if cid in half:
                steps.append(("send", cid, "rest"))
                half.discard(cid)
            else:
                what = rng.choice(["ka", "ka", "close", "half", "gated", "boom"])
                steps.append(("send", cid, what))
                if what == "half":
                    half.add(cid)
                if what == "gated":
                    gated.add(cid)
        elif k < 0.6 and gated:
            cid = rng.choice(sorted(gated))
            steps.append(("release", cid))
            gated.discard(cid)
        elif k < 0.64 and phantoms:
            # another worker on the same listening socket wins the race for a connection
            steps.append(("phantom", rng.randrange(nlisteners)))
        elif k < 0.85:
            steps.append(("time", rng.choice([0.3, 0.7, 1.0, 1.0, 2.5, 3.0])))
        elif connected:
            cid = rng.choice(connected)
            steps.append(("disconnect", cid))
            connected.remove(cid)
            half.discard(cid)
    if rng.random() < 0.2:
        steps.append(("stop",))
    return [list(s) for s in steps]


def make_case(rng):
    threads = rng.randint(1, 3)
    cfg = {"threads": threads, "worker_connections": rng.choice([1, 2, 3, 3, 4, 4, 5, 5, 6]), "keepalive": rng.choice([0, 1, 2])}
    if rng.random() < 0.15:
        cfg["max_requests"] = rng.randint(1, 4)         # the worker leaves its loop by itself, possibly with work queued
    if rng.random() < 0.35:
        # hold pool threads back at the worker's lock so that the loop runs in between (interleaving exploration)
        cfg["_lock_delay"] = rng.choice([0.3, 0.6, 1.0])
        cfg["_lock_seed"] = rng.randrange(1 << 30)
    nl = rng.choice([1, 1, 2])
    polite = rng.random() < 0.75
    return {"cfg": cfg, "listeners": nl, "polite": polite, "history": gen_history(rng, cfg, nl, polite)}


def make_requeue_case(rng):
    """Several keep-alive connections idle one behind the other; connections that are NOT the oldest idle one become busy again
    (another request on the same connection) while the older ones have not expired, and are parked again; then everything idles
    out.  Afterwards new clients come (never more than worker_connections - 1, where the loop keeps polling)."""
    threads = rng.randint(1, 3)
    ka = rng.choice([1, 2, 2, 3])
    cfg = {"threads": threads, "worker_connections": threads + rng.choice([2, 3, 3, 4, 5]), "keepalive": ka}
    if rng.random() < 0.3:
        cfg["_lock_delay"] = rng.choice([0.3, 0.6, 1.0])
        cfg["_lock_seed"] = rng.randrange(1 << 30)
    share = cfg["worker_connections"] - threads
    m = rng.randint(2, min(4, share))
    steps = []
    t = 0.0
    budget = ka - 0.15                        # everything below happens before the oldest idle connection expires
    for cid in range(m):
        steps += [("connect", cid, 0), ("send", cid, "ka")]
        if rng.random() < 0.6:
            dt = rng.choice([0.05, 0.1, 0.2])
            if t + dt < budget:
                steps.append(("time", dt))
                t += dt
    for _ in range(rng.randint(1, 3)):
        cid = rng.randrange(1, m) if rng.random() < 0.85 else 0
        dt = rng.choice([0.05, 0.1, 0.2, 0.3])
        if t + dt < budget:
            steps.append(("time", dt))
            t += dt
        steps.append(("send", cid, rng.choice(["ka", "ka", "ka", "gated"])))
        if steps[-1][2] == "gated":
            steps += [("time", 0.05), ("release", cid)]
            t += 0.05
    # idle out
    left = ka + rng.choice([1.2, 2.0, 3.0])
    while left > 0:
        dt = rng.choice([0.5, 0.7, 1.0])
        steps.append(("time", dt))
        left -= dt
    # the next clients
    for cid in range(m, m + rng.randint(0, cfg["worker_connections"] - 1)):
        steps += [("connect", cid, 0), ("send", cid, rng.choice(["ka", "close", "ka"]))]
        if rng.random() < 0.3:
            steps.append(("time", 0.3))
    return {"cfg": cfg, "listeners": 1, "polite": True, "family": "requeue", "history": [list(x) for x in steps]}


def make_expiry_race_case(rng):
    """Something happens on an idle keep-alive connection - request bytes (good, malformed, half a request) or the client leaving -
    around the moment its keep-alive time runs out: slightly before, or after it but in the same select() round, i.e. before the
    loop has reaped the connection.  An unrelated event in between shifts the loop's one-second polling rounds against the
    keep-alive deadlines, otherwise a deadline and the end of a round coincide."""
    threads = rng.randint(1, 3)
    ka = rng.choice([1, 1, 2])
    cfg = {"threads": threads, "worker_connections": threads + rng.choice([1, 2, 3, 4]), "keepalive": ka}
    if rng.random() < 0.25:
        cfg["_lock_delay"] = rng.choice([0.3, 0.6])
        cfg["_lock_seed"] = rng.randrange(1 << 30)
    share = cfg["worker_connections"] - threads
    m = rng.randint(1, min(3, share))
    steps = []
    t = 0.0
    parked = {}
    for cid in range(m):
        steps += [("connect", cid, 0), ("send", cid, "ka")]
        parked[cid] = t
        if cid < m - 1 and rng.random() < 0.5:
            dt = rng.choice([0.05, 0.1, 0.2])
            steps.append(("time", dt))
            t += dt
    # the unrelated event: d seconds after the last connection went idle (a client that is served and leaves, or a connection
    # that another worker process wins)
    d = rng.choice([0.2, 0.35, 0.5, 0.65, 0.8])
    steps.append(("time", d))
    t += d
    if rng.random() < 0.6 and m + 1 < cfg["worker_connections"]:
        steps += [("connect", m, 0), ("send", m, "close")]
    else:
        steps.append(("phantom", 0))
    t_wake = t
    # events on the idle connections, relative to their deadlines; the current polling round ends at t_wake + ka
    evs = []
    for cid in range(m):
        if cid and rng.random() < 0.3:
            continue
        deadline = parked[cid] + ka
        round_end = t_wake + ka
        u = rng.random()
        if u < 0.7:
            at = deadline + rng.random() * max(0.01, round_end - deadline - 0.02) + 0.01       # past the deadline, same round
        elif u < 0.85:
            at = deadline - rng.choice([0.02, 0.1, 0.2])                                      # just before the deadline
        else:
            at = round_end + rng.choice([0.05, 0.3])                                          # after the loop had its chance to reap
        evs.append((round(at, 3), cid))
    evs.sort()
    for at, cid in evs:
        if at > t + 1e-9:
            steps.append(("time", round(at - t, 3)))
            t = at
        what = rng.choice(["ka", "ka", "bad", "half", "close", "boom", "disconnect", "disconnect"])
        steps.append(("disconnect", cid) if what == "disconnect" else ("send", cid, what))
    steps.append(("time", rng.choice([0.3, 1.0, 2.5])))
    for cid in range(m + 1, m + 1 + rng.randint(0, 2)):
        steps += [("connect", cid, 0), ("send", cid, rng.choice(["ka", "close"]))]
    return {"cfg": cfg, "listeners": 1, "polite": True, "family": "expiry-race", "history": [list(x) for x in steps]}


def run_case(run, e5, case):
    k = e5.run_history(case["cfg"], [tuple(s) for s in case["history"]], case["listeners"])
    v = list(k.violations)
    if k.hang:
        return v, "harness watchdog: " + k.hang, k
    end = getattr(k, "end", "?")
    if end.startswith("exception"):
        v.append(("worker-loop-exception/" + end.split(":")[1], end))
    elif end == "budget:iterations":
        v.append(("worker-loop-does-not-finish", "iteration budget exhausted (%d) at +%.1f s" % (k.iterations, k.now - 5000)))
    # after run() returned: connections of a stopped worker are closed by process exit - counted only
    left = [c.cid for c in k.conns.values() if c.closed_at is None]
    if left:
        run.count("info_open_at_run_return", len(left))
    for c in k.conns.values():
        if c.close_under_handler and not any(m == "closed-under-running-request" for m, _ in v):
            v.append(("closed-under-running-request", "connection %d" % c.cid))
        if c.closed_at is not None and c.early_close is not None and c.early_close < k.keepalive - 1e-6 and \
                not any(m == "keepalive-closed-early" for m, _ in v):
            v.append(("keepalive-closed-early", "connection %d closed %.2f s after its response, keepalive=%s" % (
                c.cid, c.early_close, k.keepalive)))
    for key, n in k.reach.items():
        run.count(key, n)
    run.count("histories")
    run.count("loop_iterations", k.iterations)
    run.count("selects", k.selects)
    run.count("accepted_connections", len(k.conns))
    if k.max_open >= case["cfg"]["worker_connections"]:
        run.count("histories_reaching_capacity")
    if any(e[1] == "close" and e[3] == "loop" for e in k.log):
        run.count("keepalive_expiries_observed")
    if getattr(k, "aux", None):
        run.info["aux_disagreement_sample"] = k.aux
    return v, None, k


def enum_histories(maxlen):
    """All histories up to maxlen steps over a small alphabet for threads=1, worker_connections=2, keepalive=1, two clients."""
    alpha = [("connect", 0), ("connect", 1), ("send", 0, "ka"), ("send", 1, "ka"), ("send", 0, "close"), ("send", 0, "boom"), ("send", 1, "half"),
             ("send", 1, "rest"), ("time", 0.7), ("time", 1.5), ("disconnect", 0), ("disconnect", 1), ("phantom", 0)]
    out = [[]]
    frontier = [[]]
    for _ in range(maxlen):
        nxt = []
        for h in frontier:
            for a in alpha:
                # prune: no action on a client that is not connected, no double connect
                c0 = ("connect", 0) in h
                c1 = ("connect", 1) in h
                if a[0] == "connect" and ((a[1] == 0 and c0) or (a[1] == 1 and c1)):
                    continue
                if a[0] in ("send", "disconnect") and not (c0 if a[1] == 0 else c1):
                    continue
                if a[0] in ("send",) and ("disconnect", a[1]) in h:
                    continue
                if a[0] == "disconnect" and a in h:
                    continue
                if a == ("send", 1, "rest") and ("send", 1, "half") not in h:
                    continue
                nxt.append(h + [a])
        out.extend(nxt)
        frontier = nxt
    return out


def shard(sh):
    from vlib import e5_gthread as e5
    tier = sh.get("tier", "quick")
    run = Run(PROP, tier, sh["seed"], "exploration", RULE)
    if sh["kind"] == "live":
        from checks import c13_live
        c13_live.shard(run, sh)
        return run
    if sh["kind"] == "random":
        rng = rng_for(sh["seed"], "c13", sh["sub"])
        for i in range(sh["n"]):
            if run.enough():
                break
            case = make_case(rng)
            v, reason, k = run_case(run, e5, case)
            nconn = len(set(s[1] for s in case["history"] if s[0] == "connect"))
            run.case(common.sha12(case), nontrivial=nconn >= 2)
            if reason:
                run.inconclusive_because(reason)
            for mech, summary in v:
                run.violation(mech, summary + " | cfg=%s listeners=%d" % (case["cfg"], case["listeners"]), case)
            if i < 1:
                run.sample({"cfg": case["cfg"], "listeners": case["listeners"], "history": case["history"][:12],
                            "log_tail": [list(map(str, e)) for e in k.log[-6:]]})
        # directed families (own random streams: the general histories above stay what they were)
        for fam, maker in (("requeue", make_requeue_case), ("expiry-race", make_expiry_race_case)):
            rng = rng_for(sh["seed"], "c13-" + fam, sh["sub"])
            for i in range(max(1, sh["n"] // 12)):
                if run.enough():
                    break
                case = maker(rng)
                v, reason, k = run_case(run, e5, case)
                run.case(common.sha12(case), nontrivial=True)
                run.count("histories/" + fam)
                if reason:
                    run.inconclusive_because(reason)
                for mech, summary in v:
                    run.violation(mech, summary + " | cfg=%s family=%s" % (case["cfg"], fam), case)
                if i < 1 and sh["sub"] == 0:
                    run.sample({"family": fam, "cfg": case["cfg"], "history": case["history"][:16]})
    else:
        hs = enum_histories(sh["maxlen"])
        cfg = {"threads": 1, "worker_connections": 2, "keepalive": 1}
        for h in hs[sh["sub"]::sh["of"]]:
            if run.enough():
                break
            case = {"cfg": cfg, "listeners": 1, "polite": True, "history": [list(s) for s in h]}
            v, reason, k = run_case(run, e5, case)
            run.case(common.sha12(case), nontrivial=("connect", 0) in h and ("connect", 1) in h)
            run.count("enumerated_histories")
            if reason:
                run.inconclusive_because(reason)
            for mech, summary in v:
                run.violation(mech, summary + " | cfg=%s" % cfg, case)
    return run


def main(tier, seed):
    run = Run(PROP, tier, seed, "exploration", RULE)
    run.require("histories", "enumerated_histories", "selects", "accepted_connections", "handler_finished_keepalive",
                "handler_finished_close", "keepalive_expiries_observed", "histories_reaching_capacity", "drain_checks",
                "pool_thread_lock_delays", "accept_eagain_after_readable", "keepalive_share_checks", "keepalive_grant_checks",
                "aux_nr_conns_agrees", "drain_count_checks",
                # a connection idle behind an older idle one became busy, was parked again and was reaped when it idled out
                "reparked_behind_older_idle", "reparked_behind_older_idle_then_reaped",
                # request bytes / a disconnect on an idle connection handed to the loop after its keep-alive time, before the reaper ran
                "event_on_idle_connection_past_keepalive_time/bytes", "event_on_idle_connection_past_keepalive_time/disconnect")
    q = tier == "quick"
    shards = [{"kind": "random", "n": 1500 if q else 20000, "sub": i, "seed": seed, "tier": tier} for i in range(16 if q else 32)]
    shards += [{"kind": "enum", "maxlen": 5 if q else 6, "sub": i, "of": 16, "seed": seed, "tier": tier} for i in range(16)]
    run.assumptions = [
        "the selector, listener, sockets, executor and clock are scripted; everything between them is the unmodified ThreadWorker code, "
        "handlers run in real threads; invariants are evaluated when no pool thread is runnable",
        "'eventually closed' and 'keeps serving' are judged as bounded progress: 3 loop iterations to dispatch, keepalive + 2.5 s to reap, "
        "keepalive + 4 s after the last client left to be empty",
        "connections still open when run() returns after a stop request are closed by process exit (counted, not judged)",
        "the worker's own count of open connections (nr_conns, what it compares with worker_connections before accepting) is read at "
        "points where no handler thread is running and must equal the number of connections the scripted sockets show as open",
    ]
    from checks import c13_live
    live = c13_live.plan(run, tier, seed)
    common.run_sharded(run, shards, timeout=900 if q else 7200)
    common.run_sharded(run, live, timeout=600, nproc=4)
    return run.finish()


def replay(path):
    from vlib import e5_gthread as e5
    with open(path) as f:
        rec = json.load(f)
    run = Run(PROP, "quick", 0, "exploration", RULE)
    if "live" in rec["case"]:
        from checks import c13_live
        v = c13_live.replay_case(run, rec["case"])
        for mech, s in v:
            print("VIOLATION property=%s replay=%s\n  %s %s" % (PROP, path, mech, s))
        return 1 if v else 0
    v, reason, k = run_case(run, e5, rec["case"])
    for e in k.log:
        print("  ", e)
    print("end:", getattr(k, "end", None), "iterations:", k.iterations, "inconclusive:", reason)
    for mech, s in v:
        print("VIOLATION property=%s replay=%s\n  %s %s" % (PROP, path, mech, s))
    if not v:
        print("no violation on replay")
    return 1 if v else 0
