"""C07 wsgi.input yields exactly the request body, and never the next request.

Monitor: programs of input calls run against the real req.body (E1) and, call by call, against
io.BytesIO(body); afterwards next(parser) must yield exactly the following pipelined request.
Also: reads that are interrupted (the source raises, as a socket with a timeout does while an upload stalls) and repeated - the
pieces the successful calls returned must still be consecutive pieces of the body; bodies announced with Expect: 100-continue
that the application never touches; both through the parser alone and through real worker loops.
"""
import io
import json

from vlib import common, gen
from vlib.common import Run, rng_for, hexs

PROP = "C07"
RULE = ("case = (body layout with newlines around the 1024/2048 block edges, CL or chunked framing with a "
        "chunk layout, segmentation, program of 1..12 calls from read/readline/readlines/next/for with sizes "
        "in {None,-1,0,1,2,7,1023,1024,1025,2048,10**6}, 1-2 following pipelined requests); non-trivial = "
        "program has >= 2 calls of different kinds or stops before EOF; distinct = sha1 of the case; plus interrupted-and-repeated "
        "read(n) programs over Content-Length bodies (stalls on 1024-byte block boundaries), and worker-level cases: upload stalling "
        "longer than the application's socket timeout, Expect: 100-continue bodies left untouched, each with a follower")

SIZES = [None, -1, 0, 1, 1, 2, 2, 7, 7, 100, 100, 1023, 1024, 1025, 2047, 2048, 2049, 10 ** 6]
EDGES = [1023, 1024, 1025, 2047, 2048, 2049, 3071, 3072]


def gen_body(rng):
    if rng.random() < 0.03:
        # a large body that the program will mostly leave unread: the parser has to skip all of it
        n = rng.choice([70000, 73728, 73729, 80000, 140000])
        b = bytearray(b"Z" * n)
        for off in (65536, 73728, 8192 * 9, n - 40):
            if 0 < off < n - 40:
                fake = b"\r\nGET /smuggled-at-%d HTTP/1.1\r\nHost: x\r\n\r\n" % off
                b[off:off + len(fake)] = fake
        return bytes(b)
    kind = rng.randint(0, 7)
    n = rng.choice([0, 1, 2, 5, 100, 1023, 1024, 1025, 2048, 3000, 5000, rng.randint(0, 5000), 8191, 8193, 9000, 17000])
    if kind == 0:
        return b"x" * n                                # no newline at all
    if kind == 1:
        return b"\n" * min(n, 1500)                    # only newlines
    b = bytearray(rng.choice(b"abcdefgh") for _ in range(n))
    if kind in (2, 3, 4):
        for e in EDGES:                                # newlines at and around block edges
            for d in rng.sample([-2, -1, 0, 1], 2):
                if 0 <= e + d < n and rng.random() < 0.6:
                    b[e + d] = 10
    if kind in (4, 5, 6):
        for _ in range(rng.randint(0, 30)):
            if n:
                b[rng.randrange(n)] = 10
    if kind == 7 and n:
        b[-1] = 10
        if n > 1:
            b[-2] = 13
    if kind in (3, 5, 7) and n:
        # bytes that other line-splitting routines (bytes.splitlines, str.splitlines) treat as line ends; a WSGI input line ends at LF only
        for _ in range(rng.randint(1, 12)):
            b[rng.randrange(n)] = rng.choice([13, 13, 13, 0x0b, 0x0c, 0x1c, 0x1d, 0x1e, 0x85])
    return bytes(b)


def frame(rng, body):
    """Returns (head+framed body bytes, framing label)."""
    if rng.random() < 0.45:
        return b"POST /c07 HTTP/1.1\r\nHost: h\r\nContent-Length: %d\r\n\r\n" % len(body) + body, "cl"
    style = rng.choice(["one", "many", "bytes", "ext", "edge", "upper"])
    if style == "bytes" and len(body) > 300:
        style = "many"
    if style == "edge":
        out, pos = [], 0
        cuts = sorted(set(e + rng.choice([-1, 0, 1]) for e in EDGES if e < len(body)))
        for c in cuts + [len(body)]:
            if c > pos:
                out.append(b"%x\r\n" % (c - pos) + body[pos:c] + b"\r\n")
                pos = c
        enc = b"".join(out)
    else:
        enc = gen.chunk_encode(rng, body, style)
    trailers = [b"X-Trailer: t"] if rng.random() < 0.2 else []
    if rng.random() < 0.06:
        # a trailer section the header rules refuse: the request fails (when the body is read to its end or when the parser
        # moves on) or the section is skipped - either way the next request starts right behind it
        trailers = [rng.choice([b"no colon here", b"X-T : space-before-colon", b"X-T: ctl\x00value", b": empty-name", b"X T: blank in name"])]
        style = "badtrailer"
    tail = b"0\r\n" + b"".join(t + b"\r\n" for t in trailers) + b"\r\n"
    if rng.random() < 0.2:
        tail = b"0;last\r\n" + b"".join(t + b"\r\n" for t in trailers) + b"\r\n"
    return (b"POST /c07 HTTP/1.1\r\nHost: h\r\nTransfer-Encoding: chunked\r\n\r\n" + enc + tail,
            "chunked/" + style)


def gen_program(rng):
    prog = []
    for _ in range(rng.choice([1, 1, 2, 2, 3, 4, 6, 12])):
        k = rng.random()
        if k < 0.35:
            prog.append(["read", rng.choice(SIZES)])
        elif k < 0.7:
            prog.append(["readline", rng.choice(SIZES)])
        elif k < 0.74:
            prog.append(["readlines", rng.choice([None, 0, 1, 10, 5000])])
        elif k < 0.9:
            prog.append(["next"])
        else:
            prog.append(["iter", rng.randint(1, 5)])
    if rng.random() < 0.3:
        prog.append(["read", None])
        prog.append([rng.choice(["read", "readline"]), rng.choice([None, 5, 0])])     # after EOF
        prog.append(["next"])
    return prog


class Mismatch(Exception):
    pass


def run_program(prog, real, model_bytes, log):
    """Execute prog on `real` and on BytesIO(model_bytes). Appends (op, got, want) on mismatch."""
    model = io.BytesIO(model_bytes)
    for op in prog:
        name = op[0]
        if name == "read":
            got = real.read(op[1]) if op[1] is not None else (real.read() if len(op) < 3 else real.read(None))
            want = model.read(op[1])
        elif name == "readline":
            got = real.readline(op[1]) if op[1] is not None else real.readline()
            want = model.readline(op[1]) if op[1] is not None else model.readline()
        elif name == "readlines":
            got = real.readlines(op[1]) if op[1] is not None else real.readlines()
            pos = model.tell()
            want_min = model.readlines(op[1]) if op[1] is not None else model.readlines()
            joined = b"".join(got)
            ok = isinstance(got, list) and all(isinstance(x, bytes) for x in got)
            ok = ok and model_bytes[pos:pos + len(joined)] == joined and len(joined) >= len(b"".join(want_min))
            if ok:
                # every element a whole line; the last may lack \n only at EOF
                for j, ln in enumerate(got):
                    if not ln or b"\n" in ln[:-1]:
                        ok = False
                    if not ln.endswith(b"\n") and not (j == len(got) - 1 and pos + len(joined) == len(model_bytes)):
                        ok = False
            if not ok:
                log.append((op, repr(got)[:200], "whole lines covering >= %r" % (want_min[:3],)))
                raise Mismatch()
            model.seek(pos + len(joined))
            continue
        elif name == "next":
            try:
                got = next(real)
            except StopIteration:
                got = StopIteration
            try:
                want = next(model)
            except StopIteration:
                want = StopIteration
        elif name == "iter":
            got, want = [], []
            for _ in range(op[1]):
                try:
                    got.append(next(iter(real)))
                except StopIteration:
                    got.append(StopIteration)
                    break
            for _ in range(op[1]):
                try:
                    want.append(next(model))
                except StopIteration:
                    want.append(StopIteration)
                    break
        if got != want:
            log.append((op, repr(got)[:200], repr(want)[:200]))
            raise Mismatch()
    return model.tell()


def run_case(run, e1, case):
    body = bytes.fromhex(case["body"]) if isinstance(case["body"], str) else case["body"]
    stream = bytes.fromhex(case["stream"])
    prog = case["program"]
    nfollow = case["follow"]
    cfg = e1.make_cfg(**case.get("cfg", {}))
    log = []
    state = {"n": 0, "consumed": None}

    def consumer(b):
        state["n"] += 1
        if state["n"] == 1:
            try:
                state["consumed"] = run_program(prog, b, body, log)
            except Mismatch:
                state["consumed"] = -1
            return b""
        return b.read()

    pieces = gen.cut(stream, case["cuts"])
    obs = e1.observe(cfg, pieces, consumer=consumer)
    out = []
    if log:
        op, got, want = log[0]
        out.append(("input-call-differs/" + op[0], "%s returned %s, file semantics give %s" % (op, got, want)))
    uris = [r["uri"] for r in obs["reqs"]]
    want_uris = ["/c07"] + ["/m-%d-k9q" % i for i in range(1, nfollow + 1)]
    if case.get("framing") == "chunked/cut":
        run.count("cut_chunked_bodies")
        r0 = obs["reqs"][0] if obs["reqs"] else None
        if r0 is not None and "body_error" not in r0:
            return [("truncated-chunked-body-reads-as-complete", "the stream ends before the last-chunk; read() to the end returned "
                     "%d bytes and no error" % (state["consumed"] if state["consumed"] is not None else -1))]
        return []
    if not log and case.get("framing") == "chunked/badtrailer":
        refused = obs["terminal"][0] in ("reject", "body_error") and len(uris) <= 1
        if not refused and (obs["terminal"] != ("end",) or uris != want_uris):
            out.append(("next-request-misparsed/after-refused-trailers", "the trailer section is malformed: the connection yielded %s "
                        "terminal=%s - neither refused nor continued at the first byte behind the section (%s)" % (
                            uris, obs["terminal"], want_uris)))
        run.count("malformed_trailer_cases")
    elif not log:
        if obs["terminal"] != ("end",) or uris != want_uris or any("body_error" in r for r in obs["reqs"]):
            out.append(("next-request-misparsed", "after the program the connection yielded %s terminal=%s, "
                        "expected %s then clean end" % (uris, obs["terminal"], want_uris)))
        run.count("programs_completed")
        if state["consumed"] is not None and 0 <= state["consumed"] < len(body):
            run.count("stopped_before_eof")
        if state["consumed"] == len(body):
            run.count("consumed_to_eof")
        if nfollow:
            run.count("followed_by_pipelined_request")
    return out


def make_case(rng):
    body = gen_body(rng)
    framed, label = frame(rng, body)
    if label.startswith("chunked/") and label != "chunked/badtrailer" and len(body) > 4 and rng.random() < 0.06:
        # the client goes away before the last-chunk: reading such a body to its end must fail - the application has no other
        # way to tell a cut-off upload from a complete one
        head_end = framed.index(b"\r\n\r\n") + 4
        last = framed.rindex(b"\r\n0")            # start of the line of the last-chunk (its extension, if any, follows)
        if last > head_end + 2:
            k = rng.randint(head_end + 1, last)
            return {"body": body.hex(), "stream": framed[:k].hex(), "framing": "chunked/cut", "program": [["read", None]],
                    "follow": 0, "cuts": sorted(rng.sample(range(1, k), min(k - 1, rng.randint(0, 3)))), "cfg": {}}
    nfollow = rng.choice([0, 1, 1, 2])
    stream = framed + b"".join(gen.marker(i) for i in range(1, nfollow + 1))
    n = len(stream)
    mode = rng.randint(0, 4)
    if mode == 0 or n < 3:
        cuts = []
    elif mode == 1 and n <= 1500:
        cuts = list(range(1, n))
    elif mode == 2:
        cuts = sorted(set(min(n - 1, max(1, k * 1024 + rng.choice([-1, 0, 1]))) for k in range(1, n // 1024 + 1)))
    else:
        cuts = sorted(rng.sample(range(1, n), min(n - 1, rng.randint(1, 8))))
    # the header limits say nothing about bodies: any setting that admits these (tiny) header blocks must give the same body
    cfg = rng.choice([{}, {}, {"limit_request_fields": 8, "limit_request_field_size": 128},
                      {"limit_request_fields": 4, "limit_request_field_size": 64, "limit_request_line": 256},
                      {"limit_request_field_size": 0}, {"limit_request_line": 0, "limit_request_fields": 3}])
    return {"body": body.hex(), "stream": stream.hex(), "framing": label, "program": gen_program(rng),
            "follow": nfollow, "cuts": cuts, "cfg": cfg}


# ---- reads that are interrupted and repeated ----------------------------------------------------------------
#
# An application may put a timeout on environ["gunicorn.socket"] (or a gevent / eventlet timer around its reads); when the upload stalls,
# the read raises, and the application may read again.  What the unchanged reader does then was measured first (DESIGN.md, C07): it is
# exact for Content-Length framing + read(n) when the stall falls on a 1024-byte block boundary of the body (nothing is held in a local
# variable at that moment); it loses bytes in three other shapes (stall inside a block: LengthReader's local buffer; readline(): the list
# of gathered parts; chunked: the chunk generator dies and the body "ends").  A call that raises is outside the property's quantifier,
# so only the exact shape is judged; the other three are run and counted ("interrupted_not_judged/...") so that the gap stays visible.

class Stall(TimeoutError):
    """What recv() on a socket with a timeout raises while the peer sends nothing."""


class StallingSource:
    """Iterator over byte pieces; an entry None raises Stall once (the next call goes on with the following entry)."""

    def __init__(self, script):
        self.script = list(script)
        self.i = 0
        self.stalls = 0

    def __iter__(self):
        return self

    def __next__(self):
        if self.i >= len(self.script):
            raise StopIteration
        x = self.script[self.i]
        self.i += 1
        if x is None:
            self.stalls += 1
            raise Stall("scripted stall")
        return x


INTERRUPT_SIZES = [100, 1023, 1024, 1025, 1500, 2048, 2049, 4096, 5000, 8192, 70000, 10 ** 6, None, -1]


def make_interrupted_case(rng, shape="judged"):
    """shape: judged (CL, read(n), stalls on block boundaries) | misaligned | readline | chunked (the latter three: counted only)."""
    n = rng.choice([1, 100, 1024, 1025, 2048, 2049, 3000, 4096, 4097, 5000, 9000, 17000])
    if shape != "judged":
        n = rng.choice([2049, 3000, 4096, 5000])
    body = bytes(rng.choice(b"abcdefgh\n") for _ in range(n))
    nfollow = rng.choice([1, 1, 2])
    if shape == "chunked":
        head = b"POST /c07 HTTP/1.1\r\nHost: h\r\nTransfer-Encoding: chunked\r\n\r\n"
        framed = gen.chunk_encode(rng, body, rng.choice(["one", "many"])) + b"0\r\n\r\n"
    else:
        head = b"POST /c07 HTTP/1.1\r\nHost: h\r\nContent-Length: %d\r\n\r\n" % n
        framed = body
    stream = head + framed + b"".join(gen.marker(i) for i in range(1, nfollow + 1))
    if shape in ("judged", "readline"):
        offs = list(range(0, n, 1024))              # block boundaries of the body (0 = the head has arrived, the body has not)
    elif shape == "misaligned":
        offs = [o for o in range(1, n) if o % 1024]
    else:
        offs = list(range(1, len(framed) - 5))
    stalls = sorted(rng.sample(offs, min(len(offs), rng.choice([1, 1, 2, 3]))))
    cuts = set(len(head) + o for o in stalls)
    for _ in range(rng.choice([0, 0, 1, 3, 6])):
        cuts.add(rng.randint(1, len(stream) - 1))  # ordinary read boundaries anywhere, also inside blocks
    script, prev = [], 0
    for c in sorted(cuts) + [len(stream)]:
        if c > prev:
            for k in range(prev, c, 8192):
                script.append(c - k if c - k < 8192 else 8192)
        if c - len(head) in stalls and c < len(stream):
            script.extend([0] * rng.choice([1, 1, 2, 3]))       # 0 = the source raises Stall (several timeouts in a row)
        prev = c
    sizes = [rng.choice(INTERRUPT_SIZES) for _ in range(rng.choice([1, 1, 2, 3]))]
    return {"kind": "interrupted", "shape": shape, "body": body.hex(), "stream": stream.hex(), "script": script,
            "sizes": sizes, "op": "readline" if shape == "readline" else "read", "follow": nfollow}


def run_interrupted(e1, case):
    """Returns (verdicts, stalls met by the application's calls). The application repeats a call that raised Stall and reads to EOF."""
    from gunicorn.http import RequestParser
    body, stream = bytes.fromhex(case["body"]), bytes.fromhex(case["stream"])
    script, pos = [], 0
    for n in case["script"]:
        script.append(stream[pos:pos + n] if n else None)
        pos += n
    src = StallingSource(script)
    parser = RequestParser(e1.make_cfg(), src, e1.UNTRUSTED_PEER)
    req = next(parser)
    model = io.BytesIO(body)
    met, k, out = 0, 0, []
    for _ in range(len(body) // 50 + 200):
        size = case["sizes"][k % len(case["sizes"])]
        try:
            if case["op"] == "readline":
                got = req.body.readline(size) if size is not None else req.body.readline()
            else:
                got = req.body.read(size) if size is not None else req.body.read()
        except Stall:
            met += 1
            continue                                # the application tries the same call again
        want = model.readline(size) if case["op"] == "readline" else model.read(size)
        k += 1
        if got != want:
            out.append(("interrupted-read/input-call-differs", "after %d interrupted call(s) %s(%s) at body offset %d returned %d bytes %r, "
                        "the body continues with %d bytes %r" % (met, case["op"], size, model.tell() - len(want), len(got), got[:24],
                                                                 len(want), want[:24])))
            return out, met
        if not want:
            break
    uris, terminal = [], None
    while terminal is None:
        try:
            r = next(parser)
            uris.append(r.uri)
            r.body.read()
        except StopIteration:
            terminal = "end"
        except Exception as e:      # noqa: BLE001
            terminal = "%s: %s" % (type(e).__name__, str(e)[:80])
    want_uris = ["/m-%d-k9q" % i for i in range(1, case["follow"] + 1)]
    if uris != want_uris or terminal != "end":
        out.append(("interrupted-read/next-request-misparsed", "after %d interrupted call(s) and a body read to its end the connection yielded "
                    "%s then %s, expected %s then a clean end" % (met, uris, terminal, want_uris)))
    return out, met


def interrupted_cases(run, e1, rng, n):
    for k in range(n):
        shape = "judged" if k % 8 else ["misaligned", "readline", "chunked"][(k // 8) % 3]
        case = make_interrupted_case(rng, shape)
        if shape != "judged":
            try:
                v, met = run_interrupted(e1, case)
                run.count("interrupted_not_judged/%s/%s" % (shape, "bytes-lost-or-misframed" if v else "exact"))
            except Exception as e:      # noqa: BLE001
                run.count("interrupted_not_judged/%s/raised-%s" % (shape, type(e).__name__))
            continue
        run.case(common.sha12(case))
        v, met = run_interrupted(e1, case)
        run.count("interrupted_read_programs")
        run.count("interrupted_read_calls_repeated", met)
        if any(sz is None or sz < 0 or sz > 1024 for sz in case["sizes"]) and met:
            run.count("interrupted_while_gathering_several_blocks")
        for mech, summary in v:
            run.violation(mech, summary + " | body_len=%d sizes=%s script=%s" % (len(case["body"]) // 2, case["sizes"], case["script"][:12]), case)


# ---- worker level: stalled uploads, Expect: 100-continue left untouched --------------------------------------------------

class _StallApp:
    """Reads the whole body with read(n) under a timeout it puts on gunicorn.socket; a call that times out is repeated."""

    def __init__(self, sizes, timeout):
        self.sizes, self.timeout, self.calls = sizes, timeout, []

    def __call__(self, environ, start_response):
        import socket
        rec = {"uri": environ["RAW_URI"], "body": b"", "timeouts": 0, "reads": []}
        self.calls.append(rec)
        sock = environ["gunicorn.socket"]
        old = sock.gettimeout()
        sock.settimeout(self.timeout)
        inp, k = environ["wsgi.input"], 0
        try:
            while rec["timeouts"] < 60:
                try:
                    d = inp.read(self.sizes[k % len(self.sizes)])
                except socket.timeout:
                    rec["timeouts"] += 1
                    continue
                k += 1
                if not d:
                    break
                rec["body"] += d
        finally:
            sock.settimeout(old)
        start_response("200 OK", [("Content-Length", "2")])
        return [b"ok"]


class _UntouchedApp:
    """Answers without reading (mode 'none': wsgi.input is not touched at all; 'zero': read(0); 'some': read(3))."""

    def __init__(self, mode):
        self.mode, self.calls = mode, []

    def __call__(self, environ, start_response):
        rec = {"uri": environ["RAW_URI"], "body": b""}
        self.calls.append(rec)
        if len(self.calls) == 1:
            if self.mode == "zero":
                rec["body"] = environ["wsgi.input"].read(0)
            elif self.mode == "some":
                rec["body"] = environ["wsgi.input"].read(3)
        else:
            rec["body"] = environ["wsgi.input"].read()
        start_response("200 OK", [("Content-Length", "2")])
        return [b"ok"]


def final_responses(data):
    """Number of final (non-1xx) responses with a 2-byte body in what the client received; None if the bytes are something else."""
    n, pos = 0, 0
    while pos < len(data):
        e = data.find(b"\r\n\r\n", pos)
        if e < 0:
            return None
        status = data[pos:e].split(b"\r\n")[0]
        if status.startswith(b"HTTP/1.1 100"):
            pos = e + 4
            continue
        if not status.startswith(b"HTTP/1.1 200") or data[e + 4:e + 6] != b"ok":
            return None
        n += 1
        pos = e + 6
    return n


def run_worker_case(e2, harn, case):
    """One worker-level case; returns (verdicts, calls, info)."""
    kind = case["worker"]
    stream, body = bytes.fromhex(case["stream"]), bytes.fromhex(case["body"])
    app = _StallApp(case["sizes"], case["app_timeout"]) if case["class"] == "stalled-upload" else _UntouchedApp(case["app_mode"])
    out = harn.connection(stream, app, mode="halfclose", segments=case["segments"], segment_delay=case["delay"], timeout=8.0)
    calls, v = app.calls, []
    if out["hung"]:
        return None, calls, out
    keeps = kind != "sync"
    want_uris = ["/c07w"] + (["/m-1-k9q"] if keeps else [])
    uris = [c["uri"] for c in calls]
    nresp = final_responses(out["received"])
    if case["class"] == "stalled-upload":
        got = calls[0]["body"] if calls else None
        if got != body:
            v.append(("worker/interrupted-read-body-differs", "%s worker: the upload stalled at body offset %s for %.2fs, the application's reads "
                      "(read sizes %s, socket timeout %.2fs, %s timed out and were repeated) returned %s bytes in all, the body has %d%s" % (
                          kind, case["stall_at"], case["delay"], case["sizes"], case["app_timeout"], calls[0]["timeouts"] if calls else "-",
                          None if got is None else len(got), len(body),
                          "" if got is None or len(got) != len(body) else " (same length, other bytes)")))
        elif uris != want_uris or nresp != len(want_uris):
            v.append(("worker/follower-of-interrupted-upload-misparsed", "%s worker: after an upload whose reads were interrupted %d time(s) the "
                      "application was called for %s and the client got %s complete responses, expected %s" % (
                          kind, calls[0]["timeouts"], uris, nresp, want_uris)))
    else:
        if uris != want_uris or nresp != len(want_uris) or any(c["body"] for c in calls[1:]):
            v.append(("worker/next-request-misparsed/body-left-untouched", "%s worker: POST with %s and a %d-byte %s body the application does not "
                      "read (%s), then GET /m-1-k9q: the application was called for %s (bodies %s), the client got %s final responses; expected %s" % (
                          kind, "Expect: 100-continue" if case["expect"] else "no Expect", len(body), case["framing"], case["app_mode"], uris,
                          [len(c["body"]) for c in calls], nresp, want_uris)))
    return v, calls, out


def make_worker_case(rng, k):
    kind = ["gthread", "async", "sync"][k % 3]
    if k % 5 in (0, 3):
        # an upload that stalls in mid-body for longer than the timeout the application put on its socket
        n = rng.choice([2048, 3000, 4096, 5000, 9000])
        body = bytes(rng.choice(b"abcdefgh\n") for _ in range(n))
        if rng.random() < 0.3:
            fake = b"\r\nGET /inside-the-body HTTP/1.1\r\nHost: x\r\n\r\n"
            body = body[:n - 1024 + 3] + fake + body[n - 1024 + 3 + len(fake):]
        head = b"POST /c07w HTTP/1.1\r\nHost: h\r\nContent-Length: %d\r\n\r\n" % n
        stall = rng.choice(range(0, n, 1024))                   # a block boundary of the body: see the note above
        stream = head + body + gen.marker(1)
        a = len(head) + stall
        return {"origin": "workers2", "class": "stalled-upload", "worker": kind, "stream": stream.hex(), "body": body.hex(), "stall_at": stall,
                "segments": [a, len(stream) - a], "delay": 0.45, "app_timeout": 0.12,
                "sizes": [rng.choice([100, 1024, 1500, 2048, 4096, 5000, 70000]) for _ in range(rng.choice([1, 1, 2]))]}
    kind = ["gthread", "async"][k % 2]
    body = rng.choice([b"GET /smuggled HTTP/1.1\r\nHost: evil\r\n\r\n", b"hello", bytes(rng.choice(b"abc\n") for _ in range(rng.choice([1, 300, 3000])))])
    expect = rng.random() < 0.75
    hdrs = b"Host: h\r\n" + (rng.choice([b"Expect: 100-continue\r\n", b"Expect: 100-Continue\r\n", b"expect: 100-continue\r\n"]) if expect else b"")
    if rng.random() < 0.6:
        framing, head, framed = "Content-Length", b"POST /c07w HTTP/1.1\r\n" + hdrs + b"Content-Length: %d\r\n\r\n" % len(body), body
    else:
        framing, head = "chunked", b"POST /c07w HTTP/1.1\r\n" + hdrs + b"Transfer-Encoding: chunked\r\n\r\n"
        framed = gen.chunk_encode(rng, body, rng.choice(["one", "many"])) + b"0\r\n\r\n"
    stream = head + framed + gen.marker(1)
    where = rng.choice(["together", "body-later", "follower-later", "both-later"])
    segs = {"together": [len(stream)], "body-later": [len(head), len(stream) - len(head)],
            "follower-later": [len(head) + len(framed), len(stream) - len(head) - len(framed)],
            "both-later": [len(head), len(framed), len(stream) - len(head) - len(framed)]}[where]
    return {"origin": "workers2", "class": "untouched-body", "worker": kind, "stream": stream.hex(), "body": body.hex(), "expect": expect,
            "framing": framing, "segments": segs, "delay": rng.choice([0.01, 0.03, 0.1]), "app_mode": rng.choice(["none", "none", "zero", "some"])}


WORKER_CFG = {"gthread": {"keepalive": 2, "threads": 2}, "async": {"keepalive": 2}, "sync": {"keepalive": 2}}


def worker_extra(run, sh):
    from vlib import e2_worker as e2
    rng = rng_for(sh["seed"], "c07-workers2", sh["sub"])
    harn = {k: e2.Harness(k, WORKER_CFG[k]) for k in WORKER_CFG}
    try:
        for k in range(sh["n2"]):
            if run.enough():
                break
            case = make_worker_case(rng, k + sh["sub"])
            kind = case["worker"]
            v, calls, out = run_worker_case(e2, harn[kind], case)
            run.case(common.sha12(case))
            if v is None:
                run.count("worker_connection_hung")
                harn[kind].close()
                harn[kind] = e2.Harness(kind, WORKER_CFG[kind])
                continue
            if case["class"] == "stalled-upload":
                run.count("worker_stalled_uploads")
                if calls and calls[0]["timeouts"]:
                    run.count("worker_reads_interrupted_and_repeated", calls[0]["timeouts"])
                    if kind != "sync":
                        run.count("worker_follower_after_interrupted_upload")
            else:
                run.count("worker_untouched_bodies")
                if case["expect"]:
                    run.count("worker_untouched_bodies_with_expect_100")
            for mech, summary in v:
                run.violation(mech, summary + " | segments=%s stream=%s" % (case["segments"], hexs(bytes.fromhex(case["stream"])[:160])), case)
    finally:
        for h in harn.values():
            h.close()
    return run


def shard(sh):
    from vlib import e1_wire as e1
    run = Run(PROP, sh.get("tier", "quick"), sh["seed"], "exploration", RULE)
    if sh.get("kind") == "workers":
        # the same reads through real worker loops: keep-alive connections whose bytes arrive with pauses (engine E2)
        from checks import c01
        c01.worker_shard(run, sh, label="c07-workers", varied_reads=True)
        if sh.get("n2"):
            worker_extra(run, sh)
        return run
    rng = rng_for(sh["seed"], "c07", sh["sub"])
    interrupted_cases(run, e1, rng_for(sh["seed"], "c07-interrupted", sh["sub"]), sh.get("ni", 0))
    for k in range(sh["n"]):
        if run.enough():
            break
        case = make_case(rng)
        kinds = set(op[0] for op in case["program"])
        run.case(common.sha12([case["stream"], case["program"], case["cuts"][:16]]), nontrivial=len(kinds) >= 2)
        run.count("framing/" + case["framing"].split("/")[0])
        if case["cfg"]:
            run.count("non_default_header_limits")
        for mech, summary in run_case(run, e1, case):
            run.violation(mech, summary + " | framing=%s body_len=%d program=%s" % (
                case["framing"], len(case["body"]) // 2, case["program"]), case)
        if k < 1:
            run.sample({"framing": case["framing"], "body_len": len(case["body"]) // 2,
                        "program": case["program"], "follow": case["follow"], "ncuts": len(case["cuts"])})
    return run


def main(tier, seed):
    run = Run(PROP, tier, seed, "exploration", RULE)
    run.require("programs_completed", "stopped_before_eof", "consumed_to_eof", "followed_by_pipelined_request",
                "framing/cl", "framing/chunked", "non_default_header_limits", "malformed_trailer_cases", "cut_chunked_bodies", "worker_connections",
                "worker_later_call_with_body", "interrupted_read_programs", "interrupted_read_calls_repeated",
                "interrupted_while_gathering_several_blocks", "worker_stalled_uploads", "worker_reads_interrupted_and_repeated",
                "worker_follower_after_interrupted_upload", "worker_untouched_bodies", "worker_untouched_bodies_with_expect_100")
    q = tier == "quick"
    per = 4000 if q else 40000
    shards = [{"kind": "workers", "n": 120 if q else 2500, "n2": 20 if q else 300, "sub": s, "seed": seed, "tier": tier}
              for s in range(8 if q else 16)]
    shards += [{"n": per, "ni": 160 if q else 1600, "sub": s, "seed": seed, "tier": tier} for s in range(48 if q else 128)]
    run.assumptions = [
        "oracle = io.BytesIO(body) call by call; readlines(hint) may return more whole lines than the hint asks (PEP 3333)",
        "sizes are ints or None; non-int sizes are outside the property",
        "reads interrupted by an exception (a timeout the application put on gunicorn.socket while the upload stalls) and repeated are judged "
        "only in the shape in which the unchanged reader is exact: Content-Length framing, read(n), the stall falling on a 1024-byte block "
        "boundary of the body; a call that raises is outside the property's quantifier, so the three shapes in which the unchanged reader "
        "loses bytes (stall inside a block, readline(), chunked framing) are run and counted as interrupted_not_judged/*, not judged",
        "worker-level follower checks (stalled upload, Expect: 100-continue body left untouched) use keep-alive loops (gthread, base_async); "
        "the sync worker closes after one response and is judged for the body only",
    ]
    common.run_sharded(run, shards, timeout=900 if q else 7200)
    return run.finish()


def replay(path):
    from vlib import e1_wire as e1
    with open(path) as f:
        rec = json.load(f)
    run = Run(PROP, "quick", 0, "exploration", RULE)
    case = rec["case"]
    if case.get("kind") == "interrupted":
        v, met = run_interrupted(e1, case)
        print("calls interrupted and repeated: %d" % met)
    elif case.get("origin") == "workers2":
        from vlib import e2_worker as e2
        h = e2.Harness(case["worker"], WORKER_CFG[case["worker"]])
        v, calls, out = run_worker_case(e2, h, case)
        h.close()
        print("calls:", [(c["uri"], len(c["body"]), c.get("timeouts")) for c in calls], "received:", out["received"][:200])
        v = v or []
    elif case.get("origin") == "workers":
        from checks import c01
        from vlib import e2_worker as e2, ref_http
        kind, stream = case["worker"], bytes.fromhex(case["stream"])
        msgs = ref_http.walk(stream, "drop")
        v = []
        for k in range(20):         # the application's read pattern is drawn anew each time
            h = e2.Harness(kind, {"keepalive": 2, "threads": 2} if kind == "gthread" else {"keepalive": 2})
            app = c01._RecApp(rng_for(k, "c07-replay"))
            h.connection(stream, app, mode="halfclose", segments=case["segments"], segment_delay=0.02, timeout=6.0)
            h.close()
            v = c01.judge_worker_full(run, stream, app.calls, msgs, judge_reject=False)
            if v:
                print("calls:", [(c["method"], c["uri"][:40], len(c.get("body", b"")), c.get("body_error")) for c in app.calls])
                break
    else:
        v = run_case(run, e1, case)
    for mech, s in v:
        print("VIOLATION property=%s replay=%s\n  %s %s" % (PROP, path, mech, s))
    if not v:
        print("no violation on replay")
    return 1 if v else 0
