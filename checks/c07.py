"""C07 wsgi.input yields exactly the request body, and never the next request.

Monitor: programs of input calls run against the real req.body (E1) and, call by call, against
io.BytesIO(body); afterwards next(parser) must yield exactly the following pipelined request.
"""
import io
import json

from vlib import common, gen
from vlib.common import Run, rng_for, hexs

PROP = "C07"
RULE = ("case = (body layout with newlines around the 1024/2048 block edges, CL or chunked framing with a "
        "chunk layout, segmentation, program of 1..12 calls from read/readline/readlines/next/for with sizes "
        "in {None,-1,0,1,2,7,1023,1024,1025,2048,10**6}, 1-2 following pipelined requests); non-trivial = "
        "program has >= 2 calls of different kinds or stops before EOF; distinct = sha1 of the case")

SIZES = [None, -1, 0, 1, 1, 2, 2, 7, 7, 100, 100, 1023, 1024, 1025, 2047, 2048, 2049, 10 ** 6]
EDGES = [1023, 1024, 1025, 2047, 2048, 2049, 3071, 3072]


def gen_body(rng):
    if rng.random() < 0.03:
        # a large body that the program will mostly leave unread: the parser has to skip all of it
        n = rng.choice([70000, 73728, 73729, 80000, 140000])
        b = bytearray(b"Z" * n)
        for off in (65536, 73728, 8192 * 9, n - 40):
            if 0 < off < n - 40:
                fake = b"\r\nGET /smuggled-at-%d HTTP/1.1\r\nHost: x\r\n\r\n" % off
                b[off:off + len(fake)] = fake
        return bytes(b)
    kind = rng.randint(0, 7)
    n = rng.choice([0, 1, 2, 5, 100, 1023, 1024, 1025, 2048, 3000, 5000, rng.randint(0, 5000), 8191, 8193, 9000, 17000])
    if kind == 0:
        return b"x" * n                                # no newline at all
    if kind == 1:
        return b"\n" * min(n, 1500)                    # only newlines
    b = bytearray(rng.choice(b"abcdefgh") for _ in range(n))
    if kind in (2, 3, 4):
        for e in EDGES:                                # newlines at and around block edges
            for d in rng.sample([-2, -1, 0, 1], 2):
                if 0 <= e + d < n and rng.random() < 0.6:
                    b[e + d] = 10
    if kind in (4, 5, 6):
        for _ in range(rng.randint(0, 30)):
            if n:
                b[rng.randrange(n)] = 10
    if kind == 7 and n:
        b[-1] = 10
        if n > 1:
            b[-2] = 13
    if kind in (3, 5, 7) and n:
        # bytes that other line-splitting routines (bytes.splitlines, str.splitlines) treat as line ends; a WSGI input line ends at LF only
        for _ in range(rng.randint(1, 12)):
            b[rng.randrange(n)] = rng.choice([13, 13, 13, 0x0b, 0x0c, 0x1c, 0x1d, 0x1e, 0x85])
    return bytes(b)


def frame(rng, body):
    """Returns (head+framed body bytes, framing label)."""
    if rng.random() < 0.45:
        return b"POST /c07 HTTP/1.1\r\nHost: h\r\nContent-Length: %d\r\n\r\n" % len(body) + body, "cl"
    style = rng.choice(["one", "many", "bytes", "ext", "edge", "upper"])
    if style == "bytes" and len(body) > 300:
        style = "many"
    if style == "edge":
        out, pos = [], 0
        cuts = sorted(set(e + rng.choice([-1, 0, 1]) for e in EDGES if e < len(body)))
        for c in cuts + [len(body)]:
            if c > pos:
                out.append(b"%x\r\n" % (c - pos) + body[pos:c] + b"\r\n")
                pos = c
        enc = b"".join(out)
    else:
        enc = gen.chunk_encode(rng, body, style)
    trailers = [b"X-Trailer: t"] if rng.random() < 0.2 else []
    if rng.random() < 0.06:
        # a trailer section the header rules refuse: the request fails (when the body is read to its end or when the parser
        # moves on) or the section is skipped - either way the next request starts right behind it
        trailers = [rng.choice([b"no colon here", b"X-T : space-before-colon", b"X-T: ctl\x00value", b": empty-name", b"X T: blank in name"])]
        style = "badtrailer"
    tail = b"0\r\n" + b"".join(t + b"\r\n" for t in trailers) + b"\r\n"
    if rng.random() < 0.2:
        tail = b"0;last\r\n" + b"".join(t + b"\r\n" for t in trailers) + b"\r\n"
    return (b"POST /c07 HTTP/1.1\r\nHost: h\r\nTransfer-Encoding: chunked\r\n\r\n" + enc + tail,
            "chunked/" + style)


def gen_program(rng):
    prog = []
    for _ in range(rng.choice([1, 1, 2, 2, 3, 4, 6, 12])):
        k = rng.random()
        if k < 0.35:
            prog.append(["read", rng.choice(SIZES)])
        elif k < 0.7:
            prog.append(["readline", rng.choice(SIZES)])
        elif k < 0.74:
            prog.append(["readlines", rng.choice([None, 0, 1, 10, 5000])])
        elif k < 0.9:
            prog.append(["next"])
        else:
            prog.append(["iter", rng.randint(1, 5)])
    if rng.random() < 0.3:
        prog.append(["read", None])
        prog.append([rng.choice(["read", "readline"]), rng.choice([None, 5, 0])])     # after EOF
        prog.append(["next"])
    return prog


class Mismatch(Exception):
    pass


def run_program(prog, real, model_bytes, log):
    """Execute prog on `real` and on BytesIO(model_bytes). Appends (op, got, want) on mismatch."""
    model = io.BytesIO(model_bytes)
    for op in prog:
        name = op[0]
        if name == "read":
            got = real.read(op[1]) if op[1] is not None else (real.read() if len(op) < 3 else real.read(None))
            want = model.read(op[1])
        elif name == "readline":
            got = real.readline(op[1]) if op[1] is not None else real.readline()
            want = model.readline(op[1]) if op[1] is not None else model.readline()
        elif name == "readlines":
            got = real.readlines(op[1]) if op[1] is not None else real.readlines()
            pos = model.tell()
            want_min = model.readlines(op[1]) if op[1] is not None else model.readlines()
            joined = b"".join(got)
            ok = isinstance(got, list) and all(isinstance(x, bytes) for x in got)
            ok = ok and model_bytes[pos:pos + len(joined)] == joined and len(joined) >= len(b"".join(want_min))
            if ok:
                # every element a whole line; the last may lack \n only at EOF
                for j, ln in enumerate(got):
                    if not ln or b"\n" in ln[:-1]:
                        ok = False
                    if not ln.endswith(b"\n") and not (j == len(got) - 1 and pos + len(joined) == len(model_bytes)):
                        ok = False
            if not ok:
                log.append((op, repr(got)[:200], "whole lines covering >= %r" % (want_min[:3],)))
                raise Mismatch()
            model.seek(pos + len(joined))
            continue
        elif name == "next":
            try:
                got = next(real)
            except StopIteration:
                got = StopIteration
            try:
                want = next(model)
            except StopIteration:
                want = StopIteration
        elif name == "iter":
            got, want = [], []
            for _ in range(op[1]):
                try:
                    got.append(next(iter(real)))
                except StopIteration:
                    got.append(StopIteration)
                    break
            for _ in range(op[1]):
                try:
                    want.append(next(model))
                except StopIteration:
                    want.append(StopIteration)
                    break
        if got != want:
            log.append((op, repr(got)[:200], repr(want)[:200]))
            raise Mismatch()
    return model.tell()


def run_case(run, e1, case):
    body = bytes.fromhex(case["body"]) if isinstance(case["body"], str) else case["body"]
    stream = bytes.fromhex(case["stream"])
    prog = case["program"]
    nfollow = case["follow"]
    cfg = e1.make_cfg(**case.get("cfg", {}))
    log = []
    state = {"n": 0, "consumed": None}

    def consumer(b):
        state["n"] += 1
        if state["n"] == 1:
            try:
                state["consumed"] = run_program(prog, b, body, log)
            except Mismatch:
                state["consumed"] = -1
            return b""
        return b.read()

    pieces = gen.cut(stream, case["cuts"])
    obs = e1.observe(cfg, pieces, consumer=consumer)
    out = []
    if log:
        op, got, want = log[0]
        out.append(("input-call-differs/" + op[0], "%s returned %s, file semantics give %s" % (op, got, want)))
    uris = [r["uri"] for r in obs["reqs"]]
    want_uris = ["/c07"] + ["/m-%d-k9q" % i for i in range(1, nfollow + 1)]
    if case.get("framing") == "chunked/cut":
        run.count("cut_chunked_bodies")
        r0 = obs["reqs"][0] if obs["reqs"] else None
        if r0 is not None and "body_error" not in r0:
            return [("truncated-chunked-body-reads-as-complete", "the stream ends before the last-chunk; read() to the end returned "
                     "%d bytes and no error" % (state["consumed"] if state["consumed"] is not None else -1))]
        return []
    if not log and case.get("framing") == "chunked/badtrailer":
        refused = obs["terminal"][0] in ("reject", "body_error") and len(uris) <= 1
        if not refused and (obs["terminal"] != ("end",) or uris != want_uris):
            out.append(("next-request-misparsed/after-refused-trailers", "the trailer section is malformed: the connection yielded %s "
                        "terminal=%s - neither refused nor continued at the first byte behind the section (%s)" % (
                            uris, obs["terminal"], want_uris)))
        run.count("malformed_trailer_cases")
    elif not log:
        if obs["terminal"] != ("end",) or uris != want_uris or any("body_error" in r for r in obs["reqs"]):
            out.append(("next-request-misparsed", "after the program the connection yielded %s terminal=%s, "
                        "expected %s then clean end" % (uris, obs["terminal"], want_uris)))
        run.count("programs_completed")
        if state["consumed"] is not None and 0 <= state["consumed"] < len(body):
            run.count("stopped_before_eof")
        if state["consumed"] == len(body):
            run.count("consumed_to_eof")
        if nfollow:
            run.count("followed_by_pipelined_request")
    return out


def make_case(rng):
    body = gen_body(rng)
    framed, label = frame(rng, body)
    if label.startswith("chunked/") and label != "chunked/badtrailer" and len(body) > 4 and rng.random() < 0.06:
        # the client goes away before the last-chunk: reading such a body to its end must fail - the application has no other
        # way to tell a cut-off upload from a complete one
        head_end = framed.index(b"\r\n\r\n") + 4
        last = framed.rindex(b"\r\n0")            # start of the line of the last-chunk (its extension, if any, follows)
        if last > head_end + 2:
            k = rng.randint(head_end + 1, last)
            return {"body": body.hex(), "stream": framed[:k].hex(), "framing": "chunked/cut", "program": [["read", None]],
                    "follow": 0, "cuts": sorted(rng.sample(range(1, k), min(k - 1, rng.randint(0, 3)))), "cfg": {}}
    nfollow = rng.choice([0, 1, 1, 2])
    stream = framed + b"".join(gen.marker(i) for i in range(1, nfollow + 1))
    n = len(stream)
    mode = rng.randint(0, 4)
    if mode == 0 or n < 3:
        cuts = []
    elif mode == 1 and n <= 1500:
        cuts = list(range(1, n))
    elif mode == 2:
        cuts = sorted(set(min(n - 1, max(1, k * 1024 + rng.choice([-1, 0, 1]))) for k in range(1, n // 1024 + 1)))
    else:
        cuts = sorted(rng.sample(range(1, n), min(n - 1, rng.randint(1, 8))))
    # the header limits say nothing about bodies: any setting that admits these (tiny) header blocks must give the same body
    cfg = rng.choice([{}, {}, {"limit_request_fields": 8, "limit_request_field_size": 128},
                      {"limit_request_fields": 4, "limit_request_field_size": 64, "limit_request_line": 256},
                      {"limit_request_field_size": 0}, {"limit_request_line": 0, "limit_request_fields": 3}])
    return {"body": body.hex(), "stream": stream.hex(), "framing": label, "program": gen_program(rng),
            "follow": nfollow, "cuts": cuts, "cfg": cfg}


def shard(sh):
    from vlib import e1_wire as e1
    run = Run(PROP, sh.get("tier", "quick"), sh["seed"], "exploration", RULE)
    if sh.get("kind") == "workers":
        # the same reads through real worker loops: keep-alive connections whose bytes arrive with pauses (engine E2)
        from checks import c01
        return c01.worker_shard(run, sh, label="c07-workers", varied_reads=True)
    rng = rng_for(sh["seed"], "c07", sh["sub"])
    for k in range(sh["n"]):
        if run.enough():
            break
        case = make_case(rng)
        kinds = set(op[0] for op in case["program"])
        run.case(common.sha12([case["stream"], case["program"], case["cuts"][:16]]), nontrivial=len(kinds) >= 2)
        run.count("framing/" + case["framing"].split("/")[0])
        if case["cfg"]:
            run.count("non_default_header_limits")
        for mech, summary in run_case(run, e1, case):
            run.violation(mech, summary + " | framing=%s body_len=%d program=%s" % (
                case["framing"], len(case["body"]) // 2, case["program"]), case)
        if k < 1:
            run.sample({"framing": case["framing"], "body_len": len(case["body"]) // 2,
                        "program": case["program"], "follow": case["follow"], "ncuts": len(case["cuts"])})
    return run


def main(tier, seed):
    run = Run(PROP, tier, seed, "exploration", RULE)
    run.require("programs_completed", "stopped_before_eof", "consumed_to_eof", "followed_by_pipelined_request",
                "framing/cl", "framing/chunked", "non_default_header_limits", "malformed_trailer_cases", "cut_chunked_bodies", "worker_connections",
                "worker_later_call_with_body")
    q = tier == "quick"
    per = 4000 if q else 40000
    shards = [{"kind": "workers", "n": 120 if q else 2500, "sub": s, "seed": seed, "tier": tier} for s in range(8 if q else 16)]
    shards += [{"n": per, "sub": s, "seed": seed, "tier": tier} for s in range(48 if q else 128)]
    run.assumptions = [
        "oracle = io.BytesIO(body) call by call; readlines(hint) may return more whole lines than the hint asks (PEP 3333)",
        "sizes are ints or None; non-int sizes are outside the property",
    ]
    common.run_sharded(run, shards, timeout=900 if q else 7200)
    return run.finish()


def replay(path):
    from vlib import e1_wire as e1
    with open(path) as f:
        rec = json.load(f)
    run = Run(PROP, "quick", 0, "exploration", RULE)
    case = rec["case"]
    if case.get("origin") == "workers":
        from checks import c01
        from vlib import e2_worker as e2, ref_http
        kind, stream = case["worker"], bytes.fromhex(case["stream"])
        msgs = ref_http.walk(stream, "drop")
        v = []
        for k in range(20):         # the application's read pattern is drawn anew each time
            h = e2.Harness(kind, {"keepalive": 2, "threads": 2} if kind == "gthread" else {"keepalive": 2})
            app = c01._RecApp(rng_for(k, "c07-replay"))
            h.connection(stream, app, mode="halfclose", segments=case["segments"], segment_delay=0.02, timeout=6.0)
            h.close()
            v = c01.judge_worker_full(run, stream, app.calls, msgs, judge_reject=False)
            if v:
                print("calls:", [(c["method"], c["uri"][:40], len(c.get("body", b"")), c.get("body_error")) for c in app.calls])
                break
    else:
        v = run_case(run, e1, case)
    for mech, s in v:
        print("VIOLATION property=%s replay=%s\n  %s %s" % (PROP, path, mech, s))
    if not v:
        print("no violation on replay")
    return 1 if v else 0
